#!/usr/bin/env python3
"""Writes /verif/MANIFEST.json from the tables below (single source of truth for what is claimed)."""
import json, os, sys

HERE = os.path.dirname(os.path.abspath(__file__))

# id -> (category, technique, text, note, design_ref)
CLAIMED = {
 "C01": ("other", "reader/writer wire-program duality over type-checked AST of regenerated code",
         "Decides, for every generated type of every corpus regenerated from the working tree (and the checked-in generated packages), that the TL1 reader's wire program is the dual of the writer's (same primitives, operands, mask-bit guards, nat arguments, counted loops, union tag tables), that nat-sized arrays have a failing length guard in the writer and that no nested writer error is dropped. All values/paths are covered; schemas only for the corpora.",
         "trusts go/types, the basictl primitive duality table (C33) and that tl2gen run as a compiler reflects the generator; corpus-bounded for the schema quantifier", "DESIGN.md §3 C01"),
 "C02": ("other", "tag-switch totality, exact-tag and buffer-discipline rules over regenerated code; sorted-key emission rule",
         "Decides the structural necessary conditions of canonical acceptance: every union/enum boxed reader rejects unknown tags in its default arm and has pairwise distinct tags; every boxed struct reader demands exactly its own TLTag; Bool readers use two distinct tags; readers consume input only through basictl primitives/sibling readers; map-backed dictionary writers emit from sorted keys. Does not decide the behaviour 'accepted prefix is re-written identically' as a whole (that is these clauses + C01 duality + C33 tables).",
         "trusts go/types, C01 and C33; corpus-bounded for schemas", "DESIGN.md §3 C02"),
 "C03": ("other", "three-way sibling agreement CalculateLayout/InternalWriteTL2/InternalReadTL2 over regenerated code (slot tables, value-op sequences, framing, panic guards)",
         "Decides per generated type: every writer field slot (presence condition, block byte, bit, data ops) has a reader slot with the same byte/bit and dual ops on the same operands; reader-only slots only skip; CalculateLayout has the same slots under the same conditions, starts block bytes at the same places and adds the widths of what the writer writes; nested values are traversed in the same order by all three; readers parse the size first and reject size > remaining input; writer panics depend only on calculate/write bookkeeping. Numeric size values are not decided.",
         "trusts go/types, basictl TL2 primitive table (C33); corpus-bounded", "DESIGN.md §3 C03"),
 "C04": ("other", "sibling agreement of the presence table (TL1 mask bit, TL2 presence bit, field) across all generated sites",
         "Decides that for every generated struct the ties field↔TL1 mask bit↔hidden TL2 presence bit extracted from ReadTL1, WriteTL1, RepairMasks, FillRandom, ReadJSONGeneral, CalculateLayout, InternalWriteTL2, InternalReadTL2, WriteJSONOpt are single-valued and compose: a necessary condition for TL1→TL2→TL1 to preserve values. Value equality of JSON is not decided.",
         "trusts go/types and the shape extractor's idiom table; corpus-bounded", "DESIGN.md §3 C04"),
 "C05": ("other", "abstract interpretation of JSON writers over a JSON grammar automaton; key-table and codec duality between WriteJSONOpt and ReadJSONGeneral",
         "Decides for every generated type of every corpus: each JSON writer emits, on every path (including the backup/rollback idiom, optional members, loops and quoted-number dictionary keys), a token sequence that is exactly one well-formed JSON value; only constants, basictl.JSONWrite* and nested writers reach the buffer; the keys a writer can emit are keys its reader accepts (extra reader keys only for content-free types), each key names the same field with dual codecs on both sides; every type name a union writer can emit (outside the write-only Short mode) is mapped by the reader to the same variant. String/number spelling is C34. Does not decide that TL1/TL2 encodings are equal after a JSON round trip for all values.",
         "corpus-bounded for schemas; strconv/easyjson trusted", "DESIGN.md §3 C05"),
 "C06": ("other", "rule table over generated JSON readers and helpers (guards, defaults, mask inference statements, truth tables)",
         "Decides presence and exact shape of each documented acceptance/rejection: unknown key and duplicate key rejected in every struct reader, omitted field given its empty value, masked field implies its (local) mask bit with the bit the writer tests, external mask bit required and explicit false with set bit rejected in types without TL2, TL2 presence bit set by the key, tuple length enforced both ways, unknown union type rejected and every arm selecting its variant, Maybe read through Json2ReadMaybe, and the Json2ReadUnion / Json2ReadMaybe truth tables. Numbers as strings are C34's reader tables. Does not decide that the pieces compose to value equality with the canonical form.",
         "corpus-bounded; easyjson trusted", "DESIGN.md §3 C06"),
 "C07": ("other", "composition-shape rule on the six result transcoders + nat-argument/result-type agreement + C01/C03 rules on the result wrappers",
         "Decides that every ReadResultX+WriteResultY transcoder is exactly read-into-ret (error checked), then write of the same ret from the input buffer to the output buffer with no other effect; that TL1 and JSON result codecs pass identical nat arguments and one result type; that the TL1 result pair is dual and the TL2 result wrapper triple agrees slot by slot.  A JSON context handed to a transcoder must reach its read/write step.Value equality with decode-then-encode is this composition identity, not an executed comparison.",
         "trusts go/types; corpus-bounded", "DESIGN.md §3 C07"),
 "C08": ("other", "dominance (bound-before-use) dataflow over generated readers: allocations, slicings, loops, panics",
         "Decides for every generated reader function (TL1, TL2, JSON, result readers, Builtin collection readers) that every input-sized allocation is dominated by a bound against the remaining input (CheckLengthSanity with a positive minimum size in TL1 — for corpora generated with the option — or len(r) < n → error in TL2), every non-constant slicing is dominated by the matching len/cap guard with facts killed on reassignment, no panic is called, and every loop is a range loop, a counted loop, an incrementing index loop or a lexer loop whose iterations consume a token or leave.  Every non-constant index into a fixed-size array is bounded by the array length (loop bound through a constant / the array length / min(…, const), ranging over the array, or a dominating i == N → return). One genuine defect class is recorded as a known finding (JSON tuple readers allocate nat_n elements up front). basictl's own readers are C33.",
         "corpus-bounded; easyjson trusted; heap use as a number is not decided", "DESIGN.md §3 C08"),
 "C09": ("other", "must-define / no-stale-read dataflow over generated readers and Reset",
         "Decides on every path to a success return of every generated TL1/TL2 reader and Reset that each receiver field (hidden TL2 masks, union index included) is assigned, reset or handed to a sibling reader/Reset; that no condition reads a field before this call defined it; that collection readers re-slice/reallocate/clear the destination first and before any return without error; that the absent-key blocks of JSON struct readers reset their field on every path; that temporaries stored into collections are fresh per iteration. JSON readers are covered by C06's omitted-field rule; error values are not compared.",
         "inductive summary: a sibling reader/Reset defines its operand; corpus-bounded", "DESIGN.md §3 C09"),
 "C10": ("other", "clone isomorphism of string/[]byte twins (generated wire programs and basictl clone pairs) modulo a declared substitution",
         "Decides that each []byte twin has the same TL1/TL2 wire programs, slot tables and nested-call order as its string version modulo the declared substitution, that slice-backed dictionary readers keep what they decode, that the element temporaries of both variants are declared per iteration (decoded values own their storage), and that the basictl clone pairs are AST-isomorphic modulo (utf8.ValidString↔Valid, DecodeRuneInString↔DecodeRune, string(x)↔x).",
         "trusts C33 for primitive pairs; corpus-bounded", "DESIGN.md §3 C10"),
 "C12": ("other", "decision-table agreement between the dynamic interpreter and the generator/generated code (primitive table, presence rule, TL2 slot numbering, object framing)",
         "Does NOT decide byte equality between the interpreter and generated code for all values. Decides that the interpreter's primitive value classes use the basictl primitive pairs the generated code uses for the same Go value types (TL1 and TL2, strings through the same length/padding helpers), that its struct class decides TL1 field presence by the same mask rule in reader and writer, that the TL2 slot numbering ((fieldIndex+1)%8 boundary and bit, bit 0 = variant index) is the same expression in the interpreter's reader, its writer and the generator's template, that the block step of its field loops is taken for every field index (no continue/return before the boundary test), and that its TL2 object reader frames the body like the generated readers.",
         "clause only; arrays, dictionaries and unions of the interpreter are covered only through the shared basictl calls", "DESIGN.md §8.2"),
 "C13": ("other", "framing/typestate rules on every generated TL2 object reader plus decision table of basictl.TL2ParseSize/SkipSizedValue",
         "Decides that each object reader resets on size 0, cuts the body by the declared size after rejecting size > input, reads every field from the body only, returns the post-cut input on every success path without testing the body for leftovers (appended fields are skipped), reads later presence bytes only when bytes remain (else 0) and gives every absent field its empty value; that TL2ParseSize selects its three forms by the first byte and rejects only truncation and >MaxInt (no minimality test) and SkipSizedValue rejects length > input. Value equality between minimal and non-minimal encodings is not decided beyond 'same path after the size is parsed'.",
         "corpus-bounded; unknown union variants are rejected by design", "DESIGN.md §3 C13"),
 "C14": ("translation_validation", "generator run as a compiler over an option matrix; go/types as compile witness; dominance rule on the language entry points (Compile before any write)",
         "Decides that every file emitted for every corpus of the option matrix (schema sets × split-internal, byte versions, TL2, random, RPC, no-sanity and combinations) parses and type-checks together with the runtime packages, that a refused option set leaves no output directory, and — on the generator source — that in each registered language entry point an error-checked Kernel.Compile() precedes the first statement that can reach a file-system mutation and no error-returning step follows the write. Two schemas the generator accepts but for which the output does not type-check are recorded as known findings. Panic-freedom of the kernel on arbitrary schemas is not decided (panic sites are counted as evidence).",
         "matrix-bounded for schemas and options; nothing generated is executed", "DESIGN.md §3 C14"),
 "C15": ("other", "map-order taint classification over the SSA/VTA-reachable generator code + who-may-call rules for clock/random sources and goroutine spawns + sort-dominance on input walking",
         "Decides that every range-over-map reachable from the generators' mains is commutative, collect-then-sort, or a site confirmed by reading (frozen table); that map-order helper results are sorted at each call site; that clock/random/pid sources and goroutine spawns occur only at listed owners; that input files are added in the sorted order of WalkDeterministic. Three genuine deviations are known findings (TLO timestamp, two map-order races in the legacy C++ placement). go/format determinism is trusted.",
         "trusts go/ssa+VTA reachability and the frozen site table (36 sites read by hand, reasons in the checker)", "DESIGN.md §3 C15"),
 "C16": ("other", "who-may-call rule over the SSA/VTA call graph + ordering rules on the two directory writers",
         "Decides that every file-system mutator call site in the generator packages belongs to a confirmed owner, that in both directory writers the marker test precedes every mutation except creating the outdir, that mutated paths are the outdir or filepath.Join(outdir,…), that handled files leave the stale set, unchanged files are not rewritten and remaining stale files are removed. File-system races are not decided.",
         "trusts go/ssa+VTA (x/tools v0.29.0) and os semantics", "DESIGN.md §3 C16"),
 "C17": ("translation_validation", "constant evaluation and cross-check of registry tables against type constants and boxed writers",
         "Cross-checks by constant evaluation, per corpus: meta registration literals ↔ factory registrations ↔ TLName()/TLTag() constants of the constructed Go type ↔ first word written by WriteTL1Boxed; function-ness ⇔ result transcoders exist; HaTL1/HaTL2 ⇔ readers are real, not stubs; names and non-zero tags pairwise distinct; every declaration without type parameters found by an independent scan of the .tl2 schema text is a registry item (also under --split-internal); every item has a factory and vice versa.",
         "programs = corpora; agreement with the schema text is not decided (schema seen only through the generator)", "DESIGN.md §3 C17"),
 "C18": ("other", "call-graph cycle analysis with gate/bracket edge labels over generated FillRandom, pairing and who-may-call rules, decision table of basictl's generator",
         "Decides termination structurally: every recursive component of the FillRandom call graph has an exit — either every cycle has a call switched off by a depth-limited draw (0 at the depth limit) and a depth-bracketed call (bounded by maxDepth), or it is left by fair-coin gates with at most two recursive calls per activation (terminates almost surely); cycles through unconditional calls or arm 0 of a drawn union index are violations; pointer (recursive) fields are allocated before being filled; in basictl IncreaseDepth and DecreaseDepth are exact inverses (a counter saturating on one side only lifts the limit — repaired defect 5d122057); Increase/DecreaseDepth are paired; collections are sized by their nat parameter or a RandomSize draw and masks by RandomFieldMask(constant used bits); FillRandom draws only through the generator (no time/global rand/map iteration); basictl: RandomUint is 0 at the limit, RandomSize/FieldMask derive from it with identity default handlers, IncreaseDepth saturates, maxDepth >= 2. One defect repaired, two recorded as known findings.",
         "corpus-bounded; 'every writer accepts the value' only through C04's presence table", "DESIGN.md §3 C18"),
 "C19": ("other", "typestate-style guard rules on the token iterator + owner tables for panics and token-text slicing",
         "Decides structural necessary conditions of a total TL1 parser: every token consumption outside the iterator's methods is control-dependent on a positive non-eof front-token test on the same iterator (so eof, always appended last by the lexer, is never consumed), expectOrPanic follows checkToken of the same kind, explicit panics and token-text slicing occur only at listed sites, unbounded loops have exits, and error printing slices file content only through safeRange or under a range test. Every index into the lexer input has a guard found on the syntax tree or a verified entry fact of its function, and every advance(n) takes at most the remaining input (recognised bounds or a triaged table with reasons). Lexer byte-level totality and the recombination invariant are value-level and not decided.",
         "clause only; trusts go/types and the listed lexer token shapes", "DESIGN.md §3 C19"),
 "C20": ("other", "typestate-style guard rules on the token iterator for the TL2 combinator parsers",
         "Same rules as C19 on the TL2 parser functions, plus expect*(eof) only as the loop exit of the file parser. The OptionalState progress discipline is covered only as 'unbounded loops have an exit'; termination by token consumption is not decided.",
         "clause only; trusts go/types", "DESIGN.md §3 C20"),
 "C21": ("other", "field-use coverage: type-resolved field writes of the parser vs field reads of the printer family over the call graph",
         "Decides two necessary conditions of the print→parse round trip: every schema-meaning AST field the TL1 parser writes (positions and comments excluded; Arithmetic.Res listed as derived) is read by some function of the String() printer family reachable from Combinator.String; and no node printer emits the text of a field before that of a field the node's parser consumes earlier (token order). Does not decide that the printed text re-parses to the same combinators.",
         "clause only; reachability over-approximates the printer family", "DESIGN.md §3 C21"),
 "C22": ("other", "field-use coverage (parser writes vs formatter reads over the call graph) and parser-step vs emission-order agreement per TL2 AST node",
         "Decides two necessary conditions of the TL2 format→parse round trip: every schema-meaning TL2 AST field the TL2 parser fills is read by a printer reachable from TL2File.Print, and no printer of a node emits the text of a field before that of a field the parser consumes earlier. Does NOT decide that formatted text re-parses to the same declarations, nor idempotence (both depend on line-width driven layout and need execution).",
         "clause only; reachability over-approximates the printer family", "DESIGN.md §8.2"),
 "C25": ("other", "loop-totality rule on Generate2TL, effective-tag rule, field-use coverage of the canonical printer family",
         "Decides that Generate2TL emits exactly one canonicalFormWithTag line per combinator (skipping only nil entries and the five builtin names), that the tag printed after the constructor name is the 8-hex-digit Crc32() (effective tag), that every schema-meaning field written by the parser is read by the canonical printer family, and that a field the ordinary printer of a node consults on every path is consulted on every path by the listing's printers of that node (three genuine deviations are known findings). Does not decide that each line parses back to the same combinator (needs execution); the F2 defect of the canonical form is recorded under C23.",
         "clause only", "DESIGN.md §3 C25"),
 "C23": ("other", "call-graph non-interference between the canonical and the ordinary printer families + dominance rules on tag assignment",
         "Decides that crc32() is ChecksumIEEE over canonicalForm(), that Construct.ID is computed only when no explicit tag was parsed and explicit tags are stored verbatim (base 16), and that nothing reachable from canonicalForm reads layout/comment fields or as-written arithmetic or crosses into the ordinary printer family. One genuine deviation is a known finding (bracket fields). The CRC value and token-level layout of the canonical text are not decided.",
         "trusts go/types and hash/crc32", "DESIGN.md §3 C23"),
 "C24": ("other", "must-pass-through and loop-totality rules on both tag checks",
         "Decides that every success return of Kernel.Compile and of the legacy generator passes an error-checked checkTagCollisions, that both checks inspect every combinator (no early success/break), reject tag 0 for TL1, reject a lookup hit and insert the tag afterwards, and that the TL2 parser rejects explicit magic 0. The check is followed through same-package helpers and all its loops must use one tag table (TL1 and TL2 tags are unique against each other). Implicit TL2 magics are out of scope.",
         "trusts go/types", "DESIGN.md §3 C24"),
 "C26": ("other", "loop-totality and shape rules on GenerateTLO",
         "Does NOT decide that the TLO describes the schema for all schemas, nor decode-back equality (the TL1 duality of the gentlo types is C01). Decides the structural clauses: every constructor unconditionally XORs its tag into its type's name and increments the constructor count (only functions are skipped), a type is created once per name with arity and parameter kinds taken from the declaration, every combinator is listed exactly once with Name = Crc32(), Id = its name and TypeName looked up by type name, and the three counts are list lengths.",
         "clause only; exact-shape rules on one function", "DESIGN.md §8.2"),
 "C28": ("other", "loop-totality, comparer-coverage and rejection-presence rules on the linter source (necessary conditions only)",
         "Decides necessary conditions of linter soundness: checking loops are total over the old schema, the type comparer reads every wire-relevant part of a type reference, each documented unsafe edit has its rejection. The memoised bit-usage traversal merges results of already visited children. It does NOT decide soundness itself (acceptance ⇒ identical encodings for all values), which depends on the value-level bit-usage analysis.",
         "clause only; trusts go/types", "DESIGN.md §3 C28"),
 "C30": ("other", "rejection-presence table + loop-totality (position independence) + comparer coverage on the linter source",
         "Decides that each documented unsafe edit resolves to an error return under its characteristic guard, that no checking loop can be left early (so position of the edit does not matter) and that the type comparer covers name, bare marker, arguments and arithmetic values. In the memoised traversals of the bit-usage analysis a child's result is merged for children visited earlier too. Whether each guard is semantically right for all schema pairs is not decided.",
         "trusts go/types and the transcription of the documented unsafe edits", "DESIGN.md §3 C30"),
 "C33": ("other", "decision-table extraction from basictl source compared with the documented layout and across sibling functions",
         "Decides the layout tables of TL1 strings (arm guards, header sizes, length byte positions/shifts, padding bases, non-minimal and non-zero-padding rejections, residue (-p) mod 4 on both sides), TL2 varlen sizes in Write/Put/Calculate/Parse, fixed-width pairs (little-endian, reader consumes what writer appends), bit vectors (8 per byte, LSB first, partial tail) and that every truncation guard returns io.ErrUnexpectedEOF, for pkg/basictl and the two linked copies. Does not execute a round trip.",
         "trusts the frozen documented tables, encoding/binary, go/types constant folding", "DESIGN.md §3 C33"),
 "C34": ("other", "table extraction of JSON primitive writers and of the generated JSON number/string readers",
         "Decides the writer tables (strconv appenders with matching signedness/base/bit size, NaN/±Inf spellings, UTF-8 test first, base64 StdEncoding envelope, safeSet excludes control bytes, quote and backslash, escape arms, U+2028/9) and the reader tables of the generated Json2Read helpers (ParseInt/ParseUint/ParseFloat with the same signedness and bit size, lexer method for the number form, base64 object as the only object form), plus clone isomorphism of the string/[]byte writers. strconv and the easyjson lexer are trusted; no value is round-tripped.",
         "trusts strconv, encoding/base64, easyjson", "DESIGN.md §3 C34"),
 "C35": ("other", "must-pass-through, offset-table and who-may-read rules on the packet reader/writer",
         "Decides that no success path of the packet body/header readers bypasses the CRC comparison, the sequence-number test, the length-range and alignment tests or the zero-padding test; that the CRC operands are header[:12] then body on both sides with the same table; that header fields sit at the same offsets in writer and reader; that sequence counters are bumped exactly once per packet; that the trailer padding rule equals the reader's; and that the connection's reader is consumed only via io.ReadFull. A reused buffer is resliced only to the capacity that was tested (`if cap(b) < n {make} else {b = b[:n]}` with one n). 'Any corrupted byte is detected' is decided only as this necessary structure, not for the cipher or CRC mathematics.",
         "clause only; trusts hash/crc32, crypto/cipher, io.ReadFull", "DESIGN.md §3 C35"),
 "C36": ("other", "who-may-write + control-dependence on the memory accounting, thread confinement on the VTA call graph, lockset for writeMu state, monotone-writer rule for ack prefixes",
         "Does NOT decide exactly-once delivery (a schedule/fault property). Decides necessary structure: a window slot bound to a partly received message is not overwritten when the window is extended; chunks are acknowledged only when stored; incoming-message memory is increased only under acquired+requested <= limit and decreased only after an underflow guard and followed by waking waiters; the accounting and the goRead/goWrite-local state are touched only by functions reachable from their documented owner goroutine and from no other goroutine root or exported API (the code's own 'no synchronization needed' comment, checked on the call graph); state shared between goroutines is accessed only under writeMu (including through c.incoming.transport.… paths and the conditional lock hand-over of goWriteStep, which is verified as a summary); every write to the three acknowledged-prefix fields is ++ or max(self, …).",
         "clause only; the simulator file fuzz_transport.go is excluded (single-threaded harness)", "DESIGN.md §3 C36"),
 "C37": ("other", "shape rules on the acknowledgement header builders and the range-list linking of AddAckRange",
         "Does NOT decide that the acknowledgement set equals the union of recorded ranges (value-level set arithmetic). Decides the structural clauses: BuildAck writes ackPrefix-1 only when ackPrefix>0, takes from/to from the first node's own bounds and enumerates the ack set from one node's ackFrom to the same node's ackTo (capped), so no number outside a stored range is acknowledged; BuildNegativeAck requests exactly the gaps between the prefix and the ranges; AddAckRange links every new node to its successor and predecessor, merges by min/max of the node's own bounds, carries the lower bound when unlinking an absorbed node and lets the prefix absorb leading ranges.",
         "clause only; exact-shape rules on three small functions (a rewrite of them needs re-triage)", "DESIGN.md §8.2"),
 "C38": ("other", "lockset over client/server connection state (methods + every holder of the type), call-table pairing rules, who-may-write of call identity",
         "Decides the data-race clause for the connection state (every access to the call table, write queues, in-flight counters, status flags with the connection mutex held; Locked helpers called only under the lock) and the structural clauses of 'own response': calls registered under their own atomic-counter id, responses dispatched by the id decoded from their header, finishCall looks up/deletes/delivers the same entry, every delete from the call table delivers or returns the entry on all paths, pending calls are re-queued only while the connection is not closed and Close reaches every connection, and call ids/result channels are written only before registration. A response buffer stored into a call is always reported as taken to the receive loop (one owner). Scheduling, network faults and the race detector's dynamic judgement are not decided.",
         "clause only; closures passed to goroutines are analysed as unlocked code only when they touch guarded fields (none do)", "DESIGN.md §3 C38"),
 "C39": ("other", "who-may-call, control-dependence, lockset and acquire/release pairing rules on the server",
         "Decides that handlers run only from worker.run or the documented inline fallback (guarded by MaxWorkers<=0 or pool exhaustion), that worker goroutines are started only after workerPool.Get admitted one under created<create with mu held, that pool counters are lock-protected, and that request memory is read into only after an error-checked semaphore acquire for the same amount which is released exactly once. Retiring a worker closes its channel and uncounts it exactly once, in the same block, in every function of the package. Numeric behaviour under load is a schedule property and is not decided.",
         "clause only; trusts C42 for the semaphore", "DESIGN.md §3 C39"),
 "C40": ("other", "sibling agreement of hand-inlined header wrappers with the generated codecs, tag-set containment, ordering and who-may-write rules",
         "Decides that each hand-inlined wrapper in preparePacket/ParseInvokeReq/prepareResponseBody/parseResponseExtra has exactly the wire program of the generated type whose tag it uses; every wrapper tag a writer can emit is handled by the opposite reader; the TL2 marker is written last and required last; duplicates are rejected; actor id, extras, query id and error code/description map one-to-one between struct fields and wire; and the only writes to Request.Extra/ActorID, HandlerContext.RequestExtra/ResponseExtra/actorID and Response.Extra inside pkg/rpc are the 14 triaged ones (decode itself, documented timeout min-rule, context injection only when unset, response mask by request flags). The generated Extra codecs themselves are C01's subject.",
         "clause only; documented adjustments (timeout min, response flags masked by request flags) are part of the table, not violations", "DESIGN.md §3 C40"),
 "C41": ("other", "constant agreement, left/right mirror agreement, modify-then-repair path rule, who-may-write, wrap-rule sibling agreement and guard-before-access rules on the container sources",
         "Does NOT decide equivalence with a reference container over histories. Decides necessary structure: a fresh AVL node's height equals updateHeight's value for a childless node; right-hand functions are exact mirror images of the left-hand ones (rotations, double rotations, min/max, the two halves of repairBalance with negated thresholds); rotations recompute the demoted node first; every path of insert/remove/extractMin that reassigns a child returns repairBalance() and Set/Delete store the new root; insert/remove/find use the comparator in the same direction; structure fields have a closed writer set. Ring buffer: one wrap rule in PushBack/IndexRef/Slices/PopFront, range/emptiness panic before every element access, grow-before-write, order-preserving Reserve, zeroing of vacated slots, Swap/DeepAssign cover all struct fields.",
         "clause only; two genuine defects found by these rules were repaired (known_findings.txt)", "DESIGN.md §3 C41"),
 "C42": ("other", "lockset + control-dependence (admission guard) + pairing (wake-up before unlock) rules on the semaphore source",
         "Decides that cur/size/waiters are accessed only with mu held in the property's operations, that every non-forced cur += n is control-dependent on size-cur >= n for the same n (fast paths also on an empty queue), that every capacity-raising statement or waiter removal is followed by notifyWaiters before the unlock, and that notifyWaiters admits from the front with cur+=n, Remove, close together. Liveness under the scheduler and fairness are not decided.",
         "clause only; trusts sync.Mutex and container/list", "DESIGN.md §3 C42"),
 "C43": ("other", "who-may-write rule inside each accessor + agreement with the presence table of readers/writers",
         "Decides for every generated SetF/ClearF/IsSetF that it assigns/resets exactly F, sets/clears/tests exactly the presence bits that readers and writers use for F (TL1 mask bit incl. external mask pointer, TL2 presence bit), touches no other field or bit, and that no TL2 presence bit is owned by two fields; union variant accessors agree on the variant index and value field with the TL1 reader.",
         "for true-type bit fields (no struct field) the tie name↔bit is checked only as a mirror pair known to the readers plus uniqueness; corpus-bounded", "DESIGN.md §3 C43"),
}

NOT_APPLICABLE = {
 "C11": "the property is agreement with an independent reference codec executed on values; its structural parts (layout tables, reader/writer duality) are decided under C33/C01/C03",
 "C27": "relates two generations of code from two schemas over all values; needs the kernel's semantics as oracle",
 "C29": "acceptance is the absence of every rejection on concrete schema pairs; a syntactic rule was considered and rejected as brittle",
 "C31": "cross-language execution agreement; no type-resolved C++ front end for the generated templates in this sandbox",
 "C32": "cross-language execution agreement; no PHP parser or interpreter in this sandbox",
}

NOT_BUILT = "check not built yet in this round (planned in DESIGN.md §3); not claimed until it is built and self-tested"

def main():
    props = [json.loads(l)["id"] for l in open(os.path.join(HERE, "properties.jsonl"))]
    checks = []
    for pid in props:
        if pid not in CLAIMED:
            continue
        cat, tech, text, note, ref = CLAIMED[pid]
        checks.append({
            "property_id": pid,
            "quick_cmd": f"bin/tlverif check {pid} --tier quick",
            "thorough_cmd": f"bin/tlverif check {pid} --tier thorough",
            "evidence_file": f"/verif/evidence/{pid}.json",
            "replay_cmd_template": "bin/tlverif explain {path}",
            "engine": "tlverif",
            "level_claimed": {"category": cat, "text": text, "design_ref": ref},
            "level_note": note,
            "technique": tech,
        })
    na = []
    for pid in props:
        if pid in CLAIMED:
            continue
        na.append({"property_id": pid, "reason": NOT_APPLICABLE.get(pid, NOT_BUILT)})
    m = {
        "version": 1,
        "setup_cmd": "./setup.sh",
        "hooks": {
            "guard": "verif",
            "enable": "no source hooks are needed: every check analyses /repo's working tree as is (go/packages + tl2gen built from the tree)",
            "baseline_off_cmd": "cd /repo && GOFLAGS=-mod=mod GOPROXY=off go test -vet=off -count=1 -timeout 25m ./...",
            "source_commits": [],
            "add_only": True,
        },
        "engines": [{"name": "tlverif", "path": "/verif/tlverif", "serves_properties": sorted(CLAIMED),
                     "kind_free_text": "Go static analyser (go/packages, go/types, go/ast, go/cfg, go/ssa+VTA) over /repo and over Go code emitted by the working tree's tl2gen"}],
        "checks": checks,
        "not_applicable": na,
        "notes": "All checks are static analyses; see DESIGN.md. known_findings.txt lists genuine defects recorded rather than repaired.",
    }
    json.dump(m, open(os.path.join(HERE, "MANIFEST.json"), "w"), indent=1)
    print(f"claimed={len(checks)} not_applicable={len(na)}")

if __name__ == "__main__":
    main()
