#!/usr/bin/env python3
"""Writes /verif/MANIFEST.json from the tables below (single source of truth for what is claimed)."""
import json, os, sys

HERE = os.path.dirname(os.path.abspath(__file__))

# id -> (category, technique, text, note, design_ref)
CLAIMED = {
 "C01": ("other", "reader/writer wire-program duality over type-checked AST of regenerated code",
         "Decides, for every generated type of every corpus regenerated from the working tree (and the checked-in generated packages), that the TL1 reader's wire program is the dual of the writer's (same primitives, operands, mask-bit guards, nat arguments, counted loops, union tag tables), that nat-sized arrays have a failing length guard in the writer and that no nested writer error is dropped. All values/paths are covered; schemas only for the corpora.",
         "trusts go/types, the basictl primitive duality table (C33) and that tl2gen run as a compiler reflects the generator; corpus-bounded for the schema quantifier", "DESIGN.md §3 C01"),
}

NOT_APPLICABLE = {
 "C11": "the property is agreement with an independent reference codec executed on values; its structural parts (layout tables, reader/writer duality) are decided under C33/C01/C03",
 "C12": "the dynamic interpreter is data-driven (loops over kernel fields at run time); there is no per-type code whose shape could be compared, and byte equality over all values needs execution",
 "C22": "print∘parse round trip and idempotence of a line-width-driven formatter are value-level; no structural necessary condition that would distinguish idempotence",
 "C26": "XOR-of-tags names, arities and decode-back equality of the TLO bytes are value-level",
 "C27": "relates two generations of code from two schemas over all values; needs the kernel's semantics as oracle",
 "C29": "acceptance is the absence of every rejection on concrete schema pairs; a syntactic rule was considered and rejected as brittle",
 "C31": "cross-language execution agreement; no type-resolved C++ front end for the generated templates in this sandbox",
 "C32": "cross-language execution agreement; no PHP parser or interpreter in this sandbox",
 "C37": "set arithmetic on uint32 ranges (+1, min, max): truth is in values, not in the shape of the code",
}

NOT_BUILT = "check not built yet in this round (planned in DESIGN.md §3); not claimed until it is built and self-tested"

def main():
    props = [json.loads(l)["id"] for l in open(os.path.join(HERE, "properties.jsonl"))]
    checks = []
    for pid in props:
        if pid not in CLAIMED:
            continue
        cat, tech, text, note, ref = CLAIMED[pid]
        checks.append({
            "property_id": pid,
            "quick_cmd": f"bin/tlverif check {pid} --tier quick",
            "thorough_cmd": f"bin/tlverif check {pid} --tier thorough",
            "evidence_file": f"/verif/evidence/{pid}.json",
            "replay_cmd_template": "bin/tlverif explain {path}",
            "engine": "tlverif",
            "level_claimed": {"category": cat, "text": text, "design_ref": ref},
            "level_note": note,
            "technique": tech,
        })
    na = []
    for pid in props:
        if pid in CLAIMED:
            continue
        na.append({"property_id": pid, "reason": NOT_APPLICABLE.get(pid, NOT_BUILT)})
    m = {
        "version": 1,
        "setup_cmd": "./setup.sh",
        "hooks": {
            "guard": "verif",
            "enable": "no source hooks are needed: every check analyses /repo's working tree as is (go/packages + tl2gen built from the tree)",
            "baseline_off_cmd": "cd /repo && GOFLAGS=-mod=mod GOPROXY=off go test -vet=off -count=1 -timeout 25m ./...",
            "source_commits": [],
            "add_only": True,
        },
        "engines": [{"name": "tlverif", "path": "/verif/tlverif", "serves_properties": sorted(CLAIMED),
                     "kind_free_text": "Go static analyser (go/packages, go/types, go/ast, go/cfg, go/ssa+VTA) over /repo and over Go code emitted by the working tree's tl2gen"}],
        "checks": checks,
        "not_applicable": na,
        "notes": "All checks are static analyses; see DESIGN.md. known_findings.txt lists genuine defects recorded rather than repaired.",
    }
    json.dump(m, open(os.path.join(HERE, "MANIFEST.json"), "w"), indent=1)
    print(f"claimed={len(checks)} not_applicable={len(na)}")

if __name__ == "__main__":
    main()
