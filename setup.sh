#!/bin/bash
# Builds the checker from files on disk only (offline) and warms the go build cache for /repo.
set -e
cd "$(dirname "$0")/tlverif"
export GOFLAGS=-mod=mod GOPROXY=off GOWORK=off GOTOOLCHAIN=auto
unset GOSUMDB
mkdir -p ../bin
go build -o ../bin/tlverif .
# warm: build the generator once so that every check's rebuild is incremental
(cd /repo && go build -o /dev/null ./cmd/tl2gen ./cmd/tlgen) || true
echo "setup ok"
