#!/usr/bin/env python3-vt
import json, jsonschema, glob, sys
m=json.load(open('/verif/MANIFEST.json')); s=json.load(open('/root/.vp/MANIFEST.schema.json'))
jsonschema.validate(m,s); print("manifest valid; claimed", len(m['checks']))
es=json.load(open('/root/.vp/EVIDENCE.schema.json'))
for c in m['checks']:
    try:
        e=json.load(open(c['evidence_file'])); jsonschema.validate(e,es)
        assert e['level']==c['level_claimed']['category'], (e['level'], c['level_claimed']['category'])
        print(" ", c['property_id'], "evidence valid", e['tier'], e['coverage'].get('obligations'), e['violations'])
    except Exception as ex:
        print(" ", c['property_id'], "EVIDENCE PROBLEM", str(ex)[:200])
