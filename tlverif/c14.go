package main

import (
	"fmt"
	"go/token"
	"os"
	"path/filepath"
	"sort"
	"strings"
	"sync"

	"golang.org/x/tools/go/packages"
	"golang.org/x/tools/go/ssa"
	"golang.org/x/tools/go/ssa/ssautil"
)

func init() { register("C14", checkC14) }

// optionMatrix: option sets applied to each matrix schema set (quick: a diagonal, thorough: the product).
func c14Matrix(tier string) []CorpusSpec {
	cases := []string{tlsDir + "cases.tl"}
	gm := []string{tlsDir + "goldmaster.tl", tlsDir + "goldmaster2.tl", tlsDir + "goldmaster3.tl"}
	feat := []string{filepath.Join(verifDir, "schemas", "features.tl")}
	feat2 := []string{filepath.Join(verifDir, "schemas", "features2.tl2")}
	type opt struct {
		name  string
		flags []string
	}
	opts := []opt{
		{"plain", nil},
		{"split", []string{"--split-internal"}},
		{"bytesAll", []string{"--generateByteVersions=*"}},
		{"tl2", []string{"--tl2WhiteList=*"}},
		{"random", []string{"--generateRandomCode"}},
		{"rpc", []string{"--generateRPCCode"}},
		{"noSanity", []string{"--checkLengthSanity=false"}},
		{"all", []string{"--split-internal", "--generateByteVersions=*", "--tl2WhiteList=*", "--generateRandomCode", "--generateRPCCode"}},
		{"allNoSplit", []string{"--generateByteVersions=*", "--tl2WhiteList=*", "--generateRandomCode", "--generateRPCCode"}},
		{"tl2Random", []string{"--tl2WhiteList=*", "--generateRandomCode"}},
		{"bytesRpcSplit", []string{"--split-internal", "--generateByteVersions=*", "--generateRPCCode"}},
	}
	schemas := []struct {
		name  string
		files []string
		quick map[string]bool
	}{
		{"cases", cases, map[string]bool{"plain": true, "split": true, "all": true, "allNoSplit": true, "tl2Random": true}},
		{"feat", feat, map[string]bool{"plain": true, "all": true, "allNoSplit": true, "bytesRpcSplit": true}},
		{"feat2", feat2, map[string]bool{"all": true, "allNoSplit": true, "tl2Random": true}},
		{"gm", gm, map[string]bool{}},
		{"rpc", []string{"pkg/rpc/rpc.tl"}, map[string]bool{"all": true}},
		{"casestl2", []string{tlsDir + "cases.tl2"}, map[string]bool{"allNoSplit": true, "all": true}},
	}
	var out []CorpusSpec
	for _, s := range schemas {
		for _, o := range opts {
			if tier != "thorough" && !s.quick[o.name] {
				continue
			}
			tl2Schema := strings.HasSuffix(s.files[0], ".tl2")
			hasTL2 := false
			for _, f := range o.flags {
				if strings.HasPrefix(f, "--tl2WhiteList") {
					hasTL2 = true
				}
			}
			if tl2Schema && !hasTL2 {
				continue
			}
			out = append(out, CorpusSpec{Name: "m_" + s.name + "_" + o.name, Schemas: s.files, Flags: o.flags})
		}
	}
	return out
}

func checkC14(c *Check) {
	c.Level = "translation_validation"
	c.Explanation = "Generated code builds — translation validation: tl2gen is built from the working tree and run as a compiler over an option matrix (schema sets × {split-internal, byte versions, TL2, random code, RPC code, no length sanity, combinations}); every emitted file of every corpus must parse and type-check with go/types together with pkg/basictl and pkg/rpc (no linking, nothing executed); an option set the generator refuses must refuse with a message and leave no output directory. Schemas under schemas/c14_findings are accepted by the generator but produce code that does not type-check (recorded known findings). Write ordering, decided on the generator source: in every language entry point registered in cmd/tl2gen the first statement that can reach a file-system mutation (SSA call graph) comes after an error-checked Kernel.Compile(), so a schema the kernel rejects is reported and nothing is written; after the writing call no further error-checked step follows. The generator's explicit panic sites are enumerated as evidence (not decided: their guards are value-level)."
	c.NotCovered = "panic-freedom of the kernel on arbitrary schemas; schemas outside the matrix; gofmt failure path of formatLint (writes the unformatted file and continues: reported as evidence)"
	c.Trusted = []string{"go/types as the compile witness", "tl2gen executed as a compiler only"}
	ws, err := newWorkspace()
	if err != nil {
		c.Undecided("workspace", "tmp", "", err.Error())
		return
	}
	defer ws.Close()
	if err := ws.buildGenerator(); err != nil {
		c.Undecided("codegen/generator-builds", "cmd/tl2gen", "", err.Error())
		return
	}
	if err := ws.initGenModule(); err != nil {
		c.Undecided("workspace", "go.mod", "", err.Error())
		return
	}
	specs := c14Matrix(c.Tier)
	// finding schemas: one corpus each
	var findingSpecs []CorpusSpec
	fs, _ := filepath.Glob(filepath.Join(verifDir, "schemas", "c14_findings", "*.tl*"))
	// schemas of repaired defects: each must now be refused cleanly or compile (no entry in known_findings.txt)
	rs, _ := filepath.Glob(filepath.Join(verifDir, "schemas", "c14_regressions", "*.tl*"))
	fs = append(fs, rs...)
	sort.Strings(fs)
	for _, f := range fs {
		base := strings.NewReplacer(".", "_").Replace(filepath.Base(f))
		flags := []string{"--tl2WhiteList=*", "--generateRandomCode"}
		// a schema may name the generator options it needs in its first line: `// tlverif-flags: …`
		if src, err := os.ReadFile(f); err == nil {
			first, _, _ := strings.Cut(string(src), "\n")
			if rest, ok := strings.CutPrefix(first, "// tlverif-flags:"); ok {
				flags = strings.Fields(rest)
			}
		}
		findingSpecs = append(findingSpecs, CorpusSpec{Name: "f_" + base, Schemas: []string{f}, Flags: flags})
	}
	all := append(append([]CorpusSpec{}, specs...), findingSpecs...)
	type res struct {
		out string
		err error
	}
	results := make([]res, len(all))
	var wg sync.WaitGroup
	sem := make(chan struct{}, 8)
	for i := range all {
		wg.Add(1)
		go func(i int) {
			defer wg.Done()
			sem <- struct{}{}
			defer func() { <-sem }()
			o, e := ws.generate(all[i])
			results[i] = res{o, e}
		}(i)
	}
	wg.Wait()
	files := 0
	// one load for every corpus; errors are attributed to the corpus by package path
	fsetAll := token.NewFileSet()
	cfg := &packages.Config{Mode: loadMode, Dir: ws.GenRoot, Env: goEnv(), Fset: fsetAll}
	pkgsAll, lerr := packages.Load(cfg, "./...")
	if lerr != nil {
		c.Undecided("codegen/output-type-checks", "load", "", lerr.Error())
		return
	}
	byCorpus := map[string][]*packages.Package{}
	for _, pk := range pkgsAll {
		parts := strings.SplitN(strings.TrimPrefix(pk.PkgPath, "vgen/"), "/", 2)
		byCorpus[parts[0]] = append(byCorpus[parts[0]], pk)
	}
	for i, sp := range all {
		isFinding := i >= len(specs)
		construct := sp.Name + " [" + strings.Join(sp.Flags, " ") + "]"
		if isFinding {
			construct = "schemas/" + filepath.Base(filepath.Dir(sp.Schemas[0])) + "/" + filepath.Base(sp.Schemas[0])
		}
		dir := filepath.Join(ws.GenRoot, sp.Name)
		if results[i].err != nil {
			// refused: must carry a message and leave nothing behind
			_, statErr := os.Stat(dir)
			msg := lastLines(results[i].out, 3)
			c.Ob("codegen/refusal-is-clean", construct, os.IsNotExist(statErr) && strings.Contains(results[i].out, "TL Generation Failed") && len(msg) > 0, "", "generator refused: "+msg+"; output directory absent="+fmt.Sprint(os.IsNotExist(statErr)))
			continue
		}
		pkgs := byCorpus[sp.Name]
		n := 0
		var errs []string
		for _, pk := range pkgs {
			n += len(pk.CompiledGoFiles)
			for _, e := range pk.Errors {
				errs = append(errs, strings.ReplaceAll(e.Error(), ws.GenRoot+"/", ""))
			}
		}
		files += n
		detail := fmt.Sprintf("%d packages, %d files type-check", len(pkgs), n)
		if len(errs) > 0 {
			sort.Strings(errs)
			if len(errs) > 3 {
				errs = append(errs[:3], fmt.Sprintf("… %d more", len(errs)-3))
			}
			detail = "accepted by the generator, but the emitted code does not type-check: " + strings.Join(errs, " | ")
		}
		c.Ob("codegen/output-type-checks", construct, len(errs) == 0 && n > 0, relPos(dir), detail)
	}
	c.Set("matrix_corpora", len(specs))
	c.Set("files_type_checked", files)
	c.Floor("codegen/output-type-checks", 10)

	// ---- write ordering on the generator source
	p := loadProgram(c, "./cmd/tl2gen", "./internal/pure/...", "./internal/puregen/...", "./internal/tlast/...", "./internal/utils/...")
	if p == nil {
		return
	}
	mut := map[*ssa.Function]bool{}
	for _, s := range p.sitesCalling(fsMutators) {
		mut[s.Caller] = true
	}
	reachesFS := func(f *ssa.Function) bool {
		for g := range p.reachable(f) {
			if mut[g] {
				return true
			}
		}
		return false
	}
	r := loadRepoFuncs(c, "./cmd/tl2gen", "./internal/puregen/...")
	if r == nil {
		return
	}
	entries := []string{"internal/puregen/gengo.Generate", "internal/puregen/genphp.Generate", "internal/puregen/gencanonical.Generate", "internal/puregen/gentljsonhtml.Generate", "internal/puregen/gentlo.Generate", "internal/puregen/genrust.Generate"}
	for _, name := range entries {
		ir := r.ir(name)
		if ir == nil {
			continue
		}
		iCompile, iWrite, lateChecked := -1, -1, ""
		for i, n := range ir.Body {
			cn, ok := n.(*CallN)
			if !ok {
				// a nested statement that can write counts as the write point too
				if iWrite < 0 {
					txtReach := false
					walkBlock(Block{n}, nil, func(m Node, _ []Guard) {
						if c2, ok := m.(*CallN); ok && c2.Fn != nil {
							if f := p.funcOf(c2.Fn); f != nil && (mut[f] || reachesFS(f)) {
								txtReach = true
							}
							if fsMutators[qualTypesName(c2)] {
								txtReach = true
							}
						}
					})
					if txtReach {
						iWrite = i
					}
				}
				continue
			}
			if cn.Fn != nil && cn.Fn.Name() == "Compile" && strings.HasSuffix(cn.Recv, "") && cn.ErrChecked && iCompile < 0 {
				iCompile = i
			}
			if cn.Fn != nil {
				f := p.funcOf(cn.Fn)
				if iWrite < 0 && (fsMutators[qualTypesName(cn)] || f != nil && (mut[f] || reachesFS(f))) {
					iWrite = i
				} else if iWrite >= 0 && i > iWrite && cn.ErrChecked && f != nil && !reachesFS(f) {
					lateChecked = cn.Fn.Name()
				}
			}
		}
		c.Ob("codegen/compile-before-any-write", name, iCompile >= 0 && (iWrite < 0 || iWrite > iCompile), r.pos(ir.Info.Decl.Pos()), fmt.Sprintf("error-checked Kernel.Compile() is statement %d; first statement that can reach a file-system mutation is statement %d", iCompile, iWrite))
		c.Ob("codegen/no-failure-after-writing-started", name, lateChecked == "", r.pos(ir.Info.Decl.Pos()), "after the writing step no other error-returning step runs: "+orStr(lateChecked, "ok"))
	}
	c.Floor("codegen/compile-before-any-write", 5)
	// panic sites as evidence
	panics := 0
	for fn := range ssautil.AllFunctions(p.Prog) {
		if fn.Pkg == nil || !strings.HasPrefix(fn.Pkg.Pkg.Path(), "github.com/VKCOM/tl/") {
			continue
		}
		for _, b := range fn.Blocks {
			for _, in := range b.Instrs {
				if _, ok := in.(*ssa.Panic); ok {
					panics++
				}
			}
		}
	}
	c.Set("explicit_panic_sites_in_generator", panics)
	c.Info("explicit panic sites in the generator packages (evidence, not decided): %d", panics)
}

func lastLines(s string, n int) string {
	ls := strings.Split(strings.TrimSpace(s), "\n")
	if len(ls) > n {
		ls = ls[len(ls)-n:]
	}
	return strings.Join(ls, " | ")
}

func firstLines(s string, n int) string {
	ls := strings.Split(strings.TrimSpace(s), "\n")
	if len(ls) > n {
		ls = ls[:n]
	}
	return strings.Join(ls, " | ")
}

func qualTypesName(cn *CallN) string {
	if cn.Fn == nil || cn.Fn.Pkg() == nil {
		return ""
	}
	return cn.Fn.Pkg().Path() + "." + cn.Fn.Name()
}
