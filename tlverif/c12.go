package main

import (
	"fmt"
	"go/ast"
	"go/constant"
	"go/token"
	"go/types"
	"path/filepath"
	"regexp"
	"strings"
)

func init() { register("C12", checkC12) }

// c12Prims: interpreter value class → (TL1 reader, TL1 writer, TL2 reader, TL2 writer). "-" = not representable
// (the class refuses with an error/panic), "raw1" = a single raw byte.
var c12Prims = map[string][4]string{
	"KernelValueUint32": {"NatRead", "NatWrite", "NatRead", "NatWrite"},
	"KernelValueInt32":  {"IntRead", "IntWrite", "IntRead", "IntWrite"},
	"KernelValueInt64":  {"LongRead", "LongWrite", "LongRead", "LongWrite"},
	"KernelValueUint64": {"Uint64Read", "-", "Uint64Read", "Uint64Write"},
	"KernelValueString": {"StringRead", "ByteBuilder.WriteStringTL1", "StringReadTL2", "ByteBuilder.WriteStringTL2"},
}

func checkC12(c *Check) {
	c.Explanation = "Dynamic interpreter vs generated code — agreement of decision tables between the two implementations of the same formats (byte equality for all values needs execution and is not decided): (1) every primitive value class of internal/pure/onthefly reads and writes through the basictl primitive pair that the generated code uses for the same Go value type (NatRead/NatWrite for uint32, …; strings through StringRead / StringWriteLen+bytes+StringWritePadding and StringReadTL2 / TL2WriteSize+bytes), in TL1 and TL2; (2) the struct class decides TL1 field presence by the same rule as generated code — present iff there is no field mask or mask & (1 << bit) != 0 — identically in its reader and writer; (3) the TL2 slot numbering — block boundary at (fieldIndex+1)%8 == 0, presence bit 1 << ((fieldIndex+1)%8), bit 0 of block 0 = variant index — is the same expression in the interpreter's reader, its writer and the generator's template code; (4) the interpreter's TL2 object reader frames the body like the generated readers (size first, size > input rejected, zero size resets, body cut, block byte, variant index). (7) every TL2ElementCountError return of an interpreter ReadTL2 is guarded by the strict comparison of the generated readers: announced count (bits: count/8) greater than the remaining body bytes."
	c.NotCovered = "arrays, dictionaries, unions and bit arrays of the interpreter beyond the shared basictl calls; JSON; equality of bytes for every value"
	c.Trusted = []string{"go/types", "C33 for the primitives, C03/C13 for the generated readers"}
	r := loadRepoFuncs(c, "./internal/pure/onthefly")
	if r == nil {
		return
	}
	P := "internal/pure/onthefly."
	callsOf := func(fn string) []string {
		ir := r.ir(P + fn)
		if ir == nil {
			return nil
		}
		var out []string
		walkBlock(ir.Body, nil, func(n Node, _ []Guard) {
			cn, ok := n.(*CallN)
			if !ok {
				return
			}
			if cn.Builtin == "panic" {
				out = append(out, "-")
				return
			}
			if cn.Fn == nil {
				return
			}
			if isBasictl(cn.Fn.Pkg()) {
				out = append(out, cn.Fn.Name())
			} else if strings.HasPrefix(funcDisplayName(cn.Fn), "ByteBuilder.Write") {
				out = append(out, funcDisplayName(cn.Fn))
			}
		})
		if len(out) == 0 && strings.Contains(irText(ir), "errors.New(") {
			out = append(out, "-")
		}
		return out
	}
	for cls, want := range c12Prims {
		for i, role := range []string{"ReadTL1", "WriteTL1", "ReadTL2", "WriteTL2"} {
			got := callsOf(cls + "." + role)
			ok := len(got) >= 1 && got[0] == want[i]
			c.Ob("interp/primitive-table", cls+"."+role, ok, "", fmt.Sprintf("uses %v; generated code uses basictl.%s for this Go value type", got, want[i]))
		}
	}
	if ir := r.ir(P + "ByteBuilder.WriteStringTL1"); ir != nil {
		t := irText(ir)
		ok := strings.Contains(t, "call basictl.StringWriteLen recv=(item.buf, len(val)) -> [item.buf $]") && strings.Contains(t, "call append recv=(item.buf, val) -> [item.buf]") && strings.Contains(t, "call basictl.StringWritePadding recv=(item.buf, $) -> [item.buf]")
		i1, i2, i3 := strings.Index(t, "StringWriteLen"), strings.Index(t, "call append recv=(item.buf, val)"), strings.Index(t, "StringWritePadding")
		c.Ob("interp/primitive-table", "ByteBuilder.WriteStringTL1", ok && i1 < i2 && i2 < i3, r.pos(ir.Info.Decl.Pos()), "length header, bytes, padding computed by StringWriteLen — the sequence of basictl.StringWrite")
	}
	if ir := r.ir(P + "ByteBuilder.WriteStringTL2"); ir != nil {
		t := irText(ir)
		i1, i2 := strings.Index(t, "call basictl.TL2WriteSize recv=(item.buf, len(val)) -> [item.buf]"), strings.Index(t, "call append recv=(item.buf, val) -> [item.buf]")
		c.Ob("interp/primitive-table", "ByteBuilder.WriteStringTL2", i1 >= 0 && i2 > i1, r.pos(ir.Info.Decl.Pos()), "TL2 size then bytes")
	}
	// (2) TL1 presence rule
	presence := "assign $ := true\nif ($.FieldMask() != nil)\nassign $ = ((item.formatNatArg($, $.FieldMask()) & (#1 << $.BitNumber())) != #0)\nif !$\ncontinue\n"
	for _, role := range []string{"ReadTL1", "WriteTL1"} {
		if ir := r.ir(P + "KernelValueStruct." + role); ir != nil {
			c.Ob("interp/tl1-field-presence-rule", "KernelValueStruct."+role, strings.Contains(flatText(irText(ir)), presence), r.pos(ir.Info.Decl.Pos()), "present iff no field mask or mask & (1 << bit) != 0; absent fields are skipped")
		}
	}
	// (3) slot numbering
	slotBit, slotBoundary := "(#1 << ((* + #1) % #8))", "if !nz(((* + #1) % #8))"
	for _, fn := range []string{"KernelValueStruct.ReadFieldsTL2", "KernelValueStruct.WriteTL2"} {
		if ir := r.ir(P + fn); ir != nil {
			t := irText(ir)
			c.Ob("interp/tl2-slot-numbering", fn, strings.Contains(t, slotBit) && strings.Contains(t, slotBoundary), r.pos(ir.Info.Decl.Pos()), "presence bit "+slotBit+" and a new block byte when "+slotBoundary)
		}
	}
	// (3b) the block step is taken for every field index: nothing leaves the iteration before the boundary test
	// (the generated code starts the next block byte even when the boundary field itself is omitted or absent)
	for _, fn := range []string{"KernelValueStruct.ReadFieldsTL2", "KernelValueStruct.WriteTL2"} {
		ir := r.ir(P + fn)
		if ir == nil {
			continue
		}
		found, early := false, ""
		walkBlock(ir.Body, nil, func(n Node, _ []Guard) {
			l, ok := n.(*LoopN)
			if !ok || found {
				return
			}
			for i, st := range l.Body {
				in, isIf := st.(*IfN)
				if !isIf || in.Cond.String() != "!nz(((* + #1) % #8))" {
					continue
				}
				found = true
				walkBlock(l.Body[:i], nil, func(x Node, _ []Guard) {
					switch x := x.(type) {
					case *BranchN:
						early = x.Tok.String()
					case *ReturnN:
						early = "return"
					}
				})
			}
		})
		c.Ob("interp/tl2-block-step-for-every-field", fn, found && early == "", r.pos(ir.Info.Decl.Pos()), fmt.Sprintf("the boundary test `(i+1)%%8 == 0` is a top-level statement of the field loop (%v) and no continue/break/return precedes it in the iteration (%q)", found, early))
	}
	// (3c) the nat-argument stack is threaded through element calls (each returns it as its last field left it): inside
	// a loop it is rebuilt from the frame's own arguments in every iteration before the element call, as the generated
	// code passes the same nat arguments to every element
	threaded := 0
	for _, name := range sortedKeys(r.funcs) {
		fi := r.funcs[name]
		if !strings.HasPrefix(name, P) || fi.Decl.Body == nil || (fi.Obj.Name() != "ReadTL1" && fi.Obj.Name() != "WriteTL1") {
			continue
		}
		ir := buildFuncIR(fi, r.co.allFuncs(), r.co.Fset)
		walkBlock(ir.Body, nil, func(n Node, _ []Guard) {
			lp, ok := n.(*LoopN)
			if !ok {
				return
			}
			for i, st := range lp.Body {
				cn, ok := st.(*CallN)
				if !ok {
					continue
				}
				callee := cn.Builtin // "dyn:x.elements[*].ReadTL1" for calls through the value interface
				if cn.Fn != nil {
					callee = cn.Fn.Name()
				}
				if !strings.HasSuffix(callee, "ReadTL1") && !strings.HasSuffix(callee, "WriteTL1") {
					continue
				}
				for _, x := range cn.Args {
					if !containsStr(cn.Results, x) || x == "buf" {
						continue
					}
					if t, isSlice := typeOfCanon(ir, x).(*types.Slice); !isSlice || !isUint32(t.Elem()) {
						continue
					}
					threaded++
					rebuilt := false
					for _, prev := range lp.Body[:i] {
						if pc, ok := prev.(*CallN); ok && pc.Fn != nil && pc.Fn.Name() == "formatNatArgs" && len(pc.Results) == 1 && pc.Results[0] == x {
							rebuilt = true
						}
					}
					c.Ob("interp/nat-arguments-rebuilt-per-element", fi.Name()+"/"+x, rebuilt, r.pos(cn.Pos), "the nat-argument stack handed to an element call inside a loop is rebuilt by formatNatArgs earlier in the same iteration")
				}
			}
		})
	}
	// (7) element-count sanity: the interpreter rejects a TL2 collection exactly when the generated reader does —
	// announced count (bits: count/8) STRICTLY greater than the remaining body bytes (qt_brackets/qt_dict: `elementCount > len(currentR)`)
	ecGuard := regexp.MustCompile(`if ([^\n]*)\n\s+return buf, basictl\.TL2ElementCountError\(`)
	ecStrict := regexp.MustCompile(`\(len\(\$\) < (\$|\(\$ / #8\))\)`)
	for _, name := range sortedKeys(r.funcs) {
		fi := r.funcs[name]
		if !strings.HasPrefix(name, P) || fi.Decl.Body == nil || fi.Obj.Name() != "ReadTL2" {
			continue
		}
		t := irText(buildFuncIR(fi, r.co.allFuncs(), r.co.Fset))
		for _, m := range ecGuard.FindAllStringSubmatch(t, -1) {
			c.Ob("interp/tl2-element-count-guard-strict", strings.TrimPrefix(name, P), ecStrict.MatchString(m[1]) && !strings.Contains(m[1], "<="), r.pos(fi.Decl.Pos()), "TL2ElementCountError is returned under `"+m[1]+"`: strictly more elements than remaining bytes, as in the generated readers")
		}
	}
	c.Floor("interp/tl2-element-count-guard-strict", 3)
	c.Floor("interp/nat-arguments-rebuilt-per-element", 6)
	_ = threaded
	// the generator's struct template computes slots the same way: every `% 8` expression in it is `(e + 1) % 8`, used
	// either as a shift count of the constant 1 or compared with 0 (type-checked syntax tree; names are irrelevant)
	if rg := loadRepoFuncs(c, "./internal/puregen/gengo"); rg != nil {
		bits, bounds, other := 0, 0, 0
		for name, fi := range rg.funcs {
			if !strings.HasPrefix(name, "internal/puregen/gengo.") || fi.Decl.Body == nil || filepath.Base(rg.co.Fset.Position(fi.Decl.Pos()).Filename) != "qt_struct.qtpl.go" {
				continue
			}
			info := fi.Pkg.TypesInfo
			isConst := func(e ast.Expr, v int64) bool {
				tv, ok := info.Types[e]
				if !ok || tv.Value == nil {
					return false
				}
				x, exact := constant.Int64Val(constant.ToInt(tv.Value))
				return exact && x == v
			}
			var stack []ast.Node
			ast.Inspect(fi.Decl.Body, func(n ast.Node) bool {
				if n == nil {
					stack = stack[:len(stack)-1]
					return true
				}
				stack = append(stack, n)
				be, ok := n.(*ast.BinaryExpr)
				if !ok || be.Op != token.REM || !isConst(be.Y, 8) {
					return true
				}
				plus1 := false
				if in, ok := ast.Unparen(be.X).(*ast.BinaryExpr); ok && in.Op == token.ADD && (isConst(in.Y, 1) || isConst(in.X, 1)) {
					plus1 = true
				}
				// nearest non-paren ancestor
				var parent ast.Node
				for i := len(stack) - 2; i >= 0; i-- {
					if _, isP := stack[i].(*ast.ParenExpr); !isP {
						parent = stack[i]
						break
					}
				}
				pb, _ := parent.(*ast.BinaryExpr)
				switch {
				case plus1 && pb != nil && pb.Op == token.SHL && isConst(pb.X, 1):
					bits++
				case plus1 && pb != nil && pb.Op == token.EQL && isConst(pb.Y, 0):
					bounds++
				default:
					other++
				}
				return true
			})
		}
		c.Ob("interp/tl2-slot-numbering", "generator template qt_struct", bits >= 3 && bounds >= 3 && other == 0, "internal/puregen/gengo/qt_struct.qtpl.go", fmt.Sprintf("the generator computes slots with 1 << ((i+1)%%8) (%d sites) and (i+1)%%8 == 0 (%d sites); other modulo-8 expressions: %d", bits, bounds, other))
	}
	if ir := r.ir(P + "KernelValueStruct.WriteTL2"); ir != nil {
		t := flatText(irText(ir))
		c.Ob("interp/tl2-variant-index-slot", "KernelValueStruct.WriteTL2", strings.Contains(t, "if and(item.instance.IsUnionElement(),nz(item.instance.UnionIndex()))\ncall ByteBuilder.WriteTL2VariantIndex recv=val(item.instance.UnionIndex()) -> []\n") && strings.Contains(t, "assign $ |= #1\n"), r.pos(ir.Info.Decl.Pos()), "a non-zero variant index is written after the first block byte and marked by bit 0")
	}
	// (4) framing
	if ir := r.ir(P + "KernelValueStruct.ReadTL2"); ir != nil {
		t := flatText(irText(ir))
		frame := strings.Contains(t, "assign $ := #0\ncall basictl.TL2ParseSize recv=(buf) -> [buf $ err] !err\nif (len(buf) < $)\nreturn buf, basictl.TL2Error(") &&
			strings.Contains(t, "if !nz($)\ncall KernelValueStruct.Reset recv=item() -> []\nreturn buf, nil\n") &&
			strings.Contains(t, "assign $ := buf[:$]\nassign buf = buf[$:]\ndecl $\ncall basictl.ByteRead recv=($, $) -> [$ err] !err\nif bit($,0)\ndecl $\ncall basictl.TL2ParseSize recv=($) -> [$ $ err] !err\n")
		c.Ob("interp/tl2-object-framing", "KernelValueStruct.ReadTL2", frame, r.pos(ir.Info.Decl.Pos()), "size first, size > input rejected, zero size resets, body cut by the size, block byte, variant index under bit 0 — the framing of the generated object readers (C13)")
	}
	c.Floor("interp/primitive-table", 20)
}

// typeOfCanon: the Go type of a canonical parameter name of the function (nil when it is not a parameter).
func typeOfCanon(ir *FuncIR, name string) types.Type {
	for _, p := range ir.Params {
		if p.Name == name {
			return p.Var.Type()
		}
	}
	return nil
}
