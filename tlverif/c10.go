package main

import (
	"fmt"
	"regexp"
	"sort"
	"strings"
)

func init() { register("C10", checkC10) }

var bytesSuffixRx = regexp.MustCompile(`([A-Za-z0-9_]+?)Bytes\b`)
var elemOperandRx = regexp.MustCompile(`\$\*?[A-Za-z0-9_\[\]\.]+|val\[\*\]`)

// normTwin erases the declared differences between a type and its []byte twin: the `Bytes` suffix of
// sibling families and local types, and the element operand of dictionary loops (map-backed
// dictionaries decode into a fresh local element, slice-backed ones into the slice element).
func normTwin(s string) string {
	s = bytesSuffixRx.ReplaceAllString(s, "$1")
	lines := strings.Split(s, "\n")
	for i, l := range lines {
		if strings.Contains(l, "call ") || strings.Contains(l, "loop(") {
			lines[i] = elemOperandRx.ReplaceAllString(l, "@elem")
		}
	}
	return strings.Join(lines, "\n")
}

func checkC10(c *Check) {
	c.Explanation = "For every generated type that has a []byte twin, the twin's TL1 and TL2 wire programs (reader, writer, boxed forms, CalculateLayout) are identical to the string version's modulo the declared substitution (twin families, StringRead↔StringReadBytes etc. are the same primitive kinds, map-backed ↔ slice-backed dictionary element operand); JSON key tables of twins agree (shared with C05); in pkg/basictl the clone pairs (JSONWriteString/JSONWriteStringBytes, StringWrite/StringWriteBytes, StringWriteTL2/StringWriteTL2Bytes) are isomorphic modulo (utf8.ValidString↔utf8.Valid, DecodeRuneInString↔DecodeRune, string(x)↔x); StringRead/StringReadBytes and StringReadTL2/StringReadTL2Bytes satisfy the same C33 tables."
	c.NotCovered = "nothing structural for TL1/TL2; JSON value equality beyond key tables"
	c.Trusted = []string{"go/types", "C33 for the primitive pairs"}
	roles := []struct {
		role string
		cfg  *wireCfg
		dir  string
	}{
		{"ReadTL1", tl1ReadCfg, "r"}, {"WriteTL1", tl1WriteCfg, "w"}, {"ReadTL1Boxed", tl1ReadCfg, "r"}, {"WriteTL1Boxed", tl1WriteCfg, "w"},
		{"InternalReadTL2", tl2ReadCfg, "r"}, {"InternalWriteTL2", tl2WriteCfg, "w"}, {"CalculateLayout", tl2CalcCfg, "w"},
		{"ReadResultTL1", tl1ReadCfg, "r"}, {"WriteResultTL1", tl1WriteCfg, "w"},
	}
	withCorpora(c, true, func(g *genCtx) {
		if !g.co.Spec.Bytes {
			return
		}
		for _, fam := range g.families() {
			twin, ok := g.byFam[fam+"Bytes"]
			if !ok {
				continue
			}
			base := g.byFam[fam]
			name := g.co.Spec.Name + ":" + shortFam(fam)
			for _, r := range roles {
				a, b := base[r.role], twin[r.role]
				if a == nil || b == nil {
					continue
				}
				aw, _ := g.wire(a, r.cfg, r.dir)
				bw, _ := g.wire(b, r.cfg, r.dir)
				var as, bs string
				if strings.Contains(r.role, "TL2") || r.role == "CalculateLayout" {
					as = strings.Join(valueOps(dataOps(g.inlineTrivial(aw, r.cfg, r.dir))), "\n")
					bs = strings.Join(valueOps(dataOps(g.inlineTrivial(bw, r.cfg, r.dir))), "\n")
					if r.role == "CalculateLayout" {
						as = strings.Join(callsOnly(dataOps(aw)), "\n")
						bs = strings.Join(callsOnly(dataOps(bw)), "\n")
					}
				} else {
					as, bs = wireCanon(aw), wireCanon(bw)
				}
				if r.dir == "r" {
					g.decodedElementsKept(c, "bytes-twin/decoded-element-kept", name+"."+r.role+"(bytes)", b, bw)
					// the variants hold equal content only if each stored value owns its storage: the temporary a
					// decoded element is stored from is declared per iteration in both variants
					g.freshTemporaries(c, "bytes-twin/decoded-value-independent", name+"."+r.role, a)
					g.freshTemporaries(c, "bytes-twin/decoded-value-independent", name+"."+r.role+"(bytes)", b)
				}
				as, bs = normTwin(as), normTwin(bs)
				d := fmt.Sprintf("%d lines", strings.Count(as, "\n")+1)
				if as != bs {
					d = firstDiff(as, bs) + " (left: string version, right: bytes version)"
				}
				c.Ob("bytes-twin/"+r.role, name, as == bs, posStr(g.co.Fset, b.Decl.Pos()), d)
			}
			// JSON twins: the same sequence of lexer operations (with their modes), primitive codecs and nested codecs
			for _, role := range []string{"ReadJSONGeneral", "WriteJSONOpt"} {
				a, b := base[role], twin[role]
				if a == nil || b == nil {
					continue
				}
				// compared as multisets: the twins may check the lexer state at different points of the same loop body
				as, bs := jsonEventSeq(g, a), jsonEventSeq(g, b)
				sort.Strings(as)
				sort.Strings(bs)
				d := fmt.Sprintf("%d events", len(as))
				same := len(as) == len(bs)
				for i := 0; same && i < len(as); i++ {
					if as[i] != bs[i] {
						same = false
					}
				}
				if !same {
					d = firstDiff(strings.Join(as, "\n"), strings.Join(bs, "\n")) + " (left: string version, right: bytes version)"
				}
				c.Ob("bytes-twin/"+role, name, same, posStr(g.co.Fset, b.Decl.Pos()), d)
			}
			// slot tables of TL2 twins
			if g.co.Spec.TL2 && base["InternalWriteTL2"] != nil && twin["InternalWriteTL2"] != nil {
				aS, _ := g.writerSlots(base["InternalWriteTL2"])
				bS, _ := g.writerSlots(twin["InternalWriteTL2"])
				ok := len(aS) == len(bS)
				d := fmt.Sprintf("%d slots", len(aS))
				for i := 0; ok && i < len(aS); i++ {
					x := fmt.Sprintf("%s %s %s", aS[i].key(), normTwin(aS[i].Cond), normTwin(strings.Join(aS[i].Ops, "|")))
					y := fmt.Sprintf("%s %s %s", bS[i].key(), normTwin(bS[i].Cond), normTwin(strings.Join(bS[i].Ops, "|")))
					if x != y {
						ok = false
						d = "slot " + x + " vs bytes twin " + y
					}
				}
				c.Ob("bytes-twin/tl2-slots", name, ok, posStr(g.co.Fset, twin["InternalWriteTL2"].Decl.Pos()), d)
			}
		}
	})
	// basictl clones
	for _, b := range loadBasictl(c) {
		pairs := [][2]string{{"JSONWriteString", "JSONWriteStringBytes"}, {"StringWrite", "StringWriteBytes"}, {"StringWriteTL2", "StringWriteTL2Bytes"}}
		for _, p := range pairs {
			x, y := b.ir(p[0]), b.ir(p[1])
			if x == nil || y == nil {
				if b.pkg == "pkg/basictl" {
					c.Undecided("basictl-clone", b.pkg+"."+p[0], "", "clone pair not found")
				}
				continue
			}
			dx, dy := cloneDump(x), cloneDump(y)
			d := fmt.Sprintf("%d IR lines", strings.Count(dx, "\n"))
			if dx != dy {
				d = firstDiff(dx, dy)
			}
			b.ob("basictl-clone", p[0]+"~"+p[1], dx == dy, d)
		}
	}
	c.Floor("bytes-twin/ReadTL1", 20)
	c.Floor("bytes-twin/WriteTL1", 20)
	c.Floor("bytes-twin/InternalReadTL2", 15)
	c.Floor("bytes-twin/InternalWriteTL2", 15)
	c.Floor("basictl-clone", 6)
	c.Floor("bytes-twin/ReadJSONGeneral", 15)
	c.Floor("bytes-twin/WriteJSONOpt", 15)
}

// cloneDump renders the IR with the declared string↔[]byte substitution applied.
func cloneDump(ir *FuncIR) string {
	var sb strings.Builder
	dumpBlock(&sb, ir.Body, "")
	s := sb.String()
	s = strings.ReplaceAll(s, "utf8.ValidString(", "utf8.Valid(")
	s = strings.ReplaceAll(s, "DecodeRuneInString", "DecodeRune")
	s = strings.ReplaceAll(s, "conv(val)", "val")
	return s
}

// decodedElementsKept: a reader loop that decodes into a local must store that local into the
// collection being filled (otherwise the decoded data is dropped).
func (g *genCtx) decodedElementsKept(c *Check, rule, construct string, fi *FuncInfo, l []W) {
	var visit func(l []W)
	check := func(body []W, pos string) {
		local := ""
		stored := false
		var scan func(l []W)
		scan = func(l []W) {
			for _, w := range l {
				switch w := w.(type) {
				case *WPrim:
					if strings.HasPrefix(w.Operand, "$") && w.Kind != "size" && w.Kind != "byte" {
						local = w.Operand
					}
				case *WCall:
					if strings.HasPrefix(w.Operand, "$") {
						local = w.Operand
					}
				case *WFact:
					if w.Kind == "store" && strings.Contains(w.B, "$") {
						stored = true
					}
				case *WIf:
					scan(w.Then)
					scan(w.Else)
				}
			}
		}
		scan(body)
		if local != "" {
			c.Ob(rule, construct, stored, pos, "loop decodes into local "+local+"; stored into the collection="+fmt.Sprint(stored))
		}
	}
	visit = func(l []W) {
		for _, w := range l {
			switch w := w.(type) {
			case *WLoop:
				check(w.Body, posStr(g.co.Fset, w.Pos))
				visit(w.Body)
			case *WCounted:
				check(w.Body, posStr(g.co.Fset, w.Pos))
				visit(w.Body)
			case *WIf:
				visit(w.Then)
				visit(w.Else)
			}
		}
	}
	visit(l)
}

var jsonEventRx = regexp.MustCompile(`Lexer\.(\w+) recv=\w+\(([^)]*)\)|\.(UnsafeFieldName|UnsafeString|UnsafeBytes|Raw|Bool)\((\w*)\)|(Json2Read\w+)|basictl\.(JSONWrite\w+|JSONAddCommaIfNeeded)|call (\w+?)\.?(ReadJSONGeneral|WriteJSONOpt)\b|call append recv=\(buf, ("(?:[^"\\]|\\.)*"|#\d+)\)|call (Error\w+)`)

// jsonEventSeq: the order-preserving list of JSON-relevant events of a reader/writer, with storage
// details (map vs slice, string vs []byte) erased: lexer calls with their mode arguments, primitive
// codecs and nested codecs with the Bytes suffix dropped, constant fragments, error constructors.
func jsonEventSeq(g *genCtx, fi *FuncInfo) []string {
	var out []string
	for _, m := range jsonEventRx.FindAllStringSubmatch(blockText(g.ir(fi).Body), -1) {
		ev := ""
		switch {
		case m[1] != "":
			ev = "lexer." + m[1] + "(" + m[2] + ")"
		case m[3] != "":
			ev = "lexer." + m[3] + "(" + m[4] + ")"
		case m[5] != "":
			ev = strings.TrimSuffix(m[5], "Bytes")
		case m[6] != "":
			ev = strings.TrimSuffix(m[6], "Bytes")
		case m[8] != "":
			ev = "nested " + strings.TrimSuffix(strings.TrimSuffix(m[7], "Bytes"), "Bytes") + "." + m[8]
		case m[9] != "":
			ev = "lit " + m[9]
		case m[10] != "":
			ev = "" // error constructors are checks, not consumption
		}
		if ev == "lexer.Ok()" || ev == "lexer.Error()" {
			ev = ""
		}
		if ev != "" {
			out = append(out, ev)
		}
	}
	return out
}
