package main

import (
	"fmt"
	"go/ast"
	"go/constant"
	"go/token"
	"go/types"
	"path/filepath"
	"regexp"
	"sort"
	"strings"

	"golang.org/x/tools/go/types/typeutil"
)

func init() {
	register("C19", func(c *Check) { parserCheck(c, "C19") })
	register("C20", func(c *Check) { parserCheck(c, "C20") })
}

var parserFilesTL1 = map[string]bool{"tlparser_code.go": true, "tlparser_typeref.go": true, "tlparser_comments.go": true, "tlparser_error.go": true, "tllexer.go": true}
var parserFilesTL2 = map[string]bool{"tlparser_tl2_code.go": true, "tllexer.go": true, "tlparser_error.go": true}

// panicOwners: explicit panic sites of the parser files, confirmed by reading.
var panicOwners = map[string]string{
	"tokenIterator.skipWS":        "unreachable while the lexer's eof-last invariant holds (eof is never consumed: rule consumption-guarded)",
	"tokenIterator.expectOrPanic": "every caller has just seen checkToken(T) succeed (rule consumption-guarded)",
	"ParseTLFile":                 "tokenizer recombination invariant str == recombined; its guard is value-level and NOT decided here",
	"parseCommentBefore":          "iterates only tokens that skipWS/skipToNewline skipped (comment, whitespace, tab, newline)",
	"ParseTL2File":                "tokenizer recombination invariant, not decided here",
	"splitIdenNSFromToken":        "called only with lcIdentNS/ucIdentNS tokens, whose lexer rule requires a '.'",
}

// consumptionListed: consumption sites whose safety is not a front-token test, confirmed by reading.
var consumptionListed = map[string]string{
	"parseCommentBefore/it.popFront()#1": "the loop runs while it.offset < end.offset and end is a valid position of the same token slice",
}

// valSliceOwners: functions that slice/index token text, with the lexer rule that makes it safe.
var valSliceOwners = map[string]string{
	"parseModifiers":                      "annotation tokens are '@' + name: val[1:]",
	"parseConstructor":                    "crc32hash tokens are '#' + hex digits: val[1:]",
	"splitIdenNSFromToken":                "called only with lcIdentNS/ucIdentNS tokens, which contain '.'",
	"parseTL2Annotation":                  "annotation tokens are '@' + name",
	"parseTL2TypeName":                    "lcIdentNS/ucIdentNS tokens contain '.'",
	"parseTL2FuncDeclarationWithoutName":  "crc32hash tokens are '#' + hex digits",
	"parseTL2TypeDeclarationWithoutName":  "crc32hash tokens are '#' + hex digits",
	"parseTL2UnionConstructorDeclaration": "crc32hash tokens are '#' + hex digits",
}

type astPath []ast.Node

func isIterType(t types.Type) bool {
	n := namedOf(t)
	return n != nil && n.Obj().Name() == "tokenIterator"
}

func exprText(fset *token.FileSet, e ast.Expr) string { return types.ExprString(e) }

// tokenTests collects `X.checkToken(T)` occurrences in a condition as (receiver text, constant name, positive?).
type tokTest struct {
	recv string
	tok  string
	pos  bool
}

func collectTokenTests(info *types.Info, e ast.Expr, positive bool, out *[]tokTest, conj *bool) {
	e = ast.Unparen(e)
	switch e := e.(type) {
	case *ast.UnaryExpr:
		if e.Op == token.NOT {
			collectTokenTests(info, e.X, !positive, out, conj)
		}
	case *ast.BinaryExpr:
		switch e.Op {
		case token.LOR, token.LAND:
			if e.Op == token.LAND {
				*conj = true
			}
			collectTokenTests(info, e.X, positive, out, conj)
			collectTokenTests(info, e.Y, positive, out, conj)
		case token.EQL, token.NEQ:
			// X.front().tokenType == T
			if sel, ok := ast.Unparen(e.X).(*ast.SelectorExpr); ok && sel.Sel.Name == "tokenType" {
				if call, ok := ast.Unparen(sel.X).(*ast.CallExpr); ok {
					if fs, ok := call.Fun.(*ast.SelectorExpr); ok && fs.Sel.Name == "front" {
						*out = append(*out, tokTest{recv: types.ExprString(fs.X), tok: types.ExprString(e.Y), pos: positive == (e.Op == token.EQL)})
					}
				}
			}
		}
	case *ast.CallExpr:
		if fs, ok := e.Fun.(*ast.SelectorExpr); ok && (fs.Sel.Name == "checkToken") && len(e.Args) == 1 {
			*out = append(*out, tokTest{recv: types.ExprString(fs.X), tok: types.ExprString(e.Args[0]), pos: positive})
		}
	}
}

func parserCheck(c *Check, id string) {
	lang := "TL1"
	files := parserFilesTL1
	if id == "C20" {
		lang, files = "TL2", parserFilesTL2
	}
	c.Explanation = "Structural necessary conditions of a total " + lang + " parser, decided on internal/tlast by typestate-style rules over the token iterator: (A) every token consumption outside the iterator's own methods (popFront, expectOrPanic) is control-dependent on a successful test of the front token against a non-eof token kind on the same iterator, with no other consumption in between, so the eof token — which the lexer always appends last — is never consumed and front() stays in range; expectOrPanic(T) follows checkToken(T) of the same T; (B) expect/expectLazy with eof appears only as the documented loop exit; (C) every explicit panic site of the parser files is one of the listed invariant assertions; (D) token text is sliced/indexed only in listed functions whose token kinds guarantee the length; (E) error printing slices file content only through safeRange or under an explicit range test; (F) the lexer appends eof as its last action on the success path. Error positions are token positions."
	c.NotCovered = "the lexer's byte-level totality and the recombination invariant (value level); stack depth on deeply nested input; that positions of tokens lie inside the text (they tile it by the recombination invariant)"
	c.Trusted = []string{"go/types", "documented lexer token shapes for the listed slicing sites"}
	r := loadRepoFuncs(c, "./internal/tlast")
	if r == nil {
		return
	}
	var pkgInfo *types.Info
	for _, p := range r.co.Pkgs {
		if strings.HasSuffix(p.PkgPath, "internal/tlast") {
			pkgInfo = p.TypesInfo
		}
	}
	eofConst := func(e ast.Expr) bool {
		if id, ok := ast.Unparen(e).(*ast.Ident); ok {
			if cobj, ok := pkgInfo.Uses[id].(*types.Const); ok && cobj.Name() == "eof" {
				return true
			}
		}
		if tv, ok := pkgInfo.Types[e]; ok && tv.Value != nil && tv.Value.Kind() == constant.Int {
			if v, ok := constant.Int64Val(tv.Value); ok && v == -13 {
				return true
			}
		}
		return false
	}
	nConsume := 0
	for name, fi := range r.funcs {
		if !strings.HasPrefix(name, "internal/tlast.") {
			continue
		}
		file := filepath.Base(r.co.Fset.Position(fi.Decl.Pos()).Filename)
		if !files[file] {
			continue
		}
		fname := fi.Name()
		isIterMethod := strings.HasPrefix(fname, "tokenIterator.")
		info := fi.Pkg.TypesInfo
		// parameters that are token kinds (finish tokens of parseFields): callers must pass non-eof constants
		var stack astPath
		ast.Inspect(fi.Decl.Body, func(n ast.Node) bool {
			if n == nil {
				stack = stack[:len(stack)-1]
				return true
			}
			stack = append(stack, n)
			switch n := n.(type) {
			case *ast.CallExpr:
				sel, ok := n.Fun.(*ast.SelectorExpr)
				if ok && info.TypeOf(sel.X) != nil && isIterType(info.TypeOf(sel.X)) {
					recv := types.ExprString(sel.X)
					switch sel.Sel.Name {
					case "popFront", "expectOrPanic":
						if isIterMethod {
							break
						}
						nConsume++
						want := ""
						if sel.Sel.Name == "expectOrPanic" && len(n.Args) == 1 {
							want = types.ExprString(n.Args[0])
						}
						ok, why := consumptionGuarded(info, fi, stack, n, recv, want, eofConst)
						key := fname + "/" + recv + "." + sel.Sel.Name + "(" + want + ")#" + fmt.Sprint(ordinalIn(fi, n))
						if !ok {
							if g, desc := frontKindGuard(info, fi, n, recv, eofConst); g {
								ok, why = true, desc
							}
						}
						if reason, listed := consumptionListed[key]; !ok && listed {
							ok, why = true, "listed: "+reason
						}
						c.Ob("consumption-guarded", key, ok, r.pos(n.Pos()), why)
					case "expect", "expectLazy":
						if len(n.Args) == 1 && eofConst(n.Args[0]) {
							// allowed only as `for !it.expectLazy(eof)` loop condition
							okLoop := false
							for i := len(stack) - 2; i >= 0; i-- {
								if fs, ok := stack[i].(*ast.ForStmt); ok && fs.Cond != nil && fs.Cond.Pos() <= n.Pos() && n.End() <= fs.Cond.End() {
									okLoop = true
								}
							}
							c.Ob("eof-consumed-only-at-loop-exit", fname, okLoop && !isIterMethod, r.pos(n.Pos()), "expect*(eof) is the loop exit test; the iterator is dead afterwards")
						}
					}
				}
				// panics
				if idn, ok := n.Fun.(*ast.Ident); ok && idn.Name == "panic" {
					reason, listed := panicOwners[fname]
					c.Ob("panic-site-listed", fname+"/panic", listed, r.pos(n.Pos()), reason)
				}
				if callee := typeutil.StaticCallee(info, n); callee != nil && callee.Pkg() != nil && callee.Pkg().Path() == "log" && strings.HasPrefix(callee.Name(), "Panic") {
					reason, listed := panicOwners[fname]
					c.Ob("panic-site-listed", fname+"/log."+callee.Name(), listed, r.pos(n.Pos()), reason)
				}
			case *ast.ForStmt:
				if n.Cond == nil && !isIterMethod {
					// unbounded loop: must contain an exit (break of this loop or return) outside nested loops/switch-breaks
					hasExit := false
					var scan func(st ast.Node, depthLoop, depthSwitch int)
					scan = func(st ast.Node, depthLoop, depthSwitch int) {
						ast.Inspect(st, func(x ast.Node) bool {
							switch x := x.(type) {
							case *ast.FuncLit:
								return false
							case *ast.ReturnStmt:
								hasExit = true
							case *ast.BranchStmt:
								if x.Tok == token.BREAK && depthLoop == 0 && (depthSwitch == 0 || x.Label != nil) {
									hasExit = true
								}
							case *ast.ForStmt, *ast.RangeStmt:
								if x != st {
									scan2 := x
									_ = scan2
									return false
								}
							case *ast.SwitchStmt, *ast.SelectStmt, *ast.TypeSwitchStmt:
								if x != st {
									// a bare break inside a switch leaves the switch only; returns still count
									ast.Inspect(x, func(y ast.Node) bool {
										if _, ok := y.(*ast.ReturnStmt); ok {
											hasExit = true
										}
										if b, ok := y.(*ast.BranchStmt); ok && b.Tok == token.BREAK && b.Label != nil {
											hasExit = true
										}
										return true
									})
									return false
								}
							}
							return true
						})
					}
					scan(n.Body, 0, 0)
					c.Ob("unbounded-loop-has-exit", fname+"#"+fmt.Sprint(r.co.Fset.Position(n.Pos()).Line-r.co.Fset.Position(fi.Decl.Pos()).Line), hasExit, r.pos(n.Pos()), "`for {}` contains a break of this loop or a return")
				}
			case *ast.SliceExpr, *ast.IndexExpr:
				var x ast.Expr
				if se, ok := n.(*ast.SliceExpr); ok {
					x = se.X
				} else {
					x = n.(*ast.IndexExpr).X
				}
				t := info.TypeOf(x)
				if t == nil || !isStringType(t) {
					break
				}
				txt := types.ExprString(x)
				isTokenText := strings.HasSuffix(txt, ".val") || txt == "value" || txt == "s" && fname == "splitIdenNSFromToken"
				if isTokenText && file != "tllexer.go" && file != "tlparser_error.go" {
					reason, listed := valSliceOwners[fname]
					c.Ob("token-text-slicing-listed", fname+"/"+txt, listed, r.pos(n.Pos()), reason)
				}
				if file == "tlparser_error.go" {
					ok := fname == "safeRange"
					why := "inside safeRange (bounds tested first)"
					if !ok {
						// must be under an if/else whose condition mentions the bound
						for i := len(stack) - 2; i >= 0 && !ok; i-- {
							if is, isIf := stack[i].(*ast.IfStmt); isIf {
								ct := types.ExprString(is.Cond)
								if se, isS := n.(*ast.SliceExpr); isS {
									for _, b := range []ast.Expr{se.Low, se.High} {
										if b != nil && strings.Contains(ct, types.ExprString(b)) {
											ok, why = true, "guarded by `"+ct+"`"
										}
									}
								}
							}
						}
						if !ok {
							why = "file content is sliced without safeRange or a range test on the bound"
						}
					}
					c.Ob("error-print-safe-slicing", fname+"/"+types.ExprString(n.(ast.Expr)), ok, r.pos(n.Pos()), why)
				}
			}
			return true
		})
	}
	// parseFields finish tokens: every caller passes non-eof constants
	for name, fi := range r.funcs {
		if !strings.HasPrefix(name, "internal/tlast.") || !files[filepath.Base(r.co.Fset.Position(fi.Decl.Pos()).Filename)] {
			continue
		}
		ast.Inspect(fi.Decl.Body, func(n ast.Node) bool {
			call, ok := n.(*ast.CallExpr)
			if !ok {
				return true
			}
			if idn, ok := call.Fun.(*ast.Ident); ok && idn.Name == "parseFields" && len(call.Args) == 4 {
				okc := true
				for _, a := range call.Args[1:3] {
					tv, isC := fi.Pkg.TypesInfo.Types[a]
					if !isC || tv.Value == nil || eofConst(a) {
						okc = false
					}
				}
				c.Ob("consumption-guarded/finish-tokens-non-eof", fi.Name()+"→parseFields", okc, r.pos(call.Pos()), "finish tokens "+types.ExprString(call.Args[1])+", "+types.ExprString(call.Args[2])+" are non-eof constants")
			}
			return true
		})
	}
	// (F) lexer appends eof last on the success path
	if ir := r.ir("internal/tlast.lexer.generateTokens"); ir != nil {
		ok := false
		for i, n := range ir.Body {
			if call, isC := n.(*CallN); isC && call.Fn != nil && call.Fn.Name() == "advance" && len(call.Args) == 2 && strings.Contains(call.Args[1], "#-13") || isC && call.Fn != nil && call.Fn.Name() == "advance" && len(call.Args) == 2 && strings.HasSuffix(call.Args[1], "eof") {
				// followed only by the validating return
				rest := ir.Body[i+1:]
				ok = len(rest) <= 2
			}
		}
		c.Ob("lexer-appends-eof-last", "lexer.generateTokens", ok, r.pos(ir.Info.Decl.Pos()), "advance(0, eof) is the last action before returning the (validated) tokens")
	}
	// (F2) the lexer indexes its input only at the listed expressions, each with a length guard of a known kind
	lexerIndexSites(c, r)
	// (F3) every advance(n) takes at most what is left of the input
	lexerAdvanceBounded(c, r)
	// (G) nil-result contract of parse helpers: a helper that may succeed with a nil result only does so when it
	// was not forced; callers that use the result without a nil test force it
	nilContract(c, r, files)
	c.Set("consumption_sites", nConsume)
	if id == "C19" {
		c.Floor("consumption-guarded", 20)
		c.Floor("panic-site-listed", 3)
		c.Floor("token-text-slicing-listed", 2)
		c.Floor("error-print-safe-slicing", 3)
	} else {
		c.Floor("consumption-guarded", 10)
		c.Floor("eof-consumed-only-at-loop-exit", 1)
		c.Floor("token-text-slicing-listed", 3)
	}
}

func ordinalIn(fi *FuncInfo, target ast.Node) int {
	n := 0
	ord := 0
	ast.Inspect(fi.Decl.Body, func(x ast.Node) bool {
		if call, ok := x.(*ast.CallExpr); ok {
			if sel, ok := call.Fun.(*ast.SelectorExpr); ok && (sel.Sel.Name == "popFront" || sel.Sel.Name == "expectOrPanic") {
				n++
				if x == target {
					ord = n
				}
			}
		}
		return true
	})
	return ord
}

// consumptionGuarded: the consuming call is inside the positive region of a test of the front token of the
// same iterator against a non-eof kind (equal to want when given), with no other consumption between the
// test and the call.
func consumptionGuarded(info *types.Info, fi *FuncInfo, stack astPath, call *ast.CallExpr, recv, want string, eofConst func(ast.Expr) bool) (bool, string) {
	var guardStart token.Pos
	var guardDesc string
	found := false
	for i := len(stack) - 2; i >= 0 && !found; i-- {
		switch g := stack[i].(type) {
		case *ast.IfStmt:
			var tests []tokTest
			conj := false
			collectTokenTests(info, g.Cond, true, &tests, &conj)
			inBody := g.Body.Pos() <= call.Pos() && call.End() <= g.Body.End()
			inElse := g.Else != nil && g.Else.Pos() <= call.Pos() && call.End() <= g.Else.End()
			for _, t := range tests {
				if t.recv != recv {
					continue
				}
				if (inBody && t.pos || inElse && !t.pos) && (want == "" || t.tok == want) && t.tok != "eof" {
					// in a disjunction every alternative must be a test of this iterator
					all := true
					for _, u := range tests {
						if u.recv != recv || u.pos != t.pos || u.tok == "eof" {
							all = false
						}
					}
					if all || conj {
						found, guardStart, guardDesc = true, g.Cond.End(), types.ExprString(g.Cond)
					}
				}
			}
		case *ast.CaseClause:
			// tagless switch: case X.checkToken(T) || …   /  switch X.front().tokenType { case T: }
			var sw *ast.SwitchStmt
			if i >= 2 {
				sw, _ = stack[i-2].(*ast.SwitchStmt)
			}
			if sw == nil {
				break
			}
			if sw.Tag == nil {
				all := len(g.List) > 0
				var toks []string
				for _, e := range g.List {
					var tests []tokTest
					conj := false
					collectTokenTests(info, e, true, &tests, &conj)
					if len(tests) == 0 {
						all = false
					}
					for _, t := range tests {
						if t.recv != recv || !t.pos || t.tok == "eof" {
							all = false
						}
						toks = append(toks, t.tok)
					}
				}
				if all && (want == "" || containsStr(toks, want)) {
					found, guardStart, guardDesc = true, g.Colon, "case "+strings.Join(toks, " || ")
				}
			} else {
				tag := types.ExprString(sw.Tag)
				if tag == recv+".front().tokenType" && len(g.List) > 0 {
					okc := true
					for _, e := range g.List {
						if eofConst(e) {
							okc = false
						}
					}
					if okc {
						found, guardStart, guardDesc = true, g.Colon, "case of switch "+tag
					}
				}
			}
		}
	}
	if !found {
		// `if !X.checkToken(T) { return/break/continue }` earlier in an enclosing block
		for i := len(stack) - 2; i >= 0 && !found; i-- {
			blk, ok := stack[i].(*ast.BlockStmt)
			if !ok {
				continue
			}
			for j := len(blk.List) - 1; j >= 0; j-- {
				st := blk.List[j]
				if st.Pos() >= call.Pos() {
					continue
				}
				is, ok := st.(*ast.IfStmt)
				if !ok || is.Else != nil || len(is.Body.List) == 0 {
					continue
				}
				exits := false
				switch last := is.Body.List[len(is.Body.List)-1].(type) {
				case *ast.ReturnStmt:
					exits = true
				case *ast.BranchStmt:
					exits = last.Tok == token.BREAK || last.Tok == token.CONTINUE
				}
				if !exits {
					continue
				}
				var tests []tokTest
				conj := false
				collectTokenTests(info, is.Cond, true, &tests, &conj)
				if len(tests) == 1 && tests[0].recv == recv && !tests[0].pos && tests[0].tok != "eof" && (want == "" || tests[0].tok == want) {
					found, guardStart, guardDesc = true, is.End(), types.ExprString(is.Cond)+" → exit"
					break
				}
			}
		}
	}
	if !found {
		// `front := X.front(); if !(front.tokenType == T || front.val == "…") { return }; …; X.popFront()`
		return false, "no dominating positive test of " + recv + "'s front token against a non-eof kind"
	}
	// no other consumption of recv between guard and call
	other := ""
	ast.Inspect(fi.Decl.Body, func(n ast.Node) bool {
		ce, ok := n.(*ast.CallExpr)
		if !ok || ce == call || ce.Pos() <= guardStart || ce.Pos() >= call.Pos() {
			return true
		}
		if sel, ok := ce.Fun.(*ast.SelectorExpr); ok && types.ExprString(sel.X) == recv {
			switch sel.Sel.Name {
			case "popFront", "expect", "expectLazy", "expectOrPanic", "skipToNewline":
				other = sel.Sel.Name
			}
		}
		return true
	})
	ast.Inspect(fi.Decl.Body, func(n ast.Node) bool {
		as, ok := n.(*ast.AssignStmt)
		if !ok || as.Pos() <= guardStart || as.Pos() >= call.Pos() {
			return true
		}
		for _, l := range as.Lhs {
			if types.ExprString(l) == recv {
				other = "assignment to " + recv
			}
		}
		return true
	})
	if other != "" {
		return false, "guarded by `" + guardDesc + "` but " + other + " consumes tokens of " + recv + " in between"
	}
	return true, "guarded by `" + guardDesc + "`"
}

// nilContract: for every parser function F returning (*T, …, error):
//   - each `return nil, …, nil` (success without a result) is either preceded in its block by `if <bool param> { return … error }`
//     (so it is unreachable when the parameter is true), or guarded by `r == nil` where r is the result of a call to a
//     function with the same contract that received that parameter (or true) in the same position;
//   - every call site whose result is dereferenced without a nil test passes true for that parameter, or the callee never
//     returns nil on success.
func nilContract(c *Check, r *repoCtx, files map[string]bool) {
	type summary struct {
		fi        *FuncInfo
		ir        *FuncIR
		forceIdx  int    // index of the bool parameter that forbids the nil result (-1: none)
		forceName string // canonical name of that parameter
		mayNil    string // "never" | "unless-forced" | "always"
	}
	sums := map[string]*summary{}
	var names []string
	for name, fi := range r.funcs {
		if !strings.HasPrefix(name, "internal/tlast.") || fi.Decl.Body == nil {
			continue
		}
		if !files[filepath.Base(r.co.Fset.Position(fi.Decl.Pos()).Filename)] {
			continue
		}
		sig := fi.Obj.Type().(*types.Signature)
		if sig.Results().Len() < 2 {
			continue
		}
		if _, isPtr := sig.Results().At(0).Type().Underlying().(*types.Pointer); !isPtr {
			continue
		}
		if sig.Results().At(sig.Results().Len()-1).Type().String() != "error" {
			continue
		}
		sums[fi.Name()] = &summary{fi: fi, ir: buildFuncIR(fi, r.co.allFuncs(), r.co.Fset), forceIdx: -1, mayNil: "never"}
		names = append(names, fi.Name())
	}
	sort.Strings(names)
	paramNames := func(fi *FuncInfo) []string {
		var out []string
		k := 0
		for _, fl := range fi.Decl.Type.Params.List {
			for range fl.Names {
				k++
				if k == 1 {
					out = append(out, "val")
				} else {
					out = append(out, fmt.Sprintf("val%d", k))
				}
			}
		}
		return out
	}
	isNilSuccess := func(rt *ReturnN) bool {
		return len(rt.Vals) >= 2 && rt.Vals[0] == "nil" && rt.Vals[len(rt.Vals)-1] == "nil"
	}
	// iterate: classify nil-success returns
	for round := 0; round < 3; round++ {
		for _, nm := range names {
			s := sums[nm]
			params := paramNames(s.fi)
			state := "never"
			var visit func(b Block, forcedOut map[string]bool, nilOf map[string]*CallN)
			visit = func(b Block, forcedOut map[string]bool, nilOf map[string]*CallN) {
				forced := map[string]bool{}
				for k, v := range forcedOut {
					forced[k] = v
				}
				calls := map[string]*CallN{}
				for k, v := range nilOf {
					calls[k] = v
				}
				for _, n := range b {
					switch n := n.(type) {
					case *CallN:
						if n.Fn != nil && len(n.Results) > 0 {
							calls[n.Results[0]] = n
						}
					case *IfN:
						cond := n.Cond.String()
						// `if p { return …, err }` makes the rest unreachable when p is true
						if endsInExit(n.Then) && len(n.Else) == 0 {
							for _, pn := range params {
								if cond == pn {
									visit(n.Then, forced, calls)
									forced[pn] = true
									goto next
								}
							}
						}
						{
							thenNil := map[string]*CallN{}
							for k, v := range calls {
								thenNil[k] = v
							}
							visit(n.Then, forced, thenNil)
							visit(n.Else, forced, calls)
							// a nil-success return under `!(L != nil)`: classify through the callee
							if m := regexp.MustCompile(`^!\((L\d+:\w+) != nil\)$`).FindStringSubmatch(cond); m != nil {
								_ = m
							}
						}
					case *SwitchN:
						for _, cs := range n.Cases {
							visit(cs.Body, forced, calls)
						}
					case *LoopN:
						visit(n.Body, forced, calls)
					case *ReturnN:
						if !isNilSuccess(n) {
							continue
						}
						if len(forced) > 0 {
							// unreachable when the forcing parameter is true
							for pn := range forced {
								for i, p2 := range params {
									if p2 == pn {
										s.forceIdx, s.forceName = i, pn
									}
								}
							}
							if state == "never" {
								state = "unless-forced"
							}
							continue
						}
						state = "always"
					}
				next:
				}
			}
			// pre-pass: nil-success returns guarded by `!(L != nil)` where L comes from a contract call
			guardedOK := map[*ReturnN]bool{}
			walkBlock(s.ir.Body, nil, func(n Node, gs []Guard) {
				rt, ok := n.(*ReturnN)
				if !ok || !isNilSuccess(rt) {
					return
				}
				for _, g := range gs {
					m := regexp.MustCompile(`^!\((L\d+:\w+) != nil\)$`).FindStringSubmatch(g.Text)
					if g.Kind != "if" || m == nil {
						continue
					}
					// find the defining call
					var def *CallN
					walkBlock(s.ir.Body, nil, func(k Node, _ []Guard) {
						if cn, ok := k.(*CallN); ok && cn.Fn != nil && len(cn.Results) > 0 && cn.Results[0] == m[1] && cn.Pos < rt.Pos {
							def = cn
						}
					})
					if def == nil {
						continue
					}
					callee := sums[funcDisplayName(def.Fn)]
					if callee == nil {
						continue
					}
					switch callee.mayNil {
					case "never":
						guardedOK[rt] = true // dead code, harmless
					case "unless-forced":
						if callee.forceIdx < len(def.Args) {
							a := def.Args[callee.forceIdx]
							if a == "true" {
								guardedOK[rt] = true
							} else if a == s.forceName && s.forceName != "" || a == paramNames(s.fi)[min(callee.forceIdx, len(paramNames(s.fi))-1)] && callee == s {
								guardedOK[rt] = true // nil only when this function itself was not forced
								if s.forceIdx < 0 && callee == s {
									s.forceIdx, s.forceName = callee.forceIdx, a
								}
							}
						}
					}
				}
			})
			// now the main classification, skipping returns justified above
			var visit2 func(b Block, forced map[string]bool)
			visit2 = func(b Block, forcedIn map[string]bool) {
				forced := map[string]bool{}
				for k, v := range forcedIn {
					forced[k] = v
				}
				for _, n := range b {
					switch n := n.(type) {
					case *IfN:
						cond := n.Cond.String()
						handled := false
						if endsInExit(n.Then) && len(n.Else) == 0 {
							for _, pn := range params {
								if cond == pn {
									visit2(n.Then, forced)
									forced[pn] = true
									handled = true
								}
							}
						}
						if !handled {
							visit2(n.Then, forced)
							visit2(n.Else, forced)
						}
					case *SwitchN:
						for _, cs := range n.Cases {
							visit2(cs.Body, forced)
						}
					case *LoopN:
						visit2(n.Body, forced)
					case *ReturnN:
						if !isNilSuccess(n) {
							continue
						}
						if guardedOK[n] {
							if state == "never" && s.forceName != "" {
								state = "unless-forced"
							}
							continue
						}
						if len(forced) > 0 {
							for pn := range forced {
								for i, p2 := range params {
									if p2 == pn {
										s.forceIdx, s.forceName = i, pn
									}
								}
							}
							if state == "never" {
								state = "unless-forced"
							}
							continue
						}
						state = "always"
					}
				}
			}
			_ = visit
			visit2(s.ir.Body, nil)
			s.mayNil = state
		}
	}
	// call sites: result dereferenced without a nil test
	nsites := 0
	for name, fi := range r.funcs {
		if !strings.HasPrefix(name, "internal/tlast.") || fi.Decl.Body == nil || !files[filepath.Base(r.co.Fset.Position(fi.Decl.Pos()).Filename)] {
			continue
		}
		ir := buildFuncIR(fi, r.co.allFuncs(), r.co.Fset)
		txt := blockText(ir.Body)
		walkBlock(ir.Body, nil, func(n Node, gs []Guard) {
			cn, ok := n.(*CallN)
			if !ok || cn.Fn == nil || len(cn.Results) == 0 {
				return
			}
			callee := sums[funcDisplayName(cn.Fn)]
			if callee == nil || callee.mayNil == "never" {
				return
			}
			l := cn.Results[0]
			if !strings.HasPrefix(l, "L") {
				return
			}
			deref := regexp.MustCompile(regexp.QuoteMeta(l) + `\.\w`).MatchString(txt)
			if !deref {
				return
			}
			tested := strings.Contains(txt, "("+l+" != nil)")
			forcedArg := callee.mayNil == "unless-forced" && callee.forceIdx < len(cn.Args) && cn.Args[callee.forceIdx] == "true"
			nsites++
			c.Ob("nil-result-contract/call-site", fi.Name()+"→"+funcDisplayName(cn.Fn)+"/"+stripLocalNo(l), tested || forcedArg, r.pos(cn.Pos), fmt.Sprintf("%s may succeed with a nil result (%s); its result %s is dereferenced here: nil-tested=%v, forced=%v", funcDisplayName(cn.Fn), callee.mayNil, l, tested, forcedArg))
		})
	}
	for _, nm := range names {
		s := sums[nm]
		if s.mayNil != "never" {
			c.Info("nil-result contract: %s may return (nil, …, nil): %s (forcing parameter %q)", nm, s.mayNil, s.forceName)
		}
	}
	c.Set("nil_contract_functions", len(names))
	c.Set("nil_contract_deref_sites", nsites)
}

// lexerEntryFacts: index expressions of tllexer.go that no local guard justifies. Keys are name-independent
// (receiver = recv, parameters = p<i>, a local = local(<what first defines it>)); each entry names the only caller
// allowed and the syntactic context of the call that establishes the fact, and both are verified on every run.
type lexerEntryFact struct {
	onlyCaller string // the only function that may call this one
	context    string // "first-in-loop-while-nonempty" | "first-case-of-leading-switch" | "case-guard:<canonical condition>"
	reason     string
}

var lexerEntryFacts = map[string]lexerEntryFact{
	"nextToken/recv.str[0]":         {"generateTokens", "first-in-loop-while-nonempty", "called only as the first statement of the loop `for input != \"\"`; nothing is consumed before the switch"},
	"checkPrimitive/recv.str[0]":    {"nextToken", "first-case-of-leading-switch", "evaluated first thing in nextToken, whose input is non-empty"},
	"lexLexeme/local(nameIdent)[0]": {"nextToken", "case-guard:letter(recv.str[0])", "entered only when the input starts with a letter, so nameIdent returns at least that letter; the replacement by the second identifier is taken only when that one is non-empty"},
}

// canonLocalNames maps every identifier of fn that denotes its receiver, a parameter or a local variable to a
// name-independent spelling.
func canonLocalNames(fi *FuncInfo) map[types.Object]string {
	out := map[types.Object]string{}
	info := fi.Pkg.TypesInfo
	if fi.Decl.Recv != nil {
		for _, f := range fi.Decl.Recv.List {
			for _, n := range f.Names {
				out[info.Defs[n]] = "recv"
			}
		}
	}
	k := 0
	for _, f := range fi.Decl.Type.Params.List {
		for _, n := range f.Names {
			out[info.Defs[n]] = fmt.Sprintf("p%d", k)
			k++
		}
	}
	describe := func(e ast.Expr) string {
		switch e := ast.Unparen(e).(type) {
		case *ast.CallExpr:
			switch f := e.Fun.(type) {
			case *ast.Ident:
				return f.Name
			case *ast.SelectorExpr:
				return f.Sel.Name
			}
		case *ast.BasicLit:
			return e.Value
		}
		return "expr"
	}
	ast.Inspect(fi.Decl.Body, func(n ast.Node) bool {
		switch n := n.(type) {
		case *ast.AssignStmt:
			if n.Tok != token.DEFINE {
				return true
			}
			for i, l := range n.Lhs {
				id, ok := l.(*ast.Ident)
				if !ok || info.Defs[id] == nil {
					continue
				}
				d := "expr"
				if len(n.Rhs) == len(n.Lhs) {
					d = describe(n.Rhs[i])
				} else if len(n.Rhs) == 1 {
					d = describe(n.Rhs[0])
				}
				out[info.Defs[id]] = "local(" + d + ")"
			}
		case *ast.ValueSpec:
			for i, id := range n.Names {
				d := "zero"
				if i < len(n.Values) {
					d = describe(n.Values[i])
				}
				out[info.Defs[id]] = "local(" + d + ")"
			}
		case *ast.RangeStmt:
			for _, l := range []ast.Expr{n.Key, n.Value} {
				if id, ok := l.(*ast.Ident); ok && info.Defs[id] != nil {
					out[info.Defs[id]] = "local(range)"
				}
			}
		}
		return true
	})
	return out
}

// canonExpr spells e with local names replaced by their canonical spelling.
func canonExpr(fi *FuncInfo, names map[types.Object]string, e ast.Expr) string {
	txt := types.ExprString(e)
	repl := map[string]string{}
	ast.Inspect(e, func(n ast.Node) bool {
		if id, ok := n.(*ast.Ident); ok {
			if o := fi.Pkg.TypesInfo.Uses[id]; o != nil {
				if c, ok := names[o]; ok {
					repl[id.Name] = c
				}
			}
		}
		return true
	})
	for _, from := range sortedKeys(repl) {
		txt = regexp.MustCompile(`(^|[^\w.])`+regexp.QuoteMeta(from)+`\b`).ReplaceAllString(txt, "${1}"+strings.ReplaceAll(repl[from], "$", "$$"))
	}
	return txt
}

// lexerCallContext reports in which syntactic context callee is called from the functions of the lexer file, and by whom.
func lexerCallContext(r *repoCtx, lexFuncs map[string]*FuncInfo, callee string) (callers []string, contexts []string) {
	for _, name := range sortedKeys(lexFuncs) {
		fi := lexFuncs[name]
		names := canonLocalNames(fi)
		var stack []ast.Node
		ast.Inspect(fi.Decl.Body, func(nd ast.Node) bool {
			if nd == nil {
				stack = stack[:len(stack)-1]
				return true
			}
			stack = append(stack, nd)
			call, ok := nd.(*ast.CallExpr)
			if !ok {
				return true
			}
			fn, _ := typeutil.Callee(fi.Pkg.TypesInfo, call).(*types.Func)
			if fn == nil || fn.Name() != callee || fn.Pkg() != fi.Pkg.Types {
				return true
			}
			callers = append(callers, name)
			ctx := "other"
			for i := len(stack) - 2; i >= 0; i-- {
				switch p := stack[i].(type) {
				case *ast.ForStmt:
					if p.Cond != nil && len(p.Body.List) > 0 && astContains(p.Body.List[0], call) {
						if be, ok := p.Cond.(*ast.BinaryExpr); ok && be.Op == token.NEQ && types.ExprString(be.Y) == `""` && canonExpr(fi, names, be.X) == "recv.str" {
							ctx = "first-in-loop-while-nonempty"
						}
					}
				case *ast.CaseClause:
					// the call is in the body of a case: the guard is the case condition of a tag-less switch
					inBody := false
					for _, st := range p.Body {
						if astContains(st, call) {
							inBody = true
						}
					}
					if inBody && len(p.List) == 1 {
						if sw, ok := stack[i-2].(*ast.SwitchStmt); ok && sw.Tag == nil && ctx == "other" {
							ctx = "case-guard:" + canonExpr(fi, names, p.List[0])
						}
					}
					if !inBody && len(p.List) == 1 && p.List[0] == ast.Expr(call) {
						if sw, ok := stack[i-2].(*ast.SwitchStmt); ok && sw.Tag == nil && sw.Init == nil && len(sw.Body.List) > 0 && sw.Body.List[0] == ast.Stmt(p) && len(fi.Decl.Body.List) > 0 && fi.Decl.Body.List[0] == ast.Stmt(sw) {
							ctx = "first-case-of-leading-switch"
						}
					}
				}
				if ctx != "other" {
					break
				}
			}
			contexts = append(contexts, ctx)
			return true
		})
	}
	return
}

func astContains(root ast.Node, target ast.Node) bool {
	found := false
	ast.Inspect(root, func(n ast.Node) bool {
		if n == target {
			found = true
		}
		return !found
	})
	return found
}

// lexerIndexSites: every index into a string or byte slice in tllexer.go is justified either by a guard found in
// the enclosing condition / loop / by construction, or by a verified entry fact of the function.
func lexerIndexSites(c *Check, r *repoCtx) {
	n := 0
	lexFuncs := map[string]*FuncInfo{}
	for name, fi := range r.funcs {
		if !strings.HasPrefix(name, "internal/tlast.") || fi.Decl.Body == nil {
			continue
		}
		if filepath.Base(r.co.Fset.Position(fi.Decl.Pos()).Filename) != "tllexer.go" {
			continue
		}
		lexFuncs[fi.Obj.Name()] = fi
	}
	for _, fname := range sortedKeys(lexFuncs) {
		fi := lexFuncs[fname]
		names := canonLocalNames(fi)
		var stack []ast.Node
		ast.Inspect(fi.Decl.Body, func(nd ast.Node) bool {
			if nd == nil {
				stack = stack[:len(stack)-1]
				return true
			}
			stack = append(stack, nd)
			ix, ok := nd.(*ast.IndexExpr)
			if !ok {
				return true
			}
			tv, ok := fi.Pkg.TypesInfo.Types[ix.X]
			if !ok {
				return true
			}
			if b, isB := tv.Type.Underlying().(*types.Basic); !isB || b.Info()&types.IsString == 0 {
				if _, isSl := tv.Type.Underlying().(*types.Slice); !isSl {
					return true
				}
			}
			n++
			key := fname + "/" + canonExpr(fi, names, ix)
			xs := types.ExprString(ix.X)
			okGuard, detail := false, ""
			// (1) a `len(X)` comparison or emptiness test on the same operand, earlier in the same && / || chain, or in
			// the condition of an enclosing loop
			for i := len(stack) - 2; i >= 0 && !okGuard; i-- {
				if fs, isFor := stack[i].(*ast.ForStmt); isFor && fs.Cond != nil && strings.Contains(types.ExprString(fs.Cond), "len("+xs+")") {
					okGuard, detail = true, "inside a loop whose condition bounds the index by len("+xs+")"
					break
				}
				be, isBin := stack[i].(*ast.BinaryExpr)
				if !isBin || (be.Op != token.LAND && be.Op != token.LOR) || !astContains(be.Y, ix) {
					continue
				}
				left := types.ExprString(be.X)
				if strings.Contains(left, "len("+xs+")") || strings.Contains(left, xs+" == \"\"") || strings.Contains(left, xs+" != \"\"") {
					okGuard, detail = true, "`"+left+"` precedes it in the same condition"
				}
			}
			// (2) non-empty by construction: the operand is a local whose dominating assignment in an enclosing block is
			// a concatenation with a non-empty string constant
			if id, isID := ix.X.(*ast.Ident); !okGuard && isID {
				obj := fi.Pkg.TypesInfo.Uses[id]
				for i := len(stack) - 2; i >= 0 && !okGuard; i-- {
					bl, isBlock := stack[i].(*ast.BlockStmt)
					if !isBlock {
						continue
					}
					var last *ast.AssignStmt
					for _, st := range bl.List {
						if astContains(st, ix) {
							break
						}
						ast.Inspect(st, func(x ast.Node) bool {
							if as, ok := x.(*ast.AssignStmt); ok {
								for _, l := range as.Lhs {
									if lid, ok := l.(*ast.Ident); ok && (fi.Pkg.TypesInfo.Uses[lid] == obj || fi.Pkg.TypesInfo.Defs[lid] == obj) {
										last = as
										if !containsStmt(bl.List, as) {
											last = nil // assigned in a nested statement: not a dominating definition
										}
									}
								}
							}
							return true
						})
					}
					if last != nil && len(last.Lhs) == 1 && len(last.Rhs) == 1 {
						if be, ok := last.Rhs[0].(*ast.BinaryExpr); ok && be.Op == token.ADD {
							for _, side := range []ast.Expr{be.X, be.Y} {
								if tv, ok := fi.Pkg.TypesInfo.Types[side]; ok && tv.Value != nil && tv.Value.Kind() == constant.String && constant.StringVal(tv.Value) != "" {
									okGuard, detail = true, "`"+types.ExprString(last.Lhs[0])+" = "+types.ExprString(last.Rhs[0])+"` dominates it: non-empty by construction"
								}
							}
						}
					}
					if last != nil {
						break
					}
				}
			}
			// (3) a verified entry fact of this function
			if !okGuard {
				fact, listed := lexerEntryFacts[key]
				if !listed {
					detail = "an index into the lexer input with no length guard in its condition or loop and no entry fact for " + key + ": nothing shows that the input is long enough here"
				} else {
					callers, ctxs := lexerCallContext(r, lexFuncs, fname)
					good := len(callers) > 0
					for i := range callers {
						if callers[i] != fact.onlyCaller || ctxs[i] != fact.context {
							good = false
						}
					}
					okGuard = good
					detail = fmt.Sprintf("entry fact (%s): callers %v in contexts %v; required caller %s in context %s", fact.reason, callers, ctxs, fact.onlyCaller, fact.context)
					// the fact holds at entry only: nothing may consume input before the index
					if okGuard && !strings.HasPrefix(key, "lexLexeme/") {
						ast.Inspect(fi.Decl.Body, func(x ast.Node) bool {
							if cc, isCase := x.(*ast.CaseClause); isCase && !astContains(cc, ix) {
								// the body of another case is not on a path to this index (no fallthrough in this file);
								// its guard expressions are
								for _, st := range cc.Body {
									if b, isB := st.(*ast.BranchStmt); isB && b.Tok == token.FALLTHROUGH {
										okGuard, detail = false, "a case falls through before this index"
									}
								}
								for _, g := range cc.List {
									ast.Inspect(g, func(y ast.Node) bool {
										if call, ok := y.(*ast.CallExpr); ok && call.Pos() < ix.Pos() {
											if fn, _ := typeutil.Callee(fi.Pkg.TypesInfo, call).(*types.Func); fn != nil && fn.Pkg() == fi.Pkg.Types {
												if _, isLex := lexFuncs[fn.Name()]; isLex && fn.Type().(*types.Signature).Recv() != nil {
													if _, isFact := lexerEntryFacts[fn.Name()+"/recv.str[0]"]; !isFact {
														okGuard, detail = false, "the input may be consumed by "+fn.Name()+" before this index"
													}
												}
											}
										}
										return true
									})
								}
								return false
							}
							call, ok := x.(*ast.CallExpr)
							if !ok || call.Pos() >= ix.Pos() {
								return true
							}
							if fn, _ := typeutil.Callee(fi.Pkg.TypesInfo, call).(*types.Func); fn != nil && fn.Pkg() == fi.Pkg.Types {
								if _, isLex := lexFuncs[fn.Name()]; isLex && fn.Type().(*types.Signature).Recv() != nil {
									// a lexer method called before the index: allowed only when it is itself an entry-fact
									// function evaluated as a case guard that returns when it consumed
									if _, isFact := lexerEntryFacts[fn.Name()+"/recv.str[0]"]; !isFact {
										okGuard = false
										detail = "the input may be consumed by " + fn.Name() + " before this index"
									}
								}
							}
							return true
						})
					}
				}
			}
			c.Ob("lexer/index-expression-guarded", key, okGuard, r.pos(ix.Pos()), detail)
			return true
		})
	}
	c.Set("lexer_index_sites", n)
	c.Floor("lexer/index-expression-guarded", 20)
}

func containsStmt(l []ast.Stmt, s ast.Stmt) bool {
	for _, x := range l {
		if x == s {
			return true
		}
	}
	return false
}

// lexerAdvanceDump is a development aid: lists the advance(...) sites of the lexer with canonical arguments.
func lexerAdvanceDump(r *repoCtx) []string {
	var out []string
	for _, name := range sortedKeys(r.funcs) {
		fi := r.funcs[name]
		if !strings.HasPrefix(name, "internal/tlast.") || fi.Decl.Body == nil || filepath.Base(r.co.Fset.Position(fi.Decl.Pos()).Filename) != "tllexer.go" {
			continue
		}
		names := canonLocalNames(fi)
		ast.Inspect(fi.Decl.Body, func(n ast.Node) bool {
			call, ok := n.(*ast.CallExpr)
			if !ok {
				return true
			}
			if fn, _ := typeutil.Callee(fi.Pkg.TypesInfo, call).(*types.Func); fn != nil && fn.Name() == "advance" && len(call.Args) == 2 {
				out = append(out, fi.Obj.Name()+"/"+canonExpr(fi, names, call.Args[0]))
			}
			return true
		})
	}
	return out
}

// lexerAdvanceTriaged: advance(n) sites whose bound is value-level reasoning the recognisers do not do, keyed by
// function and canonical length expression, with the reason the length stays within the input.
var lexerAdvanceTriaged = map[string]string{
	"lexLexeme/len(local(\"\")) + len(local(nameIdent))": "ns = w + \".\" and w = the identifier that follows the dot: w is a prefix of the input, the byte after it was tested to be the dot, and the second identifier is a prefix of what follows the dot",
	"lexLexeme/len(local(nameIdent))":                    "w is nameIdent(input), a prefix of the input (its later reassignment to the second identifier happens only on the branch that returns)",
	"nextToken/local(0)":                                 "i counts bytes of the comment while i != index, and index <= len(input) (an Index result, or len(input) when nothing was found)",
	"nextToken/local(Index)":                             "index is the smallest non-negative Index/IndexByte result, replaced by len(input) when all are negative",
	"nextToken/1#after-advance":                          "after advance(i) inside the comment loop: i < index <= len(input) when the invalid byte at i was decoded, so one more byte exists",
}

// lexerAdvanceBounded: every advance(n, …) of the lexer takes at most what is left of the input (advance slices input[:n]).
func lexerAdvanceBounded(c *Check, r *repoCtx) {
	lexFuncs := map[string]*FuncInfo{}
	for name, fi := range r.funcs {
		if strings.HasPrefix(name, "internal/tlast.") && fi.Decl.Body != nil && filepath.Base(r.co.Fset.Position(fi.Decl.Pos()).Filename) == "tllexer.go" {
			lexFuncs[fi.Obj.Name()] = fi
		}
	}
	// prefix functions: f(s string) (string, …) whose every return is s[:i], s or ""
	prefixFn := map[string]bool{}
	for name, fi := range lexFuncs {
		sig := fi.Obj.Type().(*types.Signature)
		if sig.Recv() != nil || sig.Params().Len() != 1 || sig.Results().Len() == 0 || !isStringType(sig.Params().At(0).Type()) || !isStringType(sig.Results().At(0).Type()) {
			continue
		}
		p := sig.Params().At(0)
		ok, rets := true, 0
		ast.Inspect(fi.Decl.Body, func(n ast.Node) bool {
			rt, isR := n.(*ast.ReturnStmt)
			if !isR || len(rt.Results) == 0 {
				return true
			}
			rets++
			switch e := ast.Unparen(rt.Results[0]).(type) {
			case *ast.SliceExpr:
				id, isID := e.X.(*ast.Ident)
				if !isID || fi.Pkg.TypesInfo.Uses[id] != p || e.Low != nil {
					ok = false
				}
			case *ast.Ident:
				if fi.Pkg.TypesInfo.Uses[e] != p {
					ok = false
				}
			case *ast.BasicLit:
				if e.Value != `""` {
					ok = false
				}
			default:
				ok = false
			}
			return true
		})
		if ok && rets > 0 {
			prefixFn[name] = true
		}
	}
	isAdvanceLike := func(fi *FuncInfo, call *ast.CallExpr) bool {
		fn, _ := typeutil.Callee(fi.Pkg.TypesInfo, call).(*types.Func)
		if fn == nil || fn.Pkg() != fi.Pkg.Types {
			return false
		}
		sig := fn.Type().(*types.Signature)
		if sig.Recv() == nil {
			return false
		}
		if _, isLex := lexFuncs[fn.Name()]; !isLex {
			return false
		}
		// a lexer method that may consume input; checkPrimitive returns true exactly when it consumed, and its callers return then
		return fn.Name() != "checkPrimitive"
	}
	// consumedBefore: some lexer method that may consume input can run before `at` on a path to it
	consumedBefore := func(fi *FuncInfo, at ast.Node) bool {
		found := false
		var visit func(n ast.Node)
		visit = func(n ast.Node) {
			ast.Inspect(n, func(x ast.Node) bool {
				if found || x == nil {
					return false
				}
				switch b := x.(type) {
				case *ast.FuncLit:
					return false
				case *ast.CaseClause:
					if !astContains(b, at) {
						// another case: only its guards are on the path
						for _, g := range b.List {
							visit(g)
						}
						return false
					}
				case *ast.IfStmt:
					// a branch that does not contain the site is on a path to it only when the site follows the whole
					// statement and the branch does not end in a return
					endsInReturn := func(n ast.Node) bool {
						bl, ok := n.(*ast.BlockStmt)
						if !ok || len(bl.List) == 0 {
							return false
						}
						_, isRet := bl.List[len(bl.List)-1].(*ast.ReturnStmt)
						return isRet
					}
					if b.Init != nil {
						visit(b.Init)
					}
					visit(b.Cond)
					inBody := astContains(b.Body, at)
					inElse := b.Else != nil && astContains(b.Else, at)
					if inBody || (!inElse && !endsInReturn(b.Body)) {
						visit(b.Body)
					}
					if b.Else != nil && (inElse || (!inBody && !endsInReturn(b.Else))) {
						visit(b.Else)
					}
					return false
				case *ast.CallExpr:
					if b.Pos() < at.Pos() && b != at && isAdvanceLike(fi, b) {
						found = true
					}
				}
				return true
			})
		}
		visit(fi.Decl.Body)
		return found
	}
	// non-empty input at entry: nextToken and checkPrimitive by their verified entry facts; a method all of whose calls
	// are in nextToken with nothing consumed before the call inherits it
	nonEmpty := map[string]bool{}
	for _, f := range []string{"nextToken", "checkPrimitive"} {
		fact := lexerEntryFacts[f+"/recv.str[0]"]
		callers, ctxs := lexerCallContext(r, lexFuncs, f)
		good := len(callers) > 0
		for i := range callers {
			if callers[i] != fact.onlyCaller || ctxs[i] != fact.context {
				good = false
			}
		}
		nonEmpty[f] = good
	}
	if nt := lexFuncs["nextToken"]; nt != nil && nonEmpty["nextToken"] {
		calls := map[string][]*ast.CallExpr{}
		ast.Inspect(nt.Decl.Body, func(n ast.Node) bool {
			if call, ok := n.(*ast.CallExpr); ok {
				if fn, _ := typeutil.Callee(nt.Pkg.TypesInfo, call).(*types.Func); fn != nil && fn.Pkg() == nt.Pkg.Types && lexFuncs[fn.Name()] != nil && fn.Type().(*types.Signature).Recv() != nil {
					calls[fn.Name()] = append(calls[fn.Name()], call)
				}
			}
			return true
		})
		for name, sites := range calls {
			if name == "advance" || nonEmpty[name] {
				continue
			}
			callers, _ := lexerCallContext(r, lexFuncs, name)
			only := true
			for _, cl := range callers {
				if cl != "nextToken" {
					only = false
				}
			}
			for _, s := range sites {
				if consumedBefore(nt, s) {
					only = false
				}
			}
			nonEmpty[name] = only
		}
	}
	n := 0
	for _, fname := range sortedKeys(lexFuncs) {
		fi := lexFuncs[fname]
		info := fi.Pkg.TypesInfo
		names := canonLocalNames(fi)
		inputExpr := func(e ast.Expr) bool { return canonExpr(fi, names, e) == "recv.str" }
		constStr := func(e ast.Expr) (string, bool) {
			if tv, ok := info.Types[e]; ok && tv.Value != nil && tv.Value.Kind() == constant.String {
				return constant.StringVal(tv.Value), true
			}
			return "", false
		}
		constInt := func(e ast.Expr) (int64, bool) {
			if tv, ok := info.Types[e]; ok && tv.Value != nil && tv.Value.Kind() == constant.Int {
				v, exact := constant.Int64Val(tv.Value)
				return v, exact
			}
			return 0, false
		}
		// prefixLocal: a local defined once as P(input[k:]) with P a prefix function; returns k
		prefixLocal := func(e ast.Expr) (int64, bool) {
			id, ok := ast.Unparen(e).(*ast.Ident)
			if !ok {
				return 0, false
			}
			obj := info.Uses[id]
			defs, k, good := 0, int64(0), false
			ast.Inspect(fi.Decl.Body, func(x ast.Node) bool {
				as, ok := x.(*ast.AssignStmt)
				if !ok {
					return true
				}
				for i, l := range as.Lhs {
					lid, isID := l.(*ast.Ident)
					if !isID || (info.Defs[lid] != obj && info.Uses[lid] != obj) {
						continue
					}
					defs++
					if len(as.Rhs) != 1 || (i != 0 && len(as.Lhs) == len(as.Rhs)) {
						continue
					}
					call, isC := ast.Unparen(as.Rhs[0]).(*ast.CallExpr)
					if !isC || len(call.Args) != 1 || i != 0 {
						continue
					}
					fn, _ := typeutil.Callee(info, call).(*types.Func)
					if fn == nil || !prefixFn[fn.Name()] {
						continue
					}
					arg := ast.Unparen(call.Args[0])
					if inputExpr(arg) {
						k, good = 0, true
					} else if se, isS := arg.(*ast.SliceExpr); isS && se.High == nil && inputExpr(se.X) {
						if v, ok := constInt(se.Low); ok {
							k, good = v, true
						}
					}
				}
				return true
			})
			return k, defs == 1 && good
		}
		var stack []ast.Node
		ast.Inspect(fi.Decl.Body, func(nd ast.Node) bool {
			if nd == nil {
				stack = stack[:len(stack)-1]
				return true
			}
			stack = append(stack, nd)
			call, ok := nd.(*ast.CallExpr)
			if !ok || len(call.Args) != 2 {
				return true
			}
			if fn, _ := typeutil.Callee(info, call).(*types.Func); fn == nil || fn.Name() != "advance" || fn.Pkg() != fi.Pkg.Types {
				return true
			}
			n++
			arg := ast.Unparen(call.Args[0])
			key := fname + "/" + canonExpr(fi, names, arg)
			consumed := consumedBefore(fi, call)
			// lower bound on len(input) from dominating guards
			minLen := int64(0)
			if nonEmpty[fname] {
				minLen = 1
			}
			var constGuarded []string
			for i := len(stack) - 2; i >= 0; i-- {
				var guards []ast.Expr
				switch p := stack[i].(type) {
				case *ast.CaseClause:
					inBody := false
					for _, st := range p.Body {
						if astContains(st, call) {
							inBody = true
						}
					}
					if inBody {
						guards = p.List
					}
				case *ast.IfStmt:
					if astContains(p.Body, call) {
						guards = []ast.Expr{p.Cond}
					}
				}
				for _, g := range guards {
					var conj func(e ast.Expr)
					conj = func(e ast.Expr) {
						e = ast.Unparen(e)
						if be, ok := e.(*ast.BinaryExpr); ok && be.Op == token.LAND {
							conj(be.X)
							conj(be.Y)
							return
						}
						if cl, ok := e.(*ast.CallExpr); ok && len(cl.Args) == 2 {
							if fn, _ := typeutil.Callee(info, cl).(*types.Func); fn != nil && fn.FullName() == "strings.HasPrefix" && inputExpr(cl.Args[0]) {
								if s, ok := constStr(cl.Args[1]); ok {
									minLen = max(minLen, int64(len(s)))
									constGuarded = append(constGuarded, types.ExprString(ast.Unparen(cl.Args[1])))
								}
							}
						}
						if be, ok := e.(*ast.BinaryExpr); ok && be.Op == token.EQL {
							if k, isP := prefixLocal(be.X); isP {
								if s, ok := constStr(be.Y); ok {
									minLen = max(minLen, k+int64(len(s)))
								}
							}
						}
					}
					conj(g)
				}
			}
			ok2, why := false, ""
			switch {
			case func() bool { v, isC := constInt(arg); return isC && v == 0 }():
				ok2, why = true, "takes nothing"
			case consumed:
				key += "#after-advance"
				why = "input may already have been consumed on this path"
			default:
				// constant
				if v, isC := constInt(arg); isC {
					ok2 = v <= minLen
					why = fmt.Sprintf("constant %d, input known to hold at least %d bytes here", v, minLen)
					break
				}
				// len(X), c + len(X)
				terms := []ast.Expr{arg}
				if be, isB := arg.(*ast.BinaryExpr); isB && be.Op == token.ADD {
					terms = []ast.Expr{be.X, be.Y}
				}
				base, rest := int64(0), ast.Expr(nil)
				for _, t := range terms {
					if v, isC := constInt(t); isC {
						base += v
					} else if rest == nil {
						rest = ast.Unparen(t)
					} else {
						rest = &ast.BadExpr{}
					}
				}
				if lc, isL := rest.(*ast.CallExpr); isL && len(lc.Args) == 1 {
					if id, isID := lc.Fun.(*ast.Ident); isID && id.Name == "len" {
						x := ast.Unparen(lc.Args[0])
						if k, isP := prefixLocal(x); isP && k == base && base <= minLen {
							ok2, why = true, fmt.Sprintf("%d + length of a prefix of input[%d:]; input holds at least %d bytes", base, k, minLen)
						} else if s, isS := constStr(x); isS && base == 0 && containsStr(constGuarded, types.ExprString(x)) {
							ok2, why = true, "length of the constant "+fmt.Sprintf("%q", s)+" that the input was tested to start with"
						}
					}
				}
				// loop counter: i := c; for ; i < len(input) && …; i++ {}
				if id, isID := arg.(*ast.Ident); isID && !ok2 {
					obj := info.Uses[id]
					start, defs, loops, other := int64(-1), 0, 0, 0
					ast.Inspect(fi.Decl.Body, func(x ast.Node) bool {
						switch s := x.(type) {
						case *ast.AssignStmt:
							for i, l := range s.Lhs {
								if lid, ok := l.(*ast.Ident); ok && (info.Defs[lid] == obj || info.Uses[lid] == obj) {
									if v, isC := constInt(s.Rhs[min(i, len(s.Rhs)-1)]); isC && s.Tok == token.DEFINE {
										start = v
										defs++
									} else {
										other++
									}
								}
							}
						case *ast.ForStmt:
							inc, isInc := s.Post.(*ast.IncDecStmt)
							if isInc && inc.Tok == token.INC {
								if iid, ok := inc.X.(*ast.Ident); ok && info.Uses[iid] == obj {
									// leftmost conjunct of the condition is i < len(input)
									cond := s.Cond
									for {
										be, ok := cond.(*ast.BinaryExpr)
										if !ok || be.Op != token.LAND {
											break
										}
										cond = be.X
									}
									if be, ok := cond.(*ast.BinaryExpr); ok && be.Op == token.LSS {
										if lid, ok := be.X.(*ast.Ident); ok && info.Uses[lid] == obj {
											if lc, ok := be.Y.(*ast.CallExpr); ok && len(lc.Args) == 1 && inputExpr(lc.Args[0]) {
												loops++
											}
										}
									}
								}
							}
						case *ast.IncDecStmt:
							if iid, ok := s.X.(*ast.Ident); ok && info.Uses[iid] == obj {
								other++
							}
						}
						return true
					})
					// the loop's own i++ was counted in `other`
					if defs == 1 && loops == 1 && other == 1 && start >= 0 && start <= minLen {
						ok2, why = true, fmt.Sprintf("counter starting at %d (input holds at least %d bytes) and stepping only while i < len(input)", start, minLen)
					}
				}
			}
			if !ok2 {
				if reason, listed := lexerAdvanceTriaged[key]; listed {
					ok2, why = true, "triaged: "+reason
				} else if why == "" || !consumed {
					why = orStr(why, "") + " — nothing shows that this length is within the remaining input (advance slices input[:n])"
				}
			}
			c.Ob("lexer/advance-length-within-input", key, ok2, r.pos(call.Pos()), strings.TrimSpace(why))
			return true
		})
	}
	c.Set("lexer_advance_sites", n)
	c.Floor("lexer/advance-length-within-input", 30)
}

// frontKindGuard: the consumption is dominated by `f := it.front(); if !(f.tokenType == K || f.val == "lit" …) { …; return }`
// with every K a non-eof kind and every literal non-empty (the eof token has its own kind and an empty text), the
// front token is read before the test, and nothing is consumed from it between the read and the consumption.
func frontKindGuard(info *types.Info, fi *FuncInfo, call *ast.CallExpr, recv string, eofConst func(ast.Expr) bool) (bool, string) {
	ok, desc := false, ""
	ast.Inspect(fi.Decl.Body, func(n ast.Node) bool {
		is, isIf := n.(*ast.IfStmt)
		if !isIf || ok || is.End() > call.Pos() || len(is.Body.List) == 0 {
			return true
		}
		if _, ret := is.Body.List[len(is.Body.List)-1].(*ast.ReturnStmt); !ret {
			return true
		}
		un, isNot := ast.Unparen(is.Cond).(*ast.UnaryExpr)
		if !isNot || un.Op != token.NOT {
			return true
		}
		var tokVar types.Object
		good := true
		var disj func(e ast.Expr)
		disj = func(e ast.Expr) {
			e = ast.Unparen(e)
			if be, isB := e.(*ast.BinaryExpr); isB && be.Op == token.LOR {
				disj(be.X)
				disj(be.Y)
				return
			}
			be, isB := e.(*ast.BinaryExpr)
			if !isB || be.Op != token.EQL {
				good = false
				return
			}
			sel, isSel := ast.Unparen(be.X).(*ast.SelectorExpr)
			if !isSel {
				good = false
				return
			}
			id, isID := sel.X.(*ast.Ident)
			if !isID {
				good = false
				return
			}
			if tokVar == nil {
				tokVar = info.Uses[id]
			} else if tokVar != info.Uses[id] {
				good = false
			}
			switch sel.Sel.Name {
			case "tokenType":
				if tv, isC := info.Types[be.Y]; !isC || tv.Value == nil || eofConst(be.Y) {
					good = false
				}
			case "val":
				if tv, isC := info.Types[be.Y]; !isC || tv.Value == nil || tv.Value.Kind() != constant.String || constant.StringVal(tv.Value) == "" {
					good = false
				}
			default:
				good = false
			}
		}
		disj(un.X)
		if !good || tokVar == nil {
			return true
		}
		// tokVar := recv.front() before the test, and no consumption from recv between that read and the call
		var defPos token.Pos
		ast.Inspect(fi.Decl.Body, func(x ast.Node) bool {
			as, isA := x.(*ast.AssignStmt)
			if !isA || len(as.Lhs) != 1 || len(as.Rhs) != 1 {
				return true
			}
			if id, isID := as.Lhs[0].(*ast.Ident); isID && (info.Defs[id] == tokVar || info.Uses[id] == tokVar) {
				if c, isC := as.Rhs[0].(*ast.CallExpr); isC {
					if sel, isSel := c.Fun.(*ast.SelectorExpr); isSel && sel.Sel.Name == "front" && types.ExprString(sel.X) == recv && as.End() < is.Pos() {
						defPos = as.Pos()
					}
				}
			}
			return true
		})
		if defPos == token.NoPos {
			return true
		}
		consumedBetween := false
		ast.Inspect(fi.Decl.Body, func(x ast.Node) bool {
			c, isC := x.(*ast.CallExpr)
			if !isC || c == call || c.Pos() < defPos || c.Pos() > call.Pos() {
				return true
			}
			if sel, isSel := c.Fun.(*ast.SelectorExpr); isSel && types.ExprString(sel.X) == recv {
				switch sel.Sel.Name {
				case "popFront", "expectOrPanic", "expect", "expectLazy", "skipToNewline":
					consumedBetween = true
				}
			}
			return true
		})
		if !consumedBetween {
			ok, desc = true, "dominated by a read of the front token and `if !(kind/text is one of the accepted non-eof ones) { …; return }`, with nothing consumed in between"
		}
		return true
	})
	return ok, desc
}
