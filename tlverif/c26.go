package main

import (
	"fmt"
	"go/ast"
	"go/token"
	"go/types"
	"path/filepath"
	"regexp"
	"strings"
)

func init() { register("C26", checkC26) }

func checkC26(c *Check) {
	c.Explanation = "TLO description — structural clauses of GenerateTLO (that the TLO bytes decode back is the TL1 duality of the gentlo corpus, C01; value-level equality of the description is not decided): types — every non-function combinator reaches, unconditionally, `typ.Name ^= Crc32()` and `typ.ConstructorsNum += 1` on the tls.Type registered under its type name (the only skip before them is `IsFunction → continue`), a type is created once per name with Arity = len(TypeDecl.Arguments) and ParamsType bit i set iff TemplateArguments[i].IsNat; combinators — every combinator is appended exactly once, to constructors (builtins replaced by their table entry) or to functions, with Name = Crc32(), Id = the constructor name and TypeName = the Name of the tls.Type looked up by result/declared type name; the schema counts are the lengths of the three lists."
	c.NotCovered = "equality of the decoded TLO with the schema for all schemas; argument/expression trees of fields (typeRefToTypeExpr and friends); the id-collision error path"
	c.Trusted = []string{"go/types"}
	r := loadRepoFuncs(c, "./internal/tlast")
	if r == nil {
		return
	}
	ir := r.ir("internal/tlast.TL.GenerateTLO")
	if ir == nil {
		return
	}
	pos := r.pos(ir.Info.Decl.Pos())
	var loops []*LoopN
	for _, n := range ir.Body {
		if l, ok := n.(*LoopN); ok && l.Kind == "range" && strings.HasSuffix(l.Over, ".Combinators()") {
			loops = append(loops, l)
		}
	}
	if len(loops) != 3 {
		c.Undecided("tlo/shape", "TL.GenerateTLO", pos, fmt.Sprintf("expected three passes over the combinators (index, types, combinators), found %d", len(loops)))
		return
	}
	// ---- types pass
	tl := loops[1]
	elem := tl.Over + "[*]"
	txt := flatText(blockText(tl.Body))
	firstSkip := false
	if in, ok := tl.Body[0].(*IfN); ok && in.Cond.String() == elem+".IsFunction" && len(in.Then) == 1 {
		if b, ok := in.Then[0].(*BranchN); ok && b.Tok.String() == "continue" {
			firstSkip = true
		}
	}
	otherSkips := 0
	walkBlock(tl.Body[1:], nil, func(n Node, _ []Guard) {
		switch n := n.(type) {
		case *BranchN:
			otherSkips++
		case *ReturnN:
			_ = n
			otherSkips++
		}
	})
	// the accumulating statements are top-level statements of the loop body on the looked-up type
	var typLocal string
	xorOK, cntOK := false, false
	for _, n := range tl.Body {
		as, ok := n.(*AssignN)
		if !ok || len(as.LHS) != 1 || len(as.RHS) != 1 {
			continue
		}
		if m := regexp.MustCompile(`^(L\d+:\w+) := L\d+:\w+\[(L\d+:\w+)\]$`).FindStringSubmatch(as.LHS[0] + " " + as.Tok.String() + " " + as.RHS[0]); m != nil {
			typLocal = m[1]
		}
		if typLocal != "" && as.LHS[0] == typLocal+".Name" && as.Tok.String() == "^=" && as.RHS[0] == elem+".Crc32()" {
			xorOK = true
		}
		if typLocal != "" && as.LHS[0] == typLocal+".ConstructorsNum" && as.Tok.String() == "+=" && as.RHS[0] == "#1" {
			cntOK = true
		}
	}
	c.Ob("tlo/type-name-is-xor-of-constructor-tags", "TL.GenerateTLO/types", firstSkip && otherSkips == 0 && xorOK, r.pos(tl.Pos), fmt.Sprintf("only functions are skipped (%v, other exits in the pass: %d); every constructor executes typ.Name ^= Crc32() at the top level of the pass: %v", firstSkip, otherSkips, xorOK))
	c.Ob("tlo/constructor-count", "TL.GenerateTLO/types", firstSkip && otherSkips == 0 && cntOK, r.pos(tl.Pos), "every constructor executes typ.ConstructorsNum += 1 at the top level of the pass")
	arity := regexp.MustCompile(`assign \$ := lit:Type\{Name:#0,Id:\$,Arity:len\(` + regexp.QuoteMeta(elem) + `\.TypeDecl\.Arguments\)\}`).MatchString(localNameRx.ReplaceAllString(txt, "$$"))
	params := strings.Contains(localNameRx.ReplaceAllString(txt, "$$"), "loop range over="+elem+".TemplateArguments count=false cond=<nil>\nif "+elem+".TemplateArguments[*].IsNat\nassign $.ParamsType |= (#1 << *)\n")
	once := regexp.MustCompile(`assign _,(L\d+:\w+) := (L\d+:\w+)\[(L\d+:\w+)\]\nif !(L\d+:\w+)\n`).FindStringSubmatch(txt)
	onceOK := once != nil && once[1] == once[4] && strings.Contains(txt, "assign "+once[2]+"["+once[3]+"] = ")
	c.Ob("tlo/type-created-once-with-arity-and-kinds", "TL.GenerateTLO/types", arity && params && onceOK, r.pos(tl.Pos), fmt.Sprintf("created under `!found` by type name: %v; Arity = len(TypeDecl.Arguments): %v; ParamsType bit i iff TemplateArguments[i].IsNat: %v", onceOK, arity, params))
	// ---- combinators pass
	cl := loops[2]
	elem = cl.Over + "[*]"
	ctxt := localNameRx.ReplaceAllString(flatText(blockText(cl.Body)), "$$")
	builtin := strings.HasPrefix(ctxt, "assign $,$ := G:builtinCombinators["+elem+".Construct.Name.String()]\nif $\ncall append recv=($, $) -> [$]\ncontinue\n")
	lit := regexp.MustCompile(`lit:CombinatorV4\{Name:` + regexp.QuoteMeta(elem) + `\.Crc32\(\),Id:\$,TypeName:\$,Left:\$,Right:lit:CombinatorRight\{Value:\$\},Flags:modifierToFlag\(` + regexp.QuoteMeta(elem) + `\.Modifiers\)\}`).MatchString(ctxt)
	tail := strings.HasSuffix(ctxt, "if "+elem+".IsFunction\ncall append recv=($, $) -> [$]\nelse\ncall append recv=($, $) -> [$]\n")
	idName := strings.Contains(ctxt, "call Name.String recv="+elem+".Construct.Name() -> [$]\n")
	typeName := strings.Contains(ctxt, "assign $,$ := $["+elem+".FuncDecl.Type.String()]\nif $\nassign $ = $.Name\n") && strings.Contains(ctxt, "assign $,$ := $["+elem+".TypeDecl.Name.String()]\nif $\nassign $ = $.Name\n")
	skips := 0
	walkBlock(cl.Body, nil, func(n Node, _ []Guard) {
		if b, ok := n.(*BranchN); ok && (b.Tok.String() == "continue" || b.Tok.String() == "break") {
			skips++
		}
	})
	c.Ob("tlo/every-combinator-listed-once", "TL.GenerateTLO/combinators", builtin && tail && skips == 1, r.pos(cl.Pos), fmt.Sprintf("builtin names are replaced by their table entry and skipped: %v; every other combinator is appended exactly once at the end of the pass (functions / constructors): %v; skips in the pass: %d", builtin, tail, skips))
	c.Ob("tlo/combinator-tag-name-type", "TL.GenerateTLO/combinators", lit && idName && typeName, r.pos(cl.Pos), fmt.Sprintf("Name = Crc32(), Flags from the modifiers: %v; Id = Construct.Name: %v; TypeName = Name of the tls.Type found by result/declared type name: %v", lit, idName, typeName))
	// variable references: a TLO argument introduces variable number `index` (template arguments and `#` fields are
	// numbered separately from positions in the argument list); every VarNum / ExistVarNum written anywhere in the TLO
	// generator is such a variable number (a scope entry's index / absoluteIndex, or the loop index over template
	// arguments), never a position in the field list
	{
		nVar, bad := 0, ""
		for _, name := range sortedKeys(r.funcs) {
			fi := r.funcs[name]
			if fi.Decl.Body == nil || filepath.Base(r.co.Fset.Position(fi.Decl.Pos()).Filename) != "tlgen_tlo.go" {
				continue
			}
			info := fi.Pkg.TypesInfo
			judge := func(field string, v ast.Expr, at token.Pos) {
				if field != "VarNum" && field != "ExistVarNum" {
					return
				}
				nVar++
				e := ast.Unparen(v)
				if call, ok := e.(*ast.CallExpr); ok && len(call.Args) == 1 { // int32(x)
					e = ast.Unparen(call.Args[0])
				}
				ok := false
				switch x := e.(type) {
				case *ast.BasicLit:
					ok = true
				case *ast.Ident:
					_, isVar := info.Uses[x].(*types.Var)
					ok = isVar
				case *ast.SelectorExpr:
					ok = x.Sel.Name == "index" || x.Sel.Name == "absoluteIndex"
				}
				if !ok && bad == "" {
					bad = r.pos(at) + ": " + field + " = " + types.ExprString(v)
				}
			}
			ast.Inspect(fi.Decl.Body, func(n ast.Node) bool {
				switch n := n.(type) {
				case *ast.KeyValueExpr:
					if id, ok := n.Key.(*ast.Ident); ok {
						judge(id.Name, n.Value, n.Pos())
					}
				case *ast.AssignStmt:
					for i, l := range n.Lhs {
						if sel, ok := l.(*ast.SelectorExpr); ok && i < len(n.Rhs) {
							judge(sel.Sel.Name, n.Rhs[i], n.Pos())
						}
					}
				}
				return true
			})
		}
		c.Ob("tlo/variable-references-use-variable-numbers", "tlgen_tlo.go", nVar >= 8 && bad == "", pos, fmt.Sprintf("%d VarNum/ExistVarNum values; first that is not a variable number: %s", nVar, orStr(bad, "—")))
	}
	all := localNameRx.ReplaceAllString(flatText(blockText(ir.Body)), "$$")
	counts := strings.Contains(all, "TypesNum:len($),Types:$,ConstructorNum:len($),Constructors:$,FunctionsNum:len($),Functions:$")
	c.Ob("tlo/counts-are-list-lengths", "TL.GenerateTLO", counts, pos, "TypesNum/ConstructorNum/FunctionsNum are the lengths of the lists they precede")
}
