package main

// A deliberately small, independent scanner for TL1 schema text: it extracts, per combinator statement,
// the leading @annotations, the constructor name, an explicit #tag and whether it is a function (`=>`).
// It is an oracle for "the registry matches the schema" that does not go through the repository's parser.

import (
	"os"
	"path/filepath"
	"strings"
)

type tlField struct {
	Name string
	Expr string
}

type tlDecl struct {
	Fields      []tlField
	Name        string
	Tag         string // lower-case hex without '#', "" when implicit
	Annotations []string
	IsFunction  bool
	File        string
}

func stripTLComments(s string) string {
	var sb strings.Builder
	for i := 0; i < len(s); {
		if strings.HasPrefix(s[i:], "//") {
			for i < len(s) && s[i] != '\n' {
				i++
			}
			continue
		}
		if strings.HasPrefix(s[i:], "/*") {
			j := strings.Index(s[i+2:], "*/")
			if j < 0 {
				break
			}
			i += j + 4
			sb.WriteByte(' ')
			continue
		}
		sb.WriteByte(s[i])
		i++
	}
	return sb.String()
}

func scanTL1(path string) ([]tlDecl, error) {
	b, err := os.ReadFile(path)
	if err != nil {
		return nil, err
	}
	text := stripTLComments(string(b))
	var out []tlDecl
	inFunctions := false
	for _, st := range strings.Split(text, ";") {
		toks := strings.Fields(st)
		var d tlDecl
		d.File = filepath.Base(path)
		i := 0
		for i < len(toks) {
			t := toks[i]
			if strings.HasPrefix(t, "---") {
				inFunctions = strings.Contains(t, "functions")
				if !strings.HasSuffix(t, "---") || len(t) <= 3 {
					// "--- functions ---" spelled with spaces
					for i+1 < len(toks) && !strings.HasSuffix(toks[i], "---") {
						i++
						if strings.Contains(toks[i], "functions") {
							inFunctions = true
						}
						if strings.Contains(toks[i], "types") {
							inFunctions = false
						}
					}
				} else if strings.Contains(t, "types") {
					inFunctions = false
				}
				i++
				continue
			}
			if strings.HasPrefix(t, "@") {
				d.Annotations = append(d.Annotations, strings.TrimPrefix(t, "@"))
				i++
				continue
			}
			break
		}
		if i >= len(toks) {
			continue
		}
		name := toks[i]
		if j := strings.IndexByte(name, '#'); j >= 0 {
			d.Tag = strings.ToLower(name[j+1:])
			name = name[:j]
		}
		d.Name = name
		d.IsFunction = inFunctions
		for _, t := range toks[i:] {
			if t == "=>" {
				d.IsFunction = true
			}
		}
		d.Fields = scanFields(st)
		out = append(out, d)
	}
	return out, nil
}

// splitTop splits on white space outside of (), [], {} and <>.
func splitTop(s string) []string {
	var out []string
	depth := 0
	cur := strings.Builder{}
	flush := func() {
		if cur.Len() > 0 {
			out = append(out, cur.String())
			cur.Reset()
		}
	}
	for _, ch := range s {
		switch ch {
		case '(', '[', '{', '<':
			depth++
		case ')', ']', '}', '>':
			if depth > 0 {
				depth--
			}
		}
		if depth == 0 && (ch == ' ' || ch == '\t' || ch == '\n' || ch == '\r') {
			flush()
			continue
		}
		cur.WriteRune(ch)
	}
	flush()
	return out
}

// scanFields returns the named fields `name:expr` of a TL1 combinator statement (left of `=` / `=>`).
func scanFields(st string) []tlField {
	st = strings.ReplaceAll(st, "=>", " => ")
	var out []tlField
	toks := splitTop(st)
	seenName := false
	for _, t := range toks {
		if strings.HasPrefix(t, "@") || strings.HasPrefix(t, "---") {
			continue
		}
		if t == "=" || t == "=>" {
			break
		}
		if !seenName {
			seenName = true
			continue
		}
		if strings.HasPrefix(t, "{") {
			continue // template parameter
		}
		if i := strings.IndexByte(t, ':'); i > 0 && !strings.ContainsAny(t[:i], "([<") {
			out = append(out, tlField{Name: t[:i], Expr: t[i+1:]})
		}
	}
	return out
}

// tl2Decl is one declaration of a TL2 schema file, as far as an independent scan of the text can tell.
type tl2Decl struct {
	Name        string
	Tag         string
	Annotations []string
	IsFunction  bool
	IsAlias     bool
	HasTemplate bool
	File        string
}

// scanTL2 lists the declarations of a .tl2 file: `[@anno…] name[<params>][#magic] (= | <=> | fields… =>) … ;`
func scanTL2(path string) ([]tl2Decl, error) {
	b, err := os.ReadFile(path)
	if err != nil {
		return nil, err
	}
	text := stripTLComments(string(b))
	var out []tl2Decl
	for _, st := range strings.Split(text, ";") {
		toks := strings.Fields(st)
		d := tl2Decl{File: filepath.Base(path)}
		i := 0
		for i < len(toks) && strings.HasPrefix(toks[i], "@") {
			d.Annotations = append(d.Annotations, strings.TrimPrefix(toks[i], "@"))
			i++
		}
		if i >= len(toks) {
			continue
		}
		name := toks[i]
		if k := strings.IndexByte(name, '<'); k >= 0 {
			d.HasTemplate = true
			name = name[:k]
		}
		if k := strings.IndexByte(name, '#'); k >= 0 {
			d.Tag = strings.ToLower(name[k+1:])
			name = name[:k]
		}
		// `name <params>` written with a space
		if i+1 < len(toks) && strings.HasPrefix(toks[i+1], "<") && toks[i+1] != "<=>" {
			d.HasTemplate = true
		}
		d.Name = name
		for _, t := range toks[i+1:] {
			switch t {
			case "=>":
				d.IsFunction = true
			case "<=>":
				d.IsAlias = true
			}
		}
		if d.Name != "" {
			out = append(out, d)
		}
	}
	return out, nil
}
