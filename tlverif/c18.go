package main

import (
	"fmt"
	"go/printer"
	"go/types"
	"regexp"
	"sort"
	"strconv"
	"strings"
)

func init() { register("C18", checkC18) }

type frEdge struct {
	From, To *types.Func
	Gated    bool // control-dependent on a random draw that is 0 at the depth limit
	Coin     bool // control-dependent on a draw that is not depth-limited (RandomInt…): probabilistic exit only
	Deeper   bool // between IncreaseDepth and DecreaseDepth
	Pos      string
	Why      string
}

var randSrcRx = regexp.MustCompile(`basictl\.(RandomUint|RandomFieldMask|RandomSize)\b|RandomUint\(|RandomFieldMask\(|RandomSize\(`)
var coinSrcRx = regexp.MustCompile(`Random(Int|Long|Byte|Uint64)\(`)

func checkC18(c *Check) {
	c.Explanation = "Random filling, decided on every generated FillRandom (and Builtin…FillRandom) of the corpora generated with --generateRandomCode and on basictl: (1) termination — on the call graph of FillRandom functions, every cycle contains a call that is gated by a random draw which is 0 at the depth limit (a field-mask bit of a value from RandomFieldMask/RandomUint, a loop over a RandomSize count, a union arm other than arm 0 of `RandomUint % N`) and a call bracketed by IncreaseDepth/DecreaseDepth; arm 0 of a union is what is chosen at the limit and therefore never counts as gated; in basictl RandomUint returns 0 once curDepth >= maxDepth, RandomFieldMask and RandomSize derive from it, IncreaseDepth/DecreaseDepth are exact inverses (no saturation on one side only) and maxDepth >= 2; (2) Increase/DecreaseDepth are paired in each function; (3) validity — nat-sized collections are made with exactly their nat parameter and every mask comes from RandomFieldMask with a constant set of used bits (the tie to readers/writers is C04's presence table); (4) reproducibility — FillRandom functions call only other FillRandom/Reset functions, basictl's Random*/depth functions and builtins, never iterate over a map, and basictl's Random* draw only from the generator's own source (no time, global rand or crypto/rand)."
	c.NotCovered = "that every writer accepts every generated value beyond clauses (3) and C04; the distribution of values"
	c.Trusted = []string{"go/types", "math/rand.Rand determinism for a fixed source"}
	cycles := 0
	withCorpora(c, true, func(g *genCtx) {
		if !g.co.Spec.Random && !g.co.InRepo {
			return
		}
		co := g.co.Spec.Name
		isFR := func(fn *types.Func) bool {
			return fn != nil && strings.HasSuffix(fn.Name(), "FillRandom") && g.funcs[fn] != nil
		}
		type frFunc struct {
			fn     *types.Func
			fi     *FuncInfo
			ir     *FuncIR
			drawn  map[string]bool // locals/fields holding a depth-limited draw
			params []string        // canonical parameter names in declaration order
		}
		var frs []*frFunc
		byFn := map[*types.Func]*frFunc{}
		for fn, fi := range g.funcs {
			if !isFR(fn) || fi.Decl.Body == nil || isMetaPkg(fi.Pkg.Name) {
				continue
			}
			f := &frFunc{fn: fn, fi: fi, ir: g.ir(fi), drawn: map[string]bool{}}
			for _, fl := range fi.Decl.Type.Params.List {
				for _, nm := range fl.Names {
					cn := nm.Name
					if strings.HasPrefix(cn, "nat_") {
						cn = "nat:" + strings.TrimPrefix(cn, "nat_")
					}
					f.params = append(f.params, cn)
				}
			}
			walkBlock(f.ir.Body, nil, func(n Node, _ []Guard) {
				switch n := n.(type) {
				case *CallN:
					if n.Fn != nil && isBasictl(n.Fn.Pkg()) {
						switch n.Fn.Name() {
						case "RandomUint", "RandomFieldMask", "RandomSize":
							for _, r := range n.Results {
								f.drawn[r] = true
							}
						}
					}
				case *AssignN:
					for i, l := range n.LHS {
						if i < len(n.RHS) && randSrcRx.MatchString(n.RHS[i]) {
							f.drawn[l] = true
						}
					}
				}
			})
			frs = append(frs, f)
			byFn[fn] = f
		}
		sort.Slice(frs, func(i, j int) bool { return frs[i].fn.FullName() < frs[j].fn.FullName() })
		isDrawn := func(f *frFunc, expr string) bool {
			if randSrcRx.MatchString(expr) {
				return true
			}
			for d := range f.drawn {
				if strings.Contains(expr, d) {
					return true
				}
			}
			return false
		}
		// strongly connected components of the plain call graph
		plain := map[*types.Func][]*frEdge{}
		allNodes := map[*types.Func]bool{}
		for _, f := range frs {
			allNodes[f.fn] = true
			walkBlock(f.ir.Body, nil, func(n Node, _ []Guard) {
				if cn, ok := n.(*CallN); ok && isFR(cn.Fn) && byFn[cn.Fn] != nil {
					plain[f.fn] = append(plain[f.fn], &frEdge{From: f.fn, To: cn.Fn, Pos: posStr(g.co.Fset, cn.Pos)})
				}
			})
		}
		comp := map[*types.Func]int{}
		for i, scc := range frCycles(allNodes, plain) {
			for _, e := range scc {
				comp[e.From] = i + 1
			}
		}
		// nat parameters that receive a drawn value at every call site made from inside the same recursive
		// component (what matters for every lap after the first; the entry call's argument is finite)
		for round := 0; round < 3; round++ {
			seen := map[*types.Func]map[int][]bool{}
			for _, f := range frs {
				walkBlock(f.ir.Body, nil, func(n Node, _ []Guard) {
					cn, ok := n.(*CallN)
					if !ok || !isFR(cn.Fn) || byFn[cn.Fn] == nil || comp[f.fn] == 0 || comp[f.fn] != comp[cn.Fn] {
						return
					}
					if seen[cn.Fn] == nil {
						seen[cn.Fn] = map[int][]bool{}
					}
					for i, a := range cn.Args {
						seen[cn.Fn][i] = append(seen[cn.Fn][i], isDrawn(f, a))
					}
				})
			}
			for fn, m := range seen {
				callee := byFn[fn]
				for i, vs := range m {
					all := len(vs) > 0
					for _, v := range vs {
						if !v {
							all = false
						}
					}
					if all && i < len(callee.params) && strings.HasPrefix(callee.params[i], "nat:") {
						callee.drawn[callee.params[i]] = true
					}
				}
			}
		}
		var edges []*frEdge
		nodes := map[*types.Func]bool{}
		for _, f := range frs {
			fn, fi, ir := f.fn, f.fi, f.ir
			nodes[fn] = true
			name := co + ":" + fi.Name()
			body := blockText(ir.Body)
			var visit func(b Block, limit, coin bool, why string, deeper bool)
			visit = func(b Block, limit, coin bool, why string, deeper bool) {
				for _, n := range b {
					switch n := n.(type) {
					case *CallN:
						if n.Fn != nil && isBasictl(n.Fn.Pkg()) {
							switch n.Fn.Name() {
							case "IncreaseDepth":
								deeper = true
							case "DecreaseDepth":
								deeper = false
							}
						}
						if isFR(n.Fn) {
							edges = append(edges, &frEdge{From: fn, To: n.Fn, Gated: limit, Coin: coin, Deeper: deeper, Pos: posStr(g.co.Fset, n.Pos), Why: why})
							// a recursive (pointer) destination must be allocated before it is filled
							if n.RecvExpr != nil {
								if tv, ok := fi.Pkg.TypesInfo.Types[n.RecvExpr]; ok {
									if _, isPtr := tv.Type.Underlying().(*types.Pointer); isPtr && strings.HasPrefix(n.Recv, "item.") {
										alloc := regexp.MustCompile(`if !\(` + regexp.QuoteMeta(n.Recv) + ` != nil\)\n\s+assign ` + regexp.QuoteMeta(n.Recv) + ` = new\(`).MatchString(body)
										c.Ob("random/pointer-field-allocated-before-fill", name+"/"+n.Recv, alloc, posStr(g.co.Fset, n.Pos), n.Recv+" is a pointer (recursive field): FillRandom is called through it only after `if "+n.Recv+" == nil { "+n.Recv+" = new(…) }`")
									}
								}
							}
						}
						okCallee := n.Fn == nil && (n.Builtin == "make" || n.Builtin == "new" || n.Builtin == "append" || n.Builtin == "len" || n.Builtin == "cap" || n.Builtin == "clear") ||
							n.Fn != nil && (isFR(n.Fn) || g.funcs[n.Fn] != nil && (strings.HasSuffix(n.Fn.Name(), "Reset") || strings.HasPrefix(n.Fn.Name(), "Set") || strings.HasPrefix(n.Fn.Name(), "Clear")) ||
								isBasictl(n.Fn.Pkg()) && (strings.HasPrefix(n.Fn.Name(), "Random") || n.Fn.Name() == "IncreaseDepth" || n.Fn.Name() == "DecreaseDepth" || n.Fn.Name() == "LimitValue"))
						if !okCallee {
							nm := n.Builtin
							if n.Fn != nil {
								nm = n.Fn.FullName()
							}
							c.Ob("random/only-generator-draws", name+"/"+nm, false, posStr(g.co.Fset, n.Pos), "FillRandom calls "+nm+": only FillRandom/Reset, basictl.Random*/depth functions and builtins are allowed (same seed → same value)")
						}
					case *IfN:
						cond := n.Cond.String()
						l2, c2, w2 := limit, coin, why
						if n.Cond.Kind == "bit" || n.Cond.Kind == "nz" {
							if isDrawn(f, cond) {
								l2, w2 = true, "under "+cond
							} else if coinSrcRx.MatchString(cond) {
								c2, w2 = true, "under coin "+cond
							}
						}
						visit(n.Then, l2, c2, w2, deeper)
						visit(n.Else, limit, coin, why, deeper)
					case *LoopN:
						l2, w2 := limit, why
						if n.Over != "" && isDrawn(f, n.Over) {
							l2, w2 = true, "loop over "+n.Over
						}
						if !l2 && n.Kind == "range" {
							for d := range f.drawn {
								if strings.Contains(body, "assign "+n.Over+" = make(") && regexp.MustCompile(`assign `+regexp.QuoteMeta(n.Over)+` = make\(T:[^\n]*, `+regexp.QuoteMeta(d)+`\)`).MatchString(body) {
									l2, w2 = true, "range over "+n.Over+" made with drawn size "+d
								}
							}
						}
						if strings.Contains(n.Over, "key(") {
							c.Ob("random/no-map-iteration", name, false, posStr(g.co.Fset, n.Pos), "FillRandom iterates over a map: iteration order would change the draw order")
						}
						visit(n.Body, l2, coin, w2, deeper)
					case *SwitchN:
						drawnTag := isDrawn(f, n.Tag)
						for _, cs := range n.Cases {
							l2, w2 := limit, why
							if drawnTag && !cs.Default && len(cs.Vals) == 1 && cs.Vals[0] != "#0" {
								l2, w2 = true, "union arm "+cs.Vals[0]+" of a drawn index (not chosen at the depth limit)"
							}
							visit(cs.Body, l2, coin, w2, deeper)
						}
					}
				}
			}
			visit(ir.Body, false, false, "", false)
			c.Ob("random/only-generator-draws", name, true, posStr(g.co.Fset, fi.Decl.Pos()), "callee set scanned")
			inc, dec := strings.Count(body, "IncreaseDepth"), strings.Count(body, "DecreaseDepth")
			if inc+dec > 0 {
				paired := inc == dec && depthPaired(ir.Body)
				c.Ob("random/depth-bracket-paired", name, paired, posStr(g.co.Fset, fi.Decl.Pos()), fmt.Sprintf("IncreaseDepth ×%d, DecreaseDepth ×%d, each bracket closed in the block that opened it with no return in between=%v", inc, dec, paired))
			}
			for _, m := range regexp.MustCompile(`assign (\w+) = make\(T:\[\][^,]+, ([^)]+)\)`).FindAllStringSubmatch(body, -1) {
				if strings.HasPrefix(m[2], "nat:") || f.drawn[m[2]] {
					continue
				}
				c.Ob("random/collection-size-source", name+"/"+m[2], false, posStr(g.co.Fset, fi.Decl.Pos()), "a random collection is sized by "+m[2]+": must be the nat parameter (tuples) or a RandomSize draw (vectors)")
			}
			for _, m := range regexp.MustCompile(`call basictl\.RandomFieldMask recv=\(ctx:RandGenerator, ([^)]+)\)`).FindAllStringSubmatch(body, -1) {
				c.Ob("random/mask-from-used-bits", name+"/"+m[1], strings.HasPrefix(m[1], "#"), posStr(g.co.Fset, fi.Decl.Pos()), "RandomFieldMask is given the constant set of used bits "+m[1])
			}
		}
		// termination per strongly connected component
		restrict := func(keep func(e *frEdge) bool) map[*types.Func][]*frEdge {
			adj := map[*types.Func][]*frEdge{}
			for _, e := range edges {
				if keep(e) {
					adj[e.From] = append(adj[e.From], e)
				}
			}
			return adj
		}
		sccName := func(es []*frEdge) string {
			set := map[string]bool{}
			for _, e := range es {
				set[funcDisplayName(e.From)] = true
			}
			return strings.Join(keysOf(set), ",")
		}
		all := frCycles(nodes, restrict(func(*frEdge) bool { return true }))
		for _, scc := range all {
			nm := sccName(scc)
			in := map[*types.Func]bool{}
			for _, e := range scc {
				in[e.From] = true
			}
			sub := func(keep func(e *frEdge) bool) bool { // does a cycle survive inside this SCC?
				adj := map[*types.Func][]*frEdge{}
				for _, e := range scc {
					if keep(e) {
						adj[e.From] = append(adj[e.From], e)
					}
				}
				return len(frCycles(in, adj)) > 0
			}
			cycles++
			if sub(func(e *frEdge) bool { return !e.Gated && !e.Coin }) {
				var ex *frEdge
				for _, e := range scc {
					if !e.Gated && !e.Coin {
						ex = e
					}
				}
				c.Ob("random/recursion-has-exit", nm, false, ex.Pos, "["+co+"] "+"cycle "+nm+" can be traversed through calls that no random draw switches off (unconditional calls, or arm 0 of a union, which is what a zero draw at the depth limit selects): once entered at the depth limit it never returns")
				continue
			}
			bounded := !sub(func(e *frEdge) bool { return !e.Gated }) && !sub(func(e *frEdge) bool { return !e.Deeper })
			if bounded {
				c.Ob("random/recursion-has-exit", nm, true, scc[0].Pos, "["+co+"] "+"every cycle has a call closed at the depth limit and a call that increases the depth: recursion depth is bounded by maxDepth")
				continue
			}
			// probabilistic exit only: the number of gated recursive calls one activation can make bounds the mean offspring (each at most 1/2)
			per := map[*types.Func]int{}
			m := 0
			for _, e := range scc {
				per[e.From]++
				if per[e.From] > m {
					m = per[e.From]
				}
			}
			c.Ob("random/recursion-has-exit", nm, m <= 2, scc[0].Pos, "["+co+"] "+fmt.Sprintf("cycle %s is left only by coin flips that are not switched off at the depth limit (or is not depth-bracketed); one activation makes up to %d recursive calls, each with probability about 1/2: mean offspring %.1f — above 1 the recursion does not terminate with positive probability", nm, m, float64(m)/2))
		}
		natArgAgreement(c, g, "random/nat-arguments-as-in-writer", "WriteTL1", []string{"FillRandom", "RepairMasks"})
		c.Ob("random/recursion-has-exit", co+":call-graph", true, "", fmt.Sprintf("%d FillRandom functions, %d call edges, %d recursive components", len(nodes), len(edges), len(all)))
	})
	// basictl
	for _, b := range loadBasictl(c) {
		maxF, curF := "", ""
		if ir := b.ir("RandomUint"); ir != nil {
			t := irText(ir)
			// the two counters are identified by their roles here (limit <= current → 0), not by their names
			if m := regexp.MustCompile(`^if \(ctx:RandGenerator\.(\w+) <= ctx:RandGenerator\.(\w+)\)\n  return #0\n`).FindStringSubmatch(t); m != nil && m[1] != m[2] {
				maxF, curF = m[1], m[2]
			}
			b.ob("random/zero-at-depth-limit", "RandomUint", maxF != "", "returns 0 first thing once the depth counter has reached the depth limit (fields: limit="+maxF+" counter="+curF+")")
		} else {
			continue
		}
		if maxF == "" {
			continue
		}
		if ir := b.ir("RandomSize"); ir != nil {
			t := irText(ir)
			b.ob("random/zero-at-depth-limit", "RandomSize", strings.Contains(t, "SizeHandler recv=(ctx:RandGenerator.LimitValue(RandomUint(ctx:RandGenerator)))"), "size = SizeHandler(LimitValue(RandomUint())): 0 at the limit with the default handler")
		}
		if ir := b.ir("RandomFieldMask"); ir != nil {
			t := irText(ir)
			ok := strings.Contains(t, "call basictl.RandomUint recv=(ctx:RandGenerator) -> [$]") && strings.Contains(t, "if nz(($ & (#1 << $)))\n      assign $ |= (#1 << *)") && strings.Contains(t, "FieldMaskHandler recv=($, val)")
			b.ob("random/zero-at-depth-limit", "RandomFieldMask", ok, "bits are copied from a RandomUint draw into the used positions only: a zero draw gives a zero mask")
		}
		if fi := b.byName["NewRandGenerator"]; fi != nil {
			t := irText(b.ir("NewRandGenerator"))
			okDepth := strings.Contains(t, curF+":#0")
			if m := regexp.MustCompile(regexp.QuoteMeta(maxF) + `:(?:\(\(dyn:ctx:Rand\.Uint32\(\) % #\d+\) \+ )?#(\d+)\)?[,}]`).FindStringSubmatch(t); m != nil {
				lo, _ := strconv.Atoi(m[1])
				okDepth = okDepth && lo >= 1
			} else {
				okDepth = false
			}
			src := nodeSrc(fi)
			m1 := regexp.MustCompile(`SizeHandler:\s+func\((\w+) uint32\) uint32 \{\s*return (\w+)\s*\}`).FindStringSubmatch(src)
			m2 := regexp.MustCompile(`FieldMaskHandler:\s+func\((\w+) uint32, \w+ uint32\) uint32 \{\s*return (\w+)\s*\}`).FindStringSubmatch(src)
			okHandlers := m1 != nil && m1[1] == m1[2] && m2 != nil && m2[1] == m2[2]
			b.ob("random/depth-limit-positive", "NewRandGenerator", okDepth, "the depth limit is a constant >= 1 or (draw % k) + constant >= 1, the counter starts at 0")
			b.ob("random/zero-at-depth-limit", "NewRandGenerator/default-handlers", okHandlers, "the default size and field-mask handlers are the identity (a zero draw stays zero)")
		}
		// the depth bracket is balanced: IncreaseDepth adds one unconditionally and DecreaseDepth takes one back (a guard
		// against zero is harmless because brackets are paired). A counter that saturates on the way up but not on the
		// way down drops below the real depth after a bracket entered at the limit, and the limit no longer holds.
		incT, decT := "", ""
		for _, m := range b.co.allFuncs() {
			if m.Pkg.PkgPath != "github.com/VKCOM/tl/"+b.pkg {
				continue
			}
			switch m.Name() {
			case "RandGenerator.IncreaseDepth":
				incT = irText(buildFuncIR(m, b.funcs, b.co.Fset))
			case "RandGenerator.DecreaseDepth":
				decT = irText(buildFuncIR(m, b.funcs, b.co.Fset))
			}
		}
		cf := regexp.QuoteMeta(curF)
		incOK := incT == "assign item."+curF+" += #1\n" || incT == "assign item."+curF+" ++ \n"
		decOK := regexp.MustCompile(`^(if (nz\(item\.` + cf + `\)|\(item\.` + cf + ` != #0\)|\(#0 < item\.` + cf + `\))\n  )?assign item\.` + cf + ` (-= #1|-- )\n$`).MatchString(decT)
		b.ob("random/depth-bracket-balanced", "RandGenerator.IncreaseDepth/DecreaseDepth", incOK && decOK, fmt.Sprintf("IncreaseDepth adds one unconditionally: %v; DecreaseDepth takes one back (optionally guarded against zero): %v", incOK, decOK))
		// draws come only from the generator's source
		for name, fi := range b.byName {
			if !strings.HasPrefix(name, "Random") {
				continue
			}
			bad := ""
			walkBlock(b.ir(name).Body, nil, func(n Node, _ []Guard) {
				cn, ok := n.(*CallN)
				if !ok || cn.Fn == nil || cn.Fn.Pkg() == nil {
					return
				}
				switch cn.Fn.Pkg().Path() {
				case "time", "crypto/rand", "os":
					bad = cn.Fn.FullName()
				case "math/rand", "math/rand/v2":
					if cn.Fn.Type().(*types.Signature).Recv() == nil {
						bad = cn.Fn.FullName() + " (global source)"
					}
				}
			})
			_ = fi
			b.ob("random/only-generator-draws", name, bad == "", "draws only through rg.r / other Random* functions: "+orStr(bad, "ok"))
		}
	}
	c.Set("ungated_or_unbracketed_cycles", cycles)
	c.Floor("random/nat-arguments-as-in-writer", 50)
	c.Floor("random/only-generator-draws", 200)
	c.Floor("random/depth-bracket-paired", 30)
	c.Floor("random/mask-from-used-bits", 20)
	c.Floor("random/zero-at-depth-limit", 4)
}

func nodeSrc(fi *FuncInfo) string {
	var sb strings.Builder
	_ = printer.Fprint(&sb, fi.Pkg.Fset, fi.Decl)
	return sb.String()
}

// depthPaired: in every block, each IncreaseDepth is followed in the same block by a DecreaseDepth with
// no return statement between them (at any nesting depth).
func depthPaired(b Block) bool {
	ok := true
	var visit func(b Block)
	visit = func(b Block) {
		open := false
		for _, n := range b {
			switch n := n.(type) {
			case *CallN:
				if n.Fn != nil && isBasictl(n.Fn.Pkg()) {
					switch n.Fn.Name() {
					case "IncreaseDepth":
						if open {
							ok = false
						}
						open = true
					case "DecreaseDepth":
						if !open {
							ok = false
						}
						open = false
					}
				}
			case *ReturnN:
				if open {
					ok = false
				}
			case *IfN:
				if open && (containsReturn(n.Then) || containsReturn(n.Else)) {
					ok = false
				}
				visit(n.Then)
				visit(n.Else)
			case *LoopN:
				if open && containsReturn(n.Body) {
					ok = false
				}
				visit(n.Body)
			case *SwitchN:
				for _, cs := range n.Cases {
					if open && containsReturn(cs.Body) {
						ok = false
					}
					visit(cs.Body)
				}
			}
		}
		if open {
			ok = false
		}
	}
	visit(b)
	return ok
}

func containsReturn(b Block) bool {
	found := false
	walkBlock(b, nil, func(n Node, _ []Guard) {
		if _, ok := n.(*ReturnN); ok {
			found = true
		}
	})
	return found
}

// frCycles returns, for every strongly connected component of the graph that contains a cycle, the
// edges inside it.
func frCycles(nodes map[*types.Func]bool, adj map[*types.Func][]*frEdge) [][]*frEdge {
	index := map[*types.Func]int{}
	low := map[*types.Func]int{}
	onStack := map[*types.Func]bool{}
	var stack []*types.Func
	next := 0
	var out [][]*frEdge
	var order []*types.Func
	for n := range nodes {
		order = append(order, n)
	}
	sort.Slice(order, func(i, j int) bool { return order[i].FullName() < order[j].FullName() })
	var strong func(v *types.Func)
	strong = func(v *types.Func) {
		index[v], low[v] = next, next
		next++
		stack = append(stack, v)
		onStack[v] = true
		for _, e := range adj[v] {
			w := e.To
			if _, seen := index[w]; !seen {
				strong(w)
				if low[w] < low[v] {
					low[v] = low[w]
				}
			} else if onStack[w] && index[w] < low[v] {
				low[v] = index[w]
			}
		}
		if low[v] == index[v] {
			comp := map[*types.Func]bool{}
			for {
				w := stack[len(stack)-1]
				stack = stack[:len(stack)-1]
				onStack[w] = false
				comp[w] = true
				if w == v {
					break
				}
			}
			var es []*frEdge
			for m := range comp {
				for _, e := range adj[m] {
					if comp[e.To] {
						es = append(es, e)
					}
				}
			}
			if len(es) > 0 {
				sort.Slice(es, func(i, j int) bool { return es[i].Pos < es[j].Pos })
				out = append(out, es)
			}
		}
	}
	for _, n := range order {
		if _, seen := index[n]; !seen {
			strong(n)
		}
	}
	return out
}
