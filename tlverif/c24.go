package main

import (
	"fmt"
	"go/token"
	"go/types"
	"strings"
)

func init() { register("C24", checkC24) }

type repoCtx struct {
	c     *Check
	co    *Corpus
	funcs map[string]*FuncInfo // "pkg/path.Recv.Name" relative to the module
}

func loadRepoFuncs(c *Check, patterns ...string) *repoCtx {
	co, err := loadRepoCorpus(patterns...)
	if err != nil {
		c.Undecided("load", strings.Join(patterns, ","), "", err.Error())
		return nil
	}
	r := &repoCtx{c: c, co: co, funcs: map[string]*FuncInfo{}}
	for _, fi := range co.allFuncs() {
		r.funcs[strings.TrimPrefix(fi.Pkg.PkgPath, "github.com/VKCOM/tl/")+"."+fi.Name()] = fi
	}
	c.Set("packages", len(co.Pkgs))
	c.Set("functions", len(r.funcs))
	return r
}

func (r *repoCtx) ir(name string) *FuncIR {
	fi := r.funcs[name]
	if fi == nil {
		r.c.Undecided("anchor", name, "", "anchor function not found (renamed or removed)")
		return nil
	}
	return buildFuncIR(fi, r.co.allFuncs(), r.co.Fset)
}

// irOf: the IR of a resolved callee, nil when its body is not in the loaded packages.
func (r *repoCtx) irOf(fn *types.Func) *FuncIR {
	for _, fi := range r.funcs {
		if fi.Obj == fn && fi.Decl.Body != nil {
			return buildFuncIR(fi, r.co.allFuncs(), r.co.Fset)
		}
	}
	return nil
}

func (r *repoCtx) pos(p token.Pos) string { return relPos(posStr(r.co.Fset, p)) }

// successReturn: a return whose error result is nil.
func successReturn(ir *FuncIR, n *ReturnN) bool {
	if len(n.Vals) == 0 {
		return true
	}
	if len(n.Vals) == 1 && n.Vals[0] == "<tail>" {
		return false
	}
	return n.Vals[len(n.Vals)-1] == "nil"
}

// tagLoopRules checks one loop body that registers tags: zero rejection (when required), collision
// rejection and insertion under the same key.
func (r *repoCtx) tagLoopRules(fn string, ir *FuncIR, body Block, label string, zeroMustFail bool) (table string) {
	c := r.c
	tagVar, src := "", ""
	var tagPos token.Pos
	for _, n := range body {
		switch n := n.(type) {
		case *CallN:
			if n.Fn != nil && n.Fn.Name() == "Crc32" && len(n.Results) == 1 {
				tagVar, src, tagPos = n.Results[0], "Crc32()", n.Pos
			}
		case *AssignN:
			if len(n.LHS) == 1 && len(n.RHS) == 1 && strings.HasSuffix(n.RHS[0], ".Magic") && tagVar == "" {
				tagVar, src, tagPos = n.LHS[0], n.RHS[0], n.Pos
			}
		}
	}
	construct := fn + "/" + label
	if tagVar == "" {
		c.Undecided("tag-check/loop", construct, "", "no tag value (Crc32() or .Magic) read in this loop body")
		return ""
	}
	// when the tag may legitimately be absent (TL2 magic 0), the checks live under `if tag != 0`
	blk := body
	underNonZero := false
	for _, n := range body {
		if in, ok := n.(*IfN); ok && in.Cond.Kind == "nz" && !in.Cond.Neg && in.Cond.X == tagVar {
			blk, underNonZero = in.Then, true
		}
	}
	zeroFail, collFail, insert := false, false, false
	var insertPos token.Pos
	var mapName string
	var lookupOK string
	for _, n := range blk {
		switch n := n.(type) {
		case *IfN:
			if n.Cond.Kind == "nz" && n.Cond.Neg && n.Cond.X == tagVar && errorExit(n.Then) {
				zeroFail = true
			}
			if n.Cond.Kind == "bool" && !n.Cond.Neg && n.Cond.X == lookupOK && lookupOK != "" && errorExitDeep(n.Then) {
				collFail = true
			}
		case *AssignN:
			// `x, ok := M[tag]`
			if len(n.LHS) == 2 && len(n.RHS) == 1 && strings.HasSuffix(n.RHS[0], "["+tagVar+"]") {
				mapName = strings.TrimSuffix(n.RHS[0], "["+tagVar+"]")
				lookupOK = n.LHS[1]
			}
			if len(n.LHS) == 1 && mapName != "" && n.LHS[0] == mapName+"["+tagVar+"]" && n.Tok == token.ASSIGN {
				insert = collFail // insertion after the collision test
				insertPos = n.Pos
			}
		case *CallN:
			if mapName != "" && containsStr(n.Results, mapName+"["+tagVar+"]") {
				insert = collFail
				insertPos = n.Pos
			}
		}
	}
	if zeroMustFail {
		c.Ob("tag-check/zero-rejected", construct, zeroFail && !underNonZero, r.pos(tagPos), "tag from "+src+": `if tag == 0 → error` present and unconditional")
	} else {
		c.Ob("tag-check/zero-means-absent", construct, underNonZero, r.pos(tagPos), "TL2 magic "+src+": 0 means absent (explicit 0 is rejected by the TL2 parser)")
	}
	// no element of the loop is skipped before its tag was checked and recorded
	skips := 0
	skipAt := token.NoPos
	walkBlock(body, nil, func(n Node, _ []Guard) {
		if b, ok := n.(*BranchN); ok && (b.Tok == token.CONTINUE || b.Tok == token.BREAK) && (insertPos == token.NoPos || b.Pos < insertPos) {
			skips++
			skipAt = b.Pos
		}
	})
	at := r.pos(tagPos)
	if skips > 0 {
		at = r.pos(skipAt)
	}
	c.Ob("tag-check/no-element-skipped", construct, skips == 0 && insert, at, fmt.Sprintf("%d continue/break statements come before the point where the tag is recorded: every element of the loop has its tag tested for zero/collision and recorded", skips))
	c.Ob("tag-check/collision-rejected", construct, collFail, r.pos(tagPos), "lookup hit in the tag table returns an error")
	c.Ob("tag-check/tag-inserted", construct, insert, r.pos(tagPos), "the tag is inserted under the same key after the collision test, before the next iteration")
	return mapName
}

func errorExitDeep(blk Block) bool {
	if errorExit(blk) {
		return true
	}
	if len(blk) == 0 {
		return false
	}
	if r, ok := blk[len(blk)-1].(*ReturnN); ok && len(r.Vals) > 0 {
		last := r.Vals[len(r.Vals)-1]
		return last != "nil"
	}
	return false
}

// loopTotality: no break, no success return inside any loop of the function.
func (r *repoCtx) loopTotality(rule, fn string, ir *FuncIR) int {
	loops := r.loopTotalityParts(rule, fn, ir)
	r.c.Ob(rule, fn, loops > 0, "", fmt.Sprintf("%d loops; none is left early with success", loops))
	return loops
}

// loopTotalityParts reports early exits of the loops of one function and returns how many loops it has.
func (r *repoCtx) loopTotalityParts(rule, fn string, ir *FuncIR) int {
	loops := 0
	walkBlock(ir.Body, nil, func(n Node, gs []Guard) {
		if _, ok := n.(*LoopN); ok {
			loops++
		}
		inLoop := false
		for _, g := range gs {
			if g.Kind == "loop" {
				inLoop = true
			}
		}
		if !inLoop {
			return
		}
		switch n := n.(type) {
		case *BranchN:
			if n.Tok == token.BREAK {
				r.c.Ob(rule, fn+"/break", false, r.pos(n.Pos), "a checking loop is left with break: later elements are not inspected")
			}
		case *ReturnN:
			if successReturn(ir, n) {
				r.c.Ob(rule, fn+"/success-return-in-loop", false, r.pos(n.Pos), "a checking loop returns success before all elements were inspected")
			}
		}
	})
	return loops
}

// mustCallBeforeSuccess: callee is called at top level (error checked) before any success return.
func (r *repoCtx) mustCallBeforeSuccess(rule, fn string, ir *FuncIR, callee string) {
	var call *CallN
	for _, n := range ir.Body {
		if cn, ok := n.(*CallN); ok && cn.Fn != nil && cn.Fn.Name() == callee {
			call = cn
		}
	}
	if call == nil {
		r.c.Ob(rule, fn+"→"+callee, false, "", callee+" is not called as a top-level statement")
		return
	}
	early := ""
	walkBlock(ir.Body, nil, func(n Node, gs []Guard) {
		if rt, ok := n.(*ReturnN); ok && rt.Pos < call.Pos && successReturn(ir, rt) {
			inClosure := false
			for _, g := range gs {
				if g.Kind == "closure" {
					inClosure = true
				}
			}
			if !inClosure {
				early = r.pos(rt.Pos)
			}
		}
	})
	ok := call.ErrChecked && early == ""
	d := callee + " called with its error checked before any success return"
	if early != "" {
		d = "success return at " + early + " precedes the call of " + callee
	}
	r.c.Ob(rule, fn+"→"+callee, ok, r.pos(call.Pos), d)
}

func checkC24(c *Check) {
	c.Explanation = "Tag uniqueness checks, decided on the source of both generators: every success return of pure.Kernel.Compile and of the legacy tlcodegen.GenerateCode is preceded by a top-level, error-checked call of checkTagCollisions; inside both checkTagCollisions no loop is left early with success or break (every TL1 combinator of every file and every TL2 combinator is inspected), and per iteration: tag 0 is an error for TL1 combinators, a lookup hit is an error, and the tag is inserted under the same key afterwards; TL2 magics are registered in the same table when non-zero and the TL2 parser rejects an explicit magic 0."
	c.NotCovered = "implicit TL2 magics; hash quality; that Crc32() is the effective tag (C23)"
	c.Trusted = []string{"go/types"}
	r := loadRepoFuncs(c, "./internal/pure", "./internal/tlcodegen", "./internal/tlast", "./cmd/tl2gen", "./internal/puregen/...")
	if r == nil {
		return
	}
	// kernel: the check may be split into helpers; loops are collected through same-package calls, and the tag table each
	// loop uses is traced back to the variable it was created as (a helper may receive the table as an argument)
	if ir := r.ir("internal/pure.Kernel.checkTagCollisions"); ir != nil {
		n := 0
		tables := map[string]bool{}
		seen := map[string]bool{}
		loopsTotal := 0
		var gather func(ir *FuncIR, fname string, binding map[string]string)
		gather = func(ir *FuncIR, fname string, binding map[string]string) {
			if seen[fname] {
				return
			}
			seen[fname] = true
			loopsTotal += r.loopTotalityParts("tag-check/loop-totality", "pure."+fname, ir)
			root := func(name string) string {
				if b, ok := binding[name]; ok {
					return b
				}
				return fname + ":" + name
			}
			var visit func(blk Block)
			visit = func(blk Block) {
				for _, nd := range blk {
					switch nd := nd.(type) {
					case *CallN:
						if nd.Fn == nil || nd.Fn.Pkg() == nil || nd.Fn.Pkg().Path() != "github.com/VKCOM/tl/internal/pure" {
							continue
						}
						callee := r.irOf(nd.Fn)
						if callee == nil || !strings.Contains(irText(callee), "loop ") {
							continue
						}
						b := map[string]string{}
						for i, p := range callee.Params {
							if i < len(nd.Args) {
								if _, isMap := p.Var.Type().Underlying().(*types.Map); isMap {
									b[p.Name] = root(nd.Args[i])
								}
							}
						}
						gather(callee, funcDisplayName(nd.Fn), b)
					case *IfN:
						visit(nd.Then)
						visit(nd.Else)
					case *LoopN:
						inner := false
						for _, m := range nd.Body {
							if _, ok := m.(*LoopN); ok {
								inner = true
							}
						}
						if inner {
							visit(nd.Body)
							continue
						}
						n++
						if strings.Contains(nd.Over, "TL2") {
							// two kinds of TL2 declarations in one loop: function branch and type branch
							var fnBranch Block
							rest := Block{}
							for _, m := range nd.Body {
								if in, ok := m.(*IfN); ok && in.Cond.Kind == "bool" && strings.HasSuffix(in.Cond.X, "IsFunction") {
									fnBranch = in.Then
									continue
								}
								rest = append(rest, m)
							}
							for _, t := range []string{r.tagLoopRules("pure."+fname, ir, fnBranch, "tl2-functions", false), r.tagLoopRules("pure."+fname, ir, rest, "tl2-types", false)} {
								if t != "" {
									tables[root(t)] = true
								}
							}
						} else if t := r.tagLoopRules("pure."+fname, ir, nd.Body, "tl1-combinators", true); t != "" {
							tables[root(t)] = true
						}
					}
				}
			}
			visit(ir.Body)
		}
		gather(ir, "Kernel.checkTagCollisions", nil)
		c.Ob("tag-check/loop-totality", "pure.Kernel.checkTagCollisions", loopsTotal > 0, "", fmt.Sprintf("%d loops in the check and its helpers; none is left early with success", loopsTotal))
		c.Ob("tag-check/one-table-for-all-declarations", "pure.Kernel.checkTagCollisions", len(tables) == 1, r.pos(ir.Info.Decl.Pos()), fmt.Sprintf("TL1 constructors, TL1 functions, TL2 types and TL2 functions are all looked up in and recorded into one tag table; tables found: %v (a tag is unique only against the declarations recorded in the same table)", sortedKeys(tables)))
	}
	if ir := r.ir("internal/pure.Kernel.Compile"); ir != nil {
		r.mustCallBeforeSuccess("tag-check/dominates-success", "pure.Kernel.Compile", ir, "checkTagCollisions")
	}
	// legacy
	if ir := r.ir("internal/tlcodegen.checkTagCollisions"); ir != nil {
		r.loopTotality("tag-check/loop-totality", "tlcodegen.checkTagCollisions", ir)
		for _, nd := range ir.Body {
			if lp, ok := nd.(*LoopN); ok {
				r.tagLoopRules("tlcodegen.checkTagCollisions", ir, lp.Body, "combinators", true)
			}
		}
	}
	// the legacy caller
	callerFound := false
	for name, fi := range r.funcs {
		if !strings.HasPrefix(name, "internal/tlcodegen.") {
			continue
		}
		ir := buildFuncIR(fi, r.co.allFuncs(), r.co.Fset)
		for _, n := range ir.Body {
			if cn, ok := n.(*CallN); ok && cn.Fn != nil && cn.Fn.Name() == "checkTagCollisions" && cn.Fn.Pkg().Path() == "github.com/VKCOM/tl/internal/tlcodegen" {
				callerFound = true
				r.mustCallBeforeSuccess("tag-check/dominates-success", "tlcodegen."+fi.Name(), ir, "checkTagCollisions")
			}
		}
	}
	if !callerFound {
		c.Undecided("tag-check/dominates-success", "tlcodegen", "", "no top-level caller of the legacy checkTagCollisions found")
	}
	// TL2 parser: explicit magic 0 is rejected in both declaration parsers
	zeroRejects := 0
	for name, fi := range r.funcs {
		if !strings.HasPrefix(name, "internal/tlast.parseTL2") {
			continue
		}
		ir := buildFuncIR(fi, r.co.allFuncs(), r.co.Fset)
		assignsMagic := false
		rejectsZero := false
		walkBlock(ir.Body, nil, func(n Node, gs []Guard) {
			switch n := n.(type) {
			case *AssignN:
				if len(n.LHS) == 1 && strings.HasSuffix(n.LHS[0], ".Magic") {
					assignsMagic = true
				}
			case *IfN:
				if n.Cond.Kind == "nz" && n.Cond.Neg {
					failed := false
					for _, m := range n.Then {
						if cn, ok := m.(*CallN); ok && cn.Fn != nil && cn.Fn.Name() == "FailWithError" {
							failed = true
						}
					}
					last := len(n.Then) - 1
					if failed && last >= 0 {
						if _, ok := n.Then[last].(*ReturnN); ok {
							rejectsZero = true
						}
					}
				}
			}
		})
		if assignsMagic {
			zeroRejects++
			c.Ob("tag-check/tl2-parser-rejects-magic-0", "tlast."+fi.Name(), rejectsZero, r.pos(fi.Decl.Pos()), "`if value == 0 { FailWithError; return }` precedes `result.Magic = value`")
		}
	}
	c.Floor("tag-check/tl2-parser-rejects-magic-0", 2)
	c.Floor("tag-check/collision-rejected", 4)
	c.Floor("tag-check/tag-inserted", 4)
	c.Floor("tag-check/zero-rejected", 2)
	c.Floor("tag-check/dominates-success", 2)
	c.Floor("tag-check/loop-totality", 2)
}
