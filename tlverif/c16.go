package main

import (
	"fmt"
	"go/constant"
	"go/token"
	"go/types"
	"regexp"
	"sort"
	"strings"
)

func init() { register("C16", checkC16) }

var fsMutators = map[string]bool{
	"os.WriteFile": true, "os.Remove": true, "os.RemoveAll": true, "os.Mkdir": true, "os.MkdirAll": true, "os.Create": true,
	"os.OpenFile": true, "os.Rename": true, "os.Chmod": true, "os.Truncate": true, "os.Symlink": true, "os.Link": true,
	"os.CreateTemp": true, "os.MkdirTemp": true, "io/ioutil.WriteFile": true, "os.Chtimes": true, "os.Chown": true,
}

func isGeneratorPkg(owner string) bool {
	for _, p := range []string{"cmd/tl2gen", "cmd/tlgen", "internal/pure", "internal/puregen", "internal/purelegacy", "internal/tlast", "internal/tlcodegen", "internal/utils", "internal/tlmodel"} {
		if strings.HasPrefix(owner, p+".") || strings.HasPrefix(owner, p+"/") {
			return true
		}
	}
	return false
}

// fsOwners: who may mutate the file system in the generator packages, confirmed by reading.
var fsOwners = map[string]string{
	"internal/puregen.OutDir.Write":                     "the output-directory writer of tl2gen (marker check, skip-unchanged, stale deletion)",
	"internal/tlcodegen.Gen2.WriteToDir":                "the output-directory writer of legacy tlgen (same protocol)",
	"internal/puregen/gentlo.Generate":                  "--language=tlo writes exactly --outfile (and the optional json twin)",
	"internal/puregen/gencanonical.Generate":            "--language=canonical writes exactly --outfile",
	"internal/puregen/gentljsonhtml.Generate":           "--language=tljson.html writes exactly --outfile",
	"internal/puregen.Options.ReplaceStringInDir":       "--replaceDir rewriting, only when the option is given",
	"internal/pure.Kernel.Migration":                    "--language=tl2migration rewrites the schema files it was given",
	"cmd/tlgen.runMain":                                 "legacy tlgen: copy of outdir marker, TLO, TLO json, canonical form",
	"cmd/tlgen.runCreateModifiedTLFile":                 "legacy tlgen: modified TL file requested by flag",
	"cmd/tl2gen.runMain":                                "cpu profile file requested by --profileCPU",
	"internal/tlcodegen.Gen2.decideCppCodeDestinations": "graphviz debug dump under the constant-false CppPrintGraphvizRepresentation",
}

var joinRx = regexp.MustCompile(`^(L\d+:\w+)$`)

// dirWriterRules decides the output-directory protocol on one writer function.
func dirWriterRules(c *Check, co *Corpus, fi *FuncInfo, funcs map[*ssaFuncKey]bool) {
	name := fi.Name()
	ir := buildFuncIR(fi, co.allFuncs(), co.Fset)
	pos := func(p token.Pos) string { return relPos(posStr(co.Fset, p)) }
	// 1. marker test: top-level `if len(R) != 0 && !R[marker] { return error }`
	var marker *IfN
	rel := ""
	for _, n := range ir.Body {
		in, ok := n.(*IfN)
		if !ok || in.Cond.Kind != "and" || len(in.Cond.Sub) != 2 {
			continue
		}
		a, b := in.Cond.Sub[0], in.Cond.Sub[1]
		if a.Kind == "nz" && !a.Neg && strings.HasPrefix(a.X, "len(") && b.Kind == "bool" && b.Neg {
			r := strings.TrimSuffix(strings.TrimPrefix(a.X, "len("), ")")
			if strings.HasPrefix(b.X, r+"[") && errorExit(in.Then) {
				marker, rel = in, r
			}
		}
	}
	c.Ob("outdir/marker-test-present", name, marker != nil, pos(fi.Decl.Pos()), "top-level `if len(existing) != 0 && !existing[marker] { return error }`")
	if marker == nil {
		return
	}
	// 2. every fs mutation other than creating the outdir itself is after the marker test, and its path is
	//    the outdir or filepath.Join(outdir, …)
	outdir := ""
	joined := map[string]bool{}
	walkBlock(ir.Body, nil, func(n Node, _ []Guard) {
		if call, ok := n.(*CallN); ok && call.Fn != nil && call.Fn.Pkg() != nil && call.Fn.Pkg().Path() == "path/filepath" && call.Fn.Name() == "Join" && len(call.Results) == 1 && len(call.Args) >= 1 {
			joined[call.Results[0]] = true
			if outdir == "" {
				outdir = call.Args[0]
			}
		}
	})
	isOutdir := func(s string) bool { return s == "val" || strings.HasSuffix(s, ".Outdir") }
	walkBlock(ir.Body, nil, func(n Node, gs []Guard) {
		call, ok := n.(*CallN)
		if !ok || call.Fn == nil || call.Fn.Pkg() == nil || !fsMutators[call.Fn.Pkg().Path()+"."+call.Fn.Name()] {
			return
		}
		q := "os." + call.Fn.Name()
		arg := ""
		if len(call.Args) > 0 {
			arg = call.Args[0]
		}
		construct := name + "/" + q + "(" + stripLocalNo(arg) + ")"
		before := call.Pos < marker.Pos
		if before {
			c.Ob("outdir/no-mutation-before-marker-test", construct, q == "os.Mkdir" && isOutdir(arg), pos(call.Pos), "only creating the outdir itself may precede the marker test")
		} else {
			c.Ob("outdir/no-mutation-before-marker-test", construct, true, pos(call.Pos), "after the marker test")
		}
		okPath := isOutdir(arg) || joined[arg]
		c.Ob("outdir/paths-inside-outdir", construct, okPath, pos(call.Pos), "path is the outdir or filepath.Join(outdir, …): "+arg)
	})
	// every Join used for a mutation starts at the outdir
	walkBlock(ir.Body, nil, func(n Node, _ []Guard) {
		if call, ok := n.(*CallN); ok && call.Fn != nil && call.Fn.Pkg() != nil && call.Fn.Pkg().Path() == "path/filepath" && call.Fn.Name() == "Join" && len(call.Results) == 1 {
			c.Ob("outdir/join-rooted-at-outdir", name+"/"+stripLocalNo(call.Results[0]), isOutdir(call.Args[0]), pos(call.Pos), "filepath.Join("+strings.Join(call.Args, ", ")+")")
		}
	})
	// 3. write loop: existing entry is removed from the stale set, unchanged content is skipped before WriteFile
	var writeBlock Block
	var writeCall *CallN
	var find func(blk Block)
	find = func(blk Block) {
		for _, n := range blk {
			switch n := n.(type) {
			case *CallN:
				if n.Fn != nil && n.Fn.Name() == "WriteFile" && n.Fn.Pkg().Path() == "os" {
					writeBlock, writeCall = blk, n
				}
				for _, cl := range n.Closures {
					find(cl.Body)
				}
			case *IfN:
				find(n.Then)
				find(n.Else)
			case *LoopN:
				find(n.Body)
			case *ClosureN:
				find(n.Body)
			case *SwitchN:
				for _, cs := range n.Cases {
					find(cs.Body)
				}
			}
		}
	}
	find(ir.Body)
	if writeCall == nil {
		c.Undecided("outdir/write-loop", name, pos(fi.Decl.Pos()), "no os.WriteFile found")
		return
	}
	deleted, skip := false, false
	skipDetail := ""
	// locals holding the previous content of a path: `was, err := os.ReadFile(path)`
	prevContent := map[string]string{}
	walkBlock(ir.Body, nil, func(m Node, _ []Guard) {
		if cn, ok := m.(*CallN); ok && cn.Fn != nil && cn.Fn.Name() == "ReadFile" && cn.Fn.Pkg() != nil && cn.Fn.Pkg().Path() == "os" && len(cn.Args) == 1 && len(cn.Results) >= 1 {
			prevContent[cn.Results[0]] = cn.Args[0]
		}
	})
	for _, n := range writeBlock {
		if n.P() >= writeCall.Pos {
			break
		}
		walkBlock(Block{n}, nil, func(m Node, gs []Guard) {
			switch m := m.(type) {
			case *CallN:
				if m.Builtin == "delete" && len(m.Args) == 2 && m.Args[0] == rel {
					deleted = true
				}
			case *IfN:
				// `if string(was) == code { …; continue }` where was is the previous file's content read from the same
				// path and code is exactly what WriteFile writes below
				if m.Cond.Kind == "cmp" && m.Cond.Op == "!=" {
					eq := m.Then // the branch taken when the two are equal
					if !m.Cond.Neg {
						eq = m.Else
					}
					for _, t := range eq {
						if b, ok := t.(*BranchN); ok && b.Tok == token.CONTINUE {
							unconv := func(x string) string {
								return strings.TrimSuffix(strings.TrimPrefix(x, "conv("), ")")
							}
							data := ""
							if len(writeCall.Args) >= 2 {
								data = unconv(writeCall.Args[1])
							}
							l, rr := unconv(m.Cond.X), unconv(m.Cond.Y)
							other := ""
							switch data {
							case l:
								other = rr
							case rr:
								other = l
							}
							if other != "" && len(writeCall.Args) >= 1 && prevContent[other] == writeCall.Args[0] {
								skip = true
							}
							skipDetail = fmt.Sprintf("skip test compares %s with %s; data written: %s; previous content of the same path: %v", m.Cond.X, m.Cond.Y, data, prevContent)
						}
					}
				}
			}
		})
	}
	c.Ob("outdir/handled-file-leaves-stale-set", name, deleted, pos(writeCall.Pos), "each generated path is deleted from the set of pre-existing files before it is written")
	c.Ob("outdir/unchanged-file-not-rewritten", name, skip, pos(writeCall.Pos), "os.WriteFile is skipped (continue) only when the previous content of the same path, read back in full, equals the bytes about to be written: "+skipDetail)
	// 4. stale deletion: after the write phase, range over the remaining set and os.Remove each
	staleOK := false
	var contGuards []string
	for _, n := range ir.Body {
		lp, ok := n.(*LoopN)
		if !ok || lp.Over != rel || lp.Pos < writeCall.Pos && !isAfterAll(ir.Body, lp, writeCall) {
			continue
		}
		walkBlock(lp.Body, nil, func(m Node, gs []Guard) {
			if call, ok := m.(*CallN); ok && call.Fn != nil && call.Fn.Name() == "Remove" && call.Fn.Pkg().Path() == "os" && len(gs) == 0 {
				staleOK = joined[call.Args[0]]
			}
			if b, ok := m.(*BranchN); ok && b.Tok == token.CONTINUE {
				contGuards = append(contGuards, guardStr(gs))
			}
		})
	}
	c.Ob("outdir/stale-files-removed", name, staleOK, pos(fi.Decl.Pos()), "after writing, every remaining pre-existing file is os.Remove'd unconditionally")
	sort.Strings(contGuards)
	allowed := map[string]bool{"(val.options.Language != \"cpp\")": false}
	for _, gtxt := range contGuards {
		ok := strings.Contains(gtxt, "cppFilterFile") && strings.Contains(gtxt, "Language")
		_ = allowed
		c.Ob("outdir/stale-deletion-exemptions", name+"/"+gtxt, ok, pos(fi.Decl.Pos()), "only the C++ object-file filter of the legacy generator may keep a stale file")
	}
}

type ssaFuncKey struct{}

func isAfterAll(body Block, lp *LoopN, w *CallN) bool { return lp.Pos > w.Pos }

// errorExit: the block ends by returning a non-nil error.
func errorExit(blk Block) bool {
	if len(blk) == 0 {
		return false
	}
	r, ok := blk[len(blk)-1].(*ReturnN)
	if !ok {
		return false
	}
	if len(r.Vals) == 1 && r.Vals[0] == "<tail>" && len(blk) >= 2 {
		// `return fmt.Errorf(…)` / `return pr.BeautifulError(…)`: a tail call that builds an error value
		if call, ok := blk[len(blk)-2].(*CallN); ok && call.Fn != nil && call.Tail {
			n := call.Fn.Name()
			if n == "Errorf" || n == "New" || strings.Contains(n, "Error") {
				return true
			}
		}
	}
	return len(r.Vals) > 0 && r.Vals[len(r.Vals)-1] != "nil" && r.Vals[len(r.Vals)-1] != "<tail>"
}

func checkC16(c *Check) {
	c.Explanation = "Output directory protocol, decided on the source of the two directory writers (puregen.OutDir.Write of tl2gen, tlcodegen.Gen2.WriteToDir of legacy tlgen) and on the whole generator call graph: (1) who-may-write: every call site of a file-system mutator (os.WriteFile/Remove/Mkdir/MkdirAll/Create/…) in the generator packages belongs to an owner confirmed by reading (table in the checker); a site in any other function is a violation; (2) in both writers the marker test `len(existing)!=0 && !existing[marker] → error` is a top-level statement that precedes every mutation except creating the outdir itself; (3) every mutated path is the outdir or filepath.Join(outdir, …); (4) each generated path is removed from the set of pre-existing files before it is written, os.WriteFile is skipped when content is unchanged, and after the write phase every remaining pre-existing file is removed (only the legacy C++ object-file filter may keep one)."
	c.NotCovered = "file-system races, mtimes; that `..`-prefixed keys (basictl location) stay where the package paths say"
	c.Trusted = []string{"go/ssa + CHA/VTA call graph of x/tools v0.29.0", "os package semantics"}
	p := loadProgram(c)
	if p == nil {
		return
	}
	seenOwners := map[string]int{}
	for _, s := range p.sitesCalling(fsMutators) {
		owner := ownerName(s.Caller)
		if !isGeneratorPkg(owner) {
			continue
		}
		reason, ok := fsOwners[owner]
		seenOwners[owner]++
		c.Ob("fs-mutation-owner", owner+"/"+s.Callee, ok, relPos(p.pos(s.Pos)), fmt.Sprintf("%s in %s: %s", s.Callee, owner, reason))
	}
	// positive example: the analysis does see mutators (a rule whose violation count is zero must not be vacuous)
	c.Ob("fs-mutation-owner/positive-example", "internal/puregen.OutDir.Write", seenOwners["internal/puregen.OutDir.Write"] >= 4, "", fmt.Sprintf("%d mutator sites seen in OutDir.Write", seenOwners["internal/puregen.OutDir.Write"]))
	// the debug flag guarding the graphviz dump is constant false
	for _, pk := range p.Pkgs {
		if pk.PkgPath == "github.com/VKCOM/tl/internal/tlcodegen" {
			obj := pk.Types.Scope().Lookup("CppPrintGraphvizRepresentation")
			ok := false
			d := "not found"
			if cst, isC := obj.(*types.Const); isC {
				d = "const " + cst.Name() + " = " + cst.Val().String()
				ok = cst.Val().Kind() == constant.Bool && !constant.BoolVal(cst.Val())
			} else if obj != nil {
				d = obj.String() + " (not a constant)"
			}
			c.Ob("fs-mutation-owner/debug-flag-off", "internal/tlcodegen.CppPrintGraphvizRepresentation", ok, "", d)
		}
	}
	// the two directory writers
	co := &Corpus{Spec: CorpusSpec{Name: "repo"}, Pkgs: p.Pkgs, Fset: p.Fset, InRepo: true}
	funcs := co.allFuncs()
	found := 0
	for _, fi := range funcs {
		n := strings.TrimPrefix(fi.Pkg.PkgPath, "github.com/VKCOM/tl/") + "." + fi.Name()
		if n == "internal/puregen.OutDir.Write" || n == "internal/tlcodegen.Gen2.WriteToDir" {
			found++
			dirWriterRules(c, co, fi, nil)
		}
	}
	if found != 2 {
		c.Undecided("outdir/writers", "repo", "", fmt.Sprintf("expected the 2 directory writers, found %d", found))
	}
	// the scan of the existing directory is total: every entry returned by ReadDir is recorded (a directory is appended
	// and descended into, a file is put into the set) — the ownership test and the stale-file deletion both run off
	// this scan, so an entry it skips is invisible to both
	scans := 0
	for _, fi := range funcs {
		if fi.Obj.Name() != "collectRelativePaths" || fi.Decl.Body == nil {
			continue
		}
		scans++
		ir := buildFuncIR(fi, funcs, co.Fset)
		name := strings.TrimPrefix(fi.Pkg.PkgPath, "github.com/VKCOM/tl/") + "." + fi.Name()
		ok, detail := false, "no loop over the os.ReadDir result"
		for _, n := range ir.Body {
			lp, isL := n.(*LoopN)
			if !isL || lp.Kind != "range" {
				continue
			}
			// shape: [locals…] if entry.IsDir() { append dir; recurse; continue } ; set[rel] = true
			skips, recorded, dirArm := 0, false, false
			for i, st := range lp.Body {
				switch st := st.(type) {
				case *BranchN:
					skips++
				case *IfN:
					if strings.HasSuffix(st.Cond.String(), ".IsDir()") && len(st.Else) == 0 {
						app, rec := false, false
						for _, t := range st.Then {
							if cn, isC := t.(*CallN); isC {
								if cn.Builtin == "append" {
									app = true
								}
								if cn.Fn == fi.Obj && cn.ErrChecked {
									rec = true
								}
							}
						}
						dirArm = app && rec
					} else {
						walkBlock(Block{st}, nil, func(x Node, _ []Guard) {
							if _, isB := x.(*BranchN); isB {
								skips++
							}
						})
					}
				case *AssignN:
					if len(st.LHS) == 1 && len(st.RHS) == 1 && st.RHS[0] == "true" && strings.Contains(st.LHS[0], "[") && i == len(lp.Body)-1 {
						recorded = true
					}
				}
			}
			ok = skips == 0 && recorded && dirArm
			detail = fmt.Sprintf("directories appended and descended into: %v; files recorded by the last statement of the loop: %v; entries skipped by continue/break elsewhere: %d", dirArm, recorded, skips)
		}
		c.Ob("outdir/existing-directory-scan-is-total", name, ok, relPos(posStr(co.Fset, fi.Decl.Pos())), detail)
	}
	c.Floor("outdir/existing-directory-scan-is-total", 2)
	_ = scans
	c.Floor("fs-mutation-owner", 20)
	c.Floor("outdir/no-mutation-before-marker-test", 8)
	c.Floor("outdir/paths-inside-outdir", 8)
}
