package main

// Wire trees: the projection of a generated reader or writer onto its wire effects.

import (
	"fmt"
	"go/ast"
	"go/constant"
	"go/token"
	"go/types"
	"regexp"
	"sort"
	"strings"
)

type W interface {
	ws(sb *strings.Builder, ind string)
}

type WPrim struct {
	Kind    string // nat int long float double string bytes tag booltag byte ...
	Operand string
	Consts  []string
	Pos     token.Pos
}

type WCall struct {
	Fn      *types.Func
	Family  string
	Role    string
	Operand string
	Nat     []string
	Pos     token.Pos
}

type WIf struct {
	Cond *Cond
	Then []W
	Else []W
	Pos  token.Pos
}

type WLoop struct {
	Over string
	Body []W
	Pos  token.Pos
}

// WCounted is a count word followed by that many elements of Coll.
type WCounted struct {
	Coll string
	Body []W
	Pos  token.Pos
}

type WUnion struct {
	Tags        map[string]string // index → tag constant
	Arms        map[string][]W
	DefaultFail bool
	Pos         token.Pos
}

type WSwitch struct {
	Tag  string
	Arms map[string][]W
	Pos  token.Pos
}

type WFail struct{ Pos token.Pos }
type WRet struct{ Pos token.Pos }

// WFact is a non-wire fact kept for side rules (resize by nat, length guard...).
type WFact struct {
	Kind string
	A, B string
	Pos  token.Pos
}

func wlist(sb *strings.Builder, l []W, ind string) {
	for _, w := range l {
		w.ws(sb, ind)
	}
}

func (w *WPrim) ws(sb *strings.Builder, ind string) {
	fmt.Fprintf(sb, "%s%s %s %s\n", ind, w.Kind, w.Operand, strings.Join(w.Consts, ","))
}
func (w *WCall) ws(sb *strings.Builder, ind string) {
	fmt.Fprintf(sb, "%scall %s/%s %s nat=[%s]\n", ind, w.Family, w.Role, w.Operand, strings.Join(w.Nat, ","))
}
func (w *WIf) ws(sb *strings.Builder, ind string) {
	fmt.Fprintf(sb, "%sif %s\n", ind, w.Cond)
	wlist(sb, w.Then, ind+"  ")
	if len(w.Else) > 0 {
		fmt.Fprintf(sb, "%selse\n", ind)
		wlist(sb, w.Else, ind+"  ")
	}
}
func (w *WLoop) ws(sb *strings.Builder, ind string) {
	fmt.Fprintf(sb, "%sloop %s\n", ind, w.Over)
	wlist(sb, w.Body, ind+"  ")
}
func (w *WCounted) ws(sb *strings.Builder, ind string) {
	fmt.Fprintf(sb, "%scounted %s\n", ind, w.Coll)
	wlist(sb, w.Body, ind+"  ")
}
func (w *WUnion) ws(sb *strings.Builder, ind string) {
	fmt.Fprintf(sb, "%sunion\n", ind)
	for _, k := range sortedKeys(w.Tags) {
		fmt.Fprintf(sb, "%s  variant %s tag %s\n", ind, k, w.Tags[k])
		wlist(sb, w.Arms[k], ind+"    ")
	}
}
func (w *WSwitch) ws(sb *strings.Builder, ind string) {
	fmt.Fprintf(sb, "%sswitch %s\n", ind, w.Tag)
	for _, k := range sortedKeys(w.Arms) {
		fmt.Fprintf(sb, "%s  case %s\n", ind, k)
		wlist(sb, w.Arms[k], ind+"    ")
	}
}
func (w *WFail) ws(sb *strings.Builder, ind string) { fmt.Fprintf(sb, "%sfail\n", ind) }
func (w *WRet) ws(sb *strings.Builder, ind string)  { fmt.Fprintf(sb, "%sret\n", ind) }
func (w *WFact) ws(sb *strings.Builder, ind string) {
	fmt.Fprintf(sb, "%sfact %s %s %s\n", ind, w.Kind, w.A, w.B)
}

func wString(l []W) string {
	var sb strings.Builder
	wlist(&sb, l, "")
	return sb.String()
}

// ---------------------------------------------------------------------------------------------
// role tables

type primSpec struct {
	Kind string
	Dir  string // "r" | "w"
}

// TL1 primitives of basictl used by emitted code: name → (kind, direction).
var tl1Prims = map[string]primSpec{
	"NatRead": {"nat", "r"}, "NatWrite": {"nat", "w"},
	"IntRead": {"int", "r"}, "IntWrite": {"int", "w"},
	"LongRead": {"long", "r"}, "LongWrite": {"long", "w"},
	"FloatRead": {"float", "r"}, "FloatWrite": {"float", "w"},
	"DoubleRead": {"double", "r"}, "DoubleWrite": {"double", "w"},
	"StringRead": {"string", "r"}, "StringWrite": {"string", "w"},
	"StringReadBytes": {"string", "r"}, "StringWriteBytes": {"string", "w"},
	"Uint64Read": {"u64", "r"}, "Uint64Write": {"u64", "w"},
	"NatReadExactTag": {"tag", "r"},
	"NatReadTag":      {"natres", "r"},
	"ReadBool":        {"booltag", "r"},
	"ByteRead":        {"byte", "r"}, "ByteWrite": {"byte", "w"},
}

// method-name suffixes that identify the role of a generated function.
var roleSuffixes = []string{
	"ReadTL1Boxed", "WriteTL1BoxedGeneral", "WriteTL1Boxed", "ReadTL1", "WriteTL1General", "WriteTL1",
	"ReadResultTL1WriteResultJSON", "ReadResultJSONWriteResultTL1", "ReadResultTL1WriteResultTL2", "ReadResultTL2WriteResultTL1", "ReadResultTL2WriteResultJSON", "ReadResultJSONWriteResultTL2",
	"FillRandomResultTL1", "calculateLayoutResult", "writeResultTL2",
	"ReadResultTL1", "WriteResultTL1", "ReadResultTL2", "WriteResultTL2", "ReadResultJSON", "WriteResultJSON", "writeResultJSON",
	"InternalReadTL2", "InternalWriteTL2", "CalculateLayout", "ReadTL2", "WriteTL2",
	"ReadJSONGeneral", "ReadJSON", "WriteJSONGeneral", "WriteJSONOpt", "WriteJSON",
	"FillRandom", "RepairMasksValue", "RepairMasks", "Reset",
}

// familyRole splits a generated function into (family, role).
func familyRole(fn *types.Func) (family, role string) {
	name := fn.Name()
	sig := fn.Type().(*types.Signature)
	if r := sig.Recv(); r != nil {
		if n := namedOf(r.Type()); n != nil {
			for _, s := range roleSuffixes {
				if name == s {
					return n.Obj().Name(), s
				}
			}
			return n.Obj().Name(), name
		}
	}
	for _, s := range roleSuffixes {
		if strings.HasSuffix(name, s) && len(name) > len(s) {
			return strings.TrimSuffix(name, s), s
		}
	}
	return name, ""
}

var localRx = regexp.MustCompile(`L\d+:[A-Za-z0-9_]+`)

// ---------------------------------------------------------------------------------------------

type wireCfg struct {
	prims     map[string]primSpec
	callRoles map[string]string // callee role → canonical role in the wire tree
}

type wireBuilder struct {
	ir       *FuncIR
	cfg      *wireCfg
	co       *Corpus
	funcs    map[*types.Func]*FuncInfo
	lenOf    map[string]string // local count variable → collection it sizes
	keysOf   map[string]string // local keys slice → map it was collected from
	locType  map[string]string
	resizes  map[string]string // collection → length expression it is resized to
	problems []string
}

func (b *wireBuilder) canon(s string) string {
	for l, coll := range b.lenOf {
		if s == l {
			return "len(" + coll + ")"
		}
	}
	return localRx.ReplaceAllStringFunc(s, func(m string) string {
		if t, ok := b.locType[m]; ok {
			return "$" + t
		}
		return "$?"
	})
}

func (b *wireBuilder) canonCond(c *Cond) *Cond {
	if c == nil {
		return nil
	}
	d := *c
	d.X, d.Y = b.canon(c.X), b.canon(c.Y)
	d.Sub = nil
	for _, s := range c.Sub {
		d.Sub = append(d.Sub, b.canonCond(s))
	}
	return &d
}

func (b *wireBuilder) noteLocals(blk Block) {
	walkBlock(blk, nil, func(n Node, _ []Guard) {
		switch n := n.(type) {
		case *DeclN:
			b.locType[n.Name] = typeShort(n.Type)
		case *AssignN:
			if n.Tok == token.DEFINE {
				for i, l := range n.LHS {
					if i < len(n.RE) {
						if t := b.ir.x.typeOf(n.RE[i]); t != nil {
							b.locType[l] = typeShort(t)
						}
					}
				}
			}
			// resize facts: val = make(T, L) / val = val[:L]
			if len(n.LHS) == 1 && len(n.RE) == 1 && n.Tok == token.ASSIGN {
				switch r := ast.Unparen(n.RE[0]).(type) {
				case *ast.CallExpr:
					if id, ok := r.Fun.(*ast.Ident); ok && id.Name == "make" && len(r.Args) >= 2 {
						b.noteResize(n.LHS[0], b.ir.x.expr(r.Args[1]))
					}
				case *ast.SliceExpr:
					if r.Low == nil && r.High != nil && b.ir.x.expr(r.X) == n.LHS[0] {
						b.noteResize(n.LHS[0], b.ir.x.expr(r.High))
					}
				}
			}
		case *CallN:
			if n.Builtin == "append" && len(n.Results) == 1 && len(n.Args) == 2 && n.Results[0] == n.Args[0] {
				if strings.HasPrefix(n.Args[1], "key(") {
					b.keysOf[n.Args[0]] = strings.TrimSuffix(strings.TrimPrefix(n.Args[1], "key("), ")")
				}
			}
			for i, r := range n.Results {
				if localRx.MatchString(r) && n.Fn != nil {
					res := n.Fn.Type().(*types.Signature).Results()
					if i < res.Len() {
						if _, ok := b.locType[r]; !ok {
							b.locType[r] = typeShort(res.At(i).Type())
						}
					}
				}
			}
		}
	})
}

func (b *wireBuilder) noteResize(coll, n string) {
	if b.resizes == nil {
		b.resizes = map[string]string{}
	}
	b.resizes[coll] = n
	if localRx.MatchString(n) && !strings.ContainsAny(n, "()[] ") {
		if prev, ok := b.lenOf[n]; ok && prev != coll {
			return
		}
		b.lenOf[n] = coll
	}
}

func typeShort(t types.Type) string {
	return types.TypeString(t, func(*types.Package) string { return "" })
}

// ---------------------------------------------------------------------------------------------

func isNilErr(s string) bool { return s == "nil" }

// build converts an IR block into a wire list. dir is "r" or "w".
func (b *wireBuilder) build(blk Block, dir string) []W {
	var out []W
	for i := 0; i < len(blk); i++ {
		n := blk[i]
		switch n := n.(type) {
		case *CallN:
			if n.Builtin == "panic" {
				out = append(out, &WFail{Pos: n.Pos})
				return out
			}
			out = append(out, b.call(n, dir)...)
		case *IfN:
			w := &WIf{Cond: b.canonCond(n.Cond), Then: b.build(n.Then, dir), Else: b.build(n.Else, dir), Pos: n.Pos}
			// `if C { …; return }  rest`  ≡  `if C { … } else { rest }`
			if terminates(w.Then) && len(n.Else) == 0 {
				w.Else = b.build(blk[i+1:], dir)
				out = append(out, w)
				return out
			}
			if len(n.Else) > 0 && terminates(w.Else) && !terminates(w.Then) {
				w.Then = append(w.Then, b.build(blk[i+1:], dir)...)
				out = append(out, w)
				return out
			}
			out = append(out, w)
		case *SwitchN:
			sw := &WSwitch{Tag: b.canon(n.Tag), Arms: map[string][]W{}, Pos: n.Pos}
			for _, c := range n.Cases {
				body := b.build(c.Body, dir)
				if c.Default {
					sw.Arms["default"] = body
					continue
				}
				for _, v := range c.Vals {
					sw.Arms[v] = body
				}
			}
			out = append(out, sw)
		case *LoopN:
			body := b.build(n.Body, dir)
			over := n.Over
			if m, ok := b.keysOf[over]; ok {
				over = m
			}
			over = b.canon(over)
			if strings.HasPrefix(over, "len(") && n.Count {
				over = strings.TrimSuffix(strings.TrimPrefix(over, "len("), ")")
			}
			if n.Count && (strings.HasPrefix(over, "$") || strings.HasPrefix(over, "#")) {
				if coll := indexedColl(body); coll != "" {
					over = coll
				}
			}
			out = append(out, &WLoop{Over: over, Body: body, Pos: n.Pos})
		case *ReturnN:
			if len(n.Vals) > 0 {
				last := n.Vals[len(n.Vals)-1]
				if len(n.VE) > 0 {
					if t := b.ir.x.typeOf(n.VE[len(n.VE)-1]); t != nil && isErrorType(t) && !isNilErr(last) && last != "err" {
						out = append(out, &WFail{Pos: n.Pos})
						return out
					}
				}
			}
			out = append(out, &WRet{Pos: n.Pos})
			return out
		case *AssignN:
			// map insert in a reader: data[k] = v  — keeps the loop body non-empty facts
			if len(n.LHS) == 1 && strings.Contains(n.LHS[0], "[") && n.Tok == token.ASSIGN {
				out = append(out, &WFact{Kind: "store", A: b.canon(n.LHS[0]), B: b.canon(strings.Join(n.RHS, ",")), Pos: n.Pos})
			}
		}
	}
	return out
}

// indexedColl returns the collection indexed by the loop variable in the body's operands ("X[*]").
func indexedColl(l []W) string {
	for _, w := range l {
		op := ""
		switch w := w.(type) {
		case *WPrim:
			op = w.Operand
		case *WCall:
			op = w.Operand
		case *WIf:
			if c := indexedColl(w.Then); c != "" {
				return c
			}
			if c := indexedColl(w.Else); c != "" {
				return c
			}
		}
		if i := strings.Index(op, "[*]"); i > 0 {
			return op[:i]
		}
	}
	return ""
}

func terminates(l []W) bool {
	if len(l) == 0 {
		return false
	}
	switch w := l[len(l)-1].(type) {
	case *WRet, *WFail:
		return true
	case *WIf:
		return len(w.Else) > 0 && terminates(w.Then) && terminates(w.Else)
	}
	return false
}

func (b *wireBuilder) call(n *CallN, dir string) []W {
	if n.Fn == nil {
		return nil
	}
	name := n.Fn.Name()
	if isBasictl(n.Fn.Pkg()) && n.Fn.Type().(*types.Signature).Recv() == nil {
		ps, ok := b.cfg.prims[name]
		if !ok {
			return nil
		}
		w := &WPrim{Kind: ps.Kind, Pos: n.Pos}
		switch ps.Kind {
		case "natres":
			w.Kind = "nat"
			if len(n.Results) >= 1 {
				w.Operand = b.canon(n.Results[0])
			}
		case "size":
			if ps.Dir == "r" && len(n.Results) >= 2 {
				w.Operand = b.canon(n.Results[1])
			} else if len(n.Args) >= 2 {
				w.Operand = b.canon(n.Args[1])
			}
		case "calcsize":
			if len(n.Args) >= 1 {
				w.Operand = b.canon(n.Args[0])
			}
		case "tag":
			w.Consts = []string{b.canon(n.Args[1])}
		case "booltag":
			w.Operand = b.canon(n.Args[1])
			w.Consts = []string{b.canon(n.Args[2]), b.canon(n.Args[3])}
		default:
			if len(n.Args) >= 2 {
				w.Operand = b.canon(n.Args[1])
			}
			if ps.Kind == "nat" && strings.HasPrefix(w.Operand, "#") {
				w.Kind = "tag"
				w.Consts = []string{w.Operand}
				w.Operand = ""
			}
		}
		return b.tail(n, []W{w})
	}
	// generated sibling
	if _, ok := b.funcs[n.Fn]; !ok {
		return nil
	}
	fam, role := familyRole(n.Fn)
	crole, ok := b.cfg.callRoles[role]
	if !ok {
		return nil
	}
	w := &WCall{Fn: n.Fn, Family: fam, Role: crole, Pos: n.Pos}
	sig := n.Fn.Type().(*types.Signature)
	if sig.Recv() != nil {
		w.Operand = b.canon(n.Recv)
	}
	nNat, nVal := 0, 0
	for i := 0; i < sig.Params().Len() && i < len(n.Args); i++ {
		r, _ := classifyParam(sig.Params().At(i), i, &nNat, &nVal)
		switch r {
		case "nat":
			w.Nat = append(w.Nat, b.canon(n.Args[i]))
		case "val":
			if w.Operand == "" {
				w.Operand = b.canon(n.Args[i])
			} else {
				w.Operand += "," + b.canon(n.Args[i])
			}
		}
	}
	return b.tail(n, []W{w})
}

func (b *wireBuilder) tail(n *CallN, l []W) []W {
	return l
}

// ---------------------------------------------------------------------------------------------
// normalisers

// normUnion recognises `nat L; switch L { case C: item.index = i; … }` (reader) and
// `nat _T[item.index].TLTag; switch item.index {…}` (writer).
func (b *wireBuilder) unionReader(blk Block) (Block, *WUnion, bool) {
	for i := 0; i+1 < len(blk); i++ {
		call, ok := blk[i].(*CallN)
		if !ok || call.Fn == nil || !isBasictl(call.Fn.Pkg()) || call.Fn.Name() != "NatRead" || len(call.Args) != 2 {
			continue
		}
		sw, ok := blk[i+1].(*SwitchN)
		if !ok || sw.Tag != call.Args[1] || !localRx.MatchString(sw.Tag) {
			continue
		}
		u := &WUnion{Tags: map[string]string{}, Arms: map[string][]W{}, Pos: sw.Pos}
		for _, c := range sw.Cases {
			if c.Default {
				body := b.build(c.Body, "r")
				u.DefaultFail = len(body) == 1 && isFail(body[0])
				continue
			}
			idx := ""
			var rest Block
			for _, s := range c.Body {
				if a, ok := s.(*AssignN); ok && len(a.LHS) == 1 && strings.HasSuffix(a.LHS[0], ".index") && a.Tok == token.ASSIGN {
					idx = a.RHS[0]
					continue
				}
				rest = append(rest, s)
			}
			if idx == "" || len(c.Vals) != 1 {
				b.problems = append(b.problems, "union reader case without a single constant tag and index assignment")
				return nil, nil, false
			}
			if _, dup := u.Tags[idx]; dup {
				b.problems = append(b.problems, "union reader assigns the same index in two cases: "+idx)
			}
			u.Tags[idx] = c.Vals[0]
			u.Arms[idx] = stripRet(b.build(rest, "r"))
		}
		return blk[:i], u, true
	}
	return nil, nil, false
}

func isFail(w W) bool { _, ok := w.(*WFail); return ok }

func stripRet(l []W) []W {
	for len(l) > 0 {
		if _, ok := l[len(l)-1].(*WRet); ok {
			l = l[:len(l)-1]
			continue
		}
		break
	}
	return l
}

// unionTable resolves a package-level `var _T = [N]UnionElement{{TLTag: C, …}, …}`.
func unionTable(co *Corpus, name string) (map[string]string, bool) {
	for _, p := range co.Pkgs {
		obj := p.Types.Scope().Lookup(name)
		if obj == nil {
			continue
		}
		for _, f := range p.Syntax {
			for _, d := range f.Decls {
				gd, ok := d.(*ast.GenDecl)
				if !ok || gd.Tok != token.VAR {
					continue
				}
				for _, sp := range gd.Specs {
					vs := sp.(*ast.ValueSpec)
					for i, id := range vs.Names {
						if p.TypesInfo.Defs[id] != obj || i >= len(vs.Values) {
							continue
						}
						cl, ok := vs.Values[i].(*ast.CompositeLit)
						if !ok {
							return nil, false
						}
						out := map[string]string{}
						for k, el := range cl.Elts {
							ecl, ok := el.(*ast.CompositeLit)
							if !ok {
								return nil, false
							}
							for _, fe := range ecl.Elts {
								kv, ok := fe.(*ast.KeyValueExpr)
								if !ok {
									continue
								}
								if kid, ok := kv.Key.(*ast.Ident); ok && kid.Name == "TLTag" {
									if tv, ok := p.TypesInfo.Types[kv.Value]; ok && tv.Value != nil {
										out[fmt.Sprintf("#%d", k)] = constStr(tv.Value)
									}
								}
							}
						}
						return out, true
					}
				}
			}
		}
	}
	return nil, false
}

var tagTableRx = regexp.MustCompile(`^G:(\w+)\[item\.index\]\.TLTag$`)

func (b *wireBuilder) unionWriter(blk Block) (Block, *WUnion, Block, bool) {
	for i := 0; i < len(blk); i++ {
		call, ok := blk[i].(*CallN)
		if !ok || call.Fn == nil || !isBasictl(call.Fn.Pkg()) || call.Fn.Name() != "NatWrite" || len(call.Args) != 2 {
			continue
		}
		m := tagTableRx.FindStringSubmatch(call.Args[1])
		if m == nil {
			continue
		}
		tags, ok := unionTable(b.co, m[1])
		if !ok {
			b.problems = append(b.problems, "cannot resolve union tag table "+m[1])
			return nil, nil, nil, false
		}
		u := &WUnion{Tags: tags, Arms: map[string][]W{}, DefaultFail: true, Pos: call.Pos}
		rest := blk[i+1:]
		if len(rest) > 0 {
			if sw, ok := rest[0].(*SwitchN); ok && sw.Tag == "item.index" {
				for _, c := range sw.Cases {
					if c.Default {
						continue
					}
					for _, v := range c.Vals {
						u.Arms[v] = stripRet(b.build(c.Body, "w"))
					}
				}
				rest = rest[1:]
			}
		}
		return blk[:i], u, rest, true
	}
	return nil, nil, nil, false
}

// buildFunc produces the normalised wire tree of a whole function.
func (b *wireBuilder) buildFunc(dir string) []W {
	b.noteLocals(b.ir.Body)
	var l []W
	if dir == "r" {
		if pre, u, ok := b.unionReader(b.ir.Body); ok {
			l = append(b.build(pre, dir), u)
		} else {
			l = b.build(b.ir.Body, dir)
		}
	} else {
		if pre, u, rest, ok := b.unionWriter(b.ir.Body); ok {
			l = append(b.build(pre, dir), u)
			l = append(l, b.build(rest, dir)...)
		} else {
			l = b.build(b.ir.Body, dir)
		}
	}
	l = normalise(l, dir)
	return l
}

// normalise applies the idiom rewrites bottom-up.
func normalise(l []W, dir string) []W {
	var out []W
	for _, w := range l {
		switch w := w.(type) {
		case *WIf:
			w.Then = normalise(w.Then, dir)
			w.Else = normalise(w.Else, dir)
			out = append(out, normIf(w, dir)...)
		case *WLoop:
			w.Body = normalise(w.Body, dir)
			if len(realOps(w.Body)) == 0 {
				continue
			}
			out = append(out, w)
		case *WSwitch:
			empty := true
			for k := range w.Arms {
				w.Arms[k] = stripRet(normalise(w.Arms[k], dir))
				if len(realOps(w.Arms[k])) > 0 || hasFail(w.Arms[k]) {
					empty = false
				}
			}
			if !empty {
				out = append(out, w)
			}
		case *WUnion:
			for k := range w.Arms {
				w.Arms[k] = stripRet(normalise(w.Arms[k], dir))
			}
			out = append(out, w)
		case *WRet:
			out = append(out, w)
		default:
			out = append(out, w)
		}
	}
	// counted: [nat len(X)] … [loop X]
	out = normCounted(out)
	return out
}

func hasFail(l []W) bool {
	for _, w := range l {
		switch w := w.(type) {
		case *WFail:
			return true
		case *WIf:
			if hasFail(w.Then) || hasFail(w.Else) {
				return true
			}
		}
	}
	return false
}

// realOps returns the wire-relevant elements (no ret, no facts).
func realOps(l []W) []W {
	var out []W
	for _, w := range l {
		switch w.(type) {
		case *WRet, *WFact:
			continue
		}
		out = append(out, w)
	}
	return out
}

func normIf(w *WIf, dir string) []W {
	thenOps, elseOps := realOps(w.Then), realOps(w.Else)
	// error guard: if C { fail }  → fact, rest continues
	if len(thenOps) == 1 && isFail(thenOps[0]) {
		res := []W{&WFact{Kind: "guard", A: w.Cond.String(), Pos: w.Pos}}
		return append(res, w.Else...)
	}
	if len(elseOps) == 1 && isFail(elseOps[0]) {
		res := []W{&WFact{Kind: "guard", A: w.Cond.Not().String(), Pos: w.Pos}}
		return append(res, w.Then...)
	}
	// writer bool: if X { tag T; rest } else { tag F; rest2 }
	if dir == "w" && (w.Cond.Kind == "bool") && len(thenOps) >= 1 && len(elseOps) >= 1 {
		t, ok1 := thenOps[0].(*WPrim)
		f, ok2 := elseOps[0].(*WPrim)
		if ok1 && ok2 && t.Kind == "tag" && f.Kind == "tag" {
			tC, fC := t.Consts[0], f.Consts[0]
			cond := w.Cond
			if cond.Neg {
				tC, fC = fC, tC
				cond = cond.Not()
				thenOps, elseOps = elseOps, thenOps
			}
			res := []W{&WPrim{Kind: "booltag", Operand: cond.X, Consts: []string{fC, tC}, Pos: w.Pos}}
			rt, re := thenOps[1:], elseOps[1:]
			if len(rt) > 0 || len(re) > 0 {
				res = append(res, &WIf{Cond: cond, Then: rt, Else: re, Pos: w.Pos})
			}
			if terminates(w.Then) && terminates(w.Else) {
				res = append(res, &WRet{Pos: w.Pos})
			}
			return res
		}
	}
	// nil check with the same effect on both arms (recursive pointer written as zero value)
	if w.Cond.Kind == "cmp" && w.Cond.Y == "nil" && len(thenOps) > 0 && len(elseOps) > 0 {
		a, bb := wString(anonymise(thenOps, w.Cond.X)), wString(anonymise(elseOps, w.Cond.X))
		if a == bb {
			keep := w.Else
			if w.Cond.Neg { // X == nil → else is the non-nil arm
				keep = w.Else
			} else {
				keep = w.Then
			}
			return keep
		}
	}
	// `if len(X) != 0 { loop X }` ≡ `loop X`
	if w.Cond.Kind == "nz" && strings.HasPrefix(w.Cond.X, "len(") {
		coll := strings.TrimSuffix(strings.TrimPrefix(w.Cond.X, "len("), ")")
		body, other := thenOps, elseOps
		if w.Cond.Neg {
			body, other = elseOps, thenOps
		}
		if len(other) == 0 && len(body) > 0 {
			all := true
			for _, o := range body {
				switch o := o.(type) {
				case *WLoop:
					all = all && o.Over == coll
				case *WCounted:
					all = all && o.Coll == coll
				default:
					all = false
				}
			}
			if all {
				if w.Cond.Neg {
					return w.Else
				}
				return w.Then
			}
		}
	}
	if len(thenOps) == 0 && len(elseOps) == 0 {
		// no wire effect; keep termination structure
		if terminates(w.Then) && terminates(w.Else) {
			return []W{&WRet{Pos: w.Pos}}
		}
		if terminates(w.Then) || terminates(w.Else) {
			// conditional early exit without wire effect (e.g. `if len(m)==0 {return w}`)
			return []W{&WFact{Kind: "early-exit", A: w.Cond.String(), Pos: w.Pos}}
		}
		return nil
	}
	return []W{w}
}

// anonymise replaces `$Type` locals and the given pointer expression by the same placeholder.
func anonymise(l []W, ptr string) []W {
	var out []W
	for _, w := range l {
		switch w := w.(type) {
		case *WCall:
			c := *w
			if c.Operand == ptr || strings.HasPrefix(c.Operand, "$") {
				c.Operand = "@"
			}
			out = append(out, &c)
		case *WPrim:
			c := *w
			if c.Operand == ptr || strings.HasPrefix(c.Operand, "$") {
				c.Operand = "@"
			}
			out = append(out, &c)
		default:
			out = append(out, w)
		}
	}
	return out
}

func normCounted(l []W) []W {
	for i := 0; i < len(l); i++ {
		p, ok := l[i].(*WPrim)
		if !ok || p.Kind != "nat" && p.Kind != "size" {
			continue
		}
		if !strings.HasPrefix(p.Operand, "len(") {
			continue
		}
		coll := strings.TrimSuffix(strings.TrimPrefix(p.Operand, "len("), ")")
		// next real op must be the loop over coll (facts in between are kept before)
		for j := i + 1; j < len(l); j++ {
			switch w := l[j].(type) {
			case *WFact:
				continue
			case *WLoop:
				if w.Over == coll {
					var res []W
					res = append(res, l[:i]...)
					res = append(res, l[i+1:j]...)
					res = append(res, &WCounted{Coll: coll, Body: w.Body, Pos: p.Pos})
					res = append(res, l[j+1:]...)
					return normCounted(res)
				}
			}
			break
		}
	}
	return l
}

// ---------------------------------------------------------------------------------------------
// comparison

// wireCanon renders the wire tree without facts and trailing returns, for duality comparison.
func wireCanon(l []W) string {
	var sb strings.Builder
	canonList(&sb, l, "")
	return sb.String()
}

func canonList(sb *strings.Builder, l []W, ind string) {
	for _, w := range l {
		switch w := w.(type) {
		case *WFact, *WRet:
			continue
		case *WIf:
			c := w.Cond
			th, el := w.Then, w.Else
			if c.Neg {
				c = c.Not()
				th, el = el, th
			}
			fmt.Fprintf(sb, "%sif %s\n", ind, c)
			canonList(sb, th, ind+"  ")
			if len(realOps(el)) > 0 {
				fmt.Fprintf(sb, "%selse\n", ind)
				canonList(sb, el, ind+"  ")
			}
		case *WLoop:
			fmt.Fprintf(sb, "%sloop %s\n", ind, w.Over)
			canonList(sb, w.Body, ind+"  ")
		case *WCounted:
			fmt.Fprintf(sb, "%scounted %s\n", ind, w.Coll)
			canonList(sb, w.Body, ind+"  ")
		case *WUnion:
			fmt.Fprintf(sb, "%sunion\n", ind)
			for _, k := range sortedKeys(w.Tags) {
				fmt.Fprintf(sb, "%s  variant %s tag %s\n", ind, k, w.Tags[k])
				canonList(sb, w.Arms[k], ind+"    ")
			}
		case *WSwitch:
			fmt.Fprintf(sb, "%sswitch %s\n", ind, w.Tag)
			for _, k := range sortedKeys(w.Arms) {
				if len(realOps(w.Arms[k])) == 0 {
					continue
				}
				fmt.Fprintf(sb, "%s  case %s\n", ind, k)
				canonList(sb, w.Arms[k], ind+"    ")
			}
		default:
			w.ws(sb, ind)
		}
	}
}

func facts(l []W, kind string) []*WFact {
	var out []*WFact
	var rec func(l []W)
	rec = func(l []W) {
		for _, w := range l {
			switch w := w.(type) {
			case *WFact:
				if w.Kind == kind {
					out = append(out, w)
				}
			case *WIf:
				rec(w.Then)
				rec(w.Else)
			case *WLoop:
				rec(w.Body)
			case *WCounted:
				rec(w.Body)
			case *WSwitch:
				for _, k := range sortedKeys(w.Arms) {
					rec(w.Arms[k])
				}
			case *WUnion:
				for _, k := range sortedKeys(w.Arms) {
					rec(w.Arms[k])
				}
			}
		}
	}
	rec(l)
	return out
}

func firstDiff(a, b string) string {
	la, lb := strings.Split(a, "\n"), strings.Split(b, "\n")
	for i := 0; i < len(la) || i < len(lb); i++ {
		x, y := "<end>", "<end>"
		if i < len(la) {
			x = strings.TrimSpace(la[i])
		}
		if i < len(lb) {
			y = strings.TrimSpace(lb[i])
		}
		if x != y {
			return fmt.Sprintf("element %d: reader side has `%s`, writer side has `%s`", i+1, x, y)
		}
	}
	return "equal"
}

var _ = constant.MakeBool
var _ = sort.Strings
