package main

import (
	"context"
	"fmt"
	"go/ast"
	"go/token"
	"go/types"
	"os"
	"os/exec"
	"path/filepath"
	"sort"
	"strings"
	"sync"
	"time"

	"golang.org/x/tools/go/packages"
)

// ---------------------------------------------------------------------------------------------
// E1: corpus builder. tl2gen is built from the repository's working tree and emits Go sources for
// the corpora below into a scratch module; the emitted code is only loaded and type-checked.

type CorpusSpec struct {
	Name    string
	Schemas []string // relative to repo
	Flags   []string
	// facts the rules need about the option set
	TL2         bool
	Bytes       bool
	LengthCheck bool
	Random      bool
	Split       bool
	Quick       bool
}

const tlsDir = "internal/tlcodegen/test/tls/"

func baseCorpora() []CorpusSpec {
	gm := []string{tlsDir + "goldmaster.tl", tlsDir + "goldmaster2.tl", tlsDir + "goldmaster3.tl"}
	rpc := []string{"--generateRPCCode"}
	return []CorpusSpec{
		{Name: "cases", Schemas: []string{tlsDir + "cases.tl"}, Flags: append([]string{"--tl2WhiteList=*", "--generateByteVersions=cases_bytes.", "--generateRandomCode"}, rpc...), TL2: true, Bytes: true, LengthCheck: true, Random: true, Quick: true},
		{Name: "casesTL1", Schemas: []string{tlsDir + "cases.tl"}, Flags: append([]string{"--generateByteVersions=cases_bytes.", "--generateRandomCode"}, rpc...), Bytes: true, LengthCheck: true, Random: true, Quick: true},
		{Name: "casesTL2", Schemas: []string{tlsDir + "cases.tl2"}, Flags: append([]string{"--tl2WhiteList=*", "--generateByteVersions=cases_bytes.", "--generateRandomCode"}, rpc...), TL2: true, Bytes: true, LengthCheck: true, Random: true, Quick: true},
		{Name: "goldmaster_nosplit", Schemas: gm, Flags: append([]string{"--tl2WhiteList=*", "--generateByteVersions=ch_proxy.,ab.,memcache.", "--generateRandomCode"}, rpc...), TL2: true, Bytes: true, LengthCheck: true, Random: true, Quick: true},
		{Name: "goldmaster", Schemas: gm, Flags: append([]string{"--split-internal", "--tl2WhiteList=*", "--generateByteVersions=ch_proxy.,ab.,memcache.", "--generateRandomCode"}, rpc...), TL2: true, Bytes: true, LengthCheck: true, Random: true, Split: true},
		{Name: "goldmasterTL1", Schemas: gm, Flags: append([]string{"--generateByteVersions=*", "--generateRandomCode"}, rpc...), Bytes: true, LengthCheck: true, Random: true},
		{Name: "schema", Schemas: []string{tlsDir + "schema.tl"}, Flags: []string{"--split-internal", "--generateByteVersions=ch_proxy.,ab.,memcache."}, Bytes: true, LengthCheck: true, Split: true},
		{Name: "rpcgen", Schemas: []string{"pkg/rpc/rpc.tl"}, Flags: []string{"--generateRandomCode"}, LengthCheck: true, Random: true, Quick: true},
		{Name: "tls", Schemas: []string{"internal/tlast/tls.tl"}, Flags: nil, LengthCheck: true},
		{Name: "client", Schemas: []string{"cmd/tl2client/test.tl", "cmd/tl2client/test.tl2"}, Flags: []string{"--tl2WhiteList=*", "--generateRandomCode"}, TL2: true, LengthCheck: true, Random: true},
		{Name: "casesNoSanity", Schemas: []string{tlsDir + "cases.tl"}, Flags: []string{"--tl2WhiteList=*", "--generateByteVersions=*", "--generateRandomCode", "--checkLengthSanity=false"}, TL2: true, Bytes: true, Random: true},
	}
}

// extra hand-written feature schemas under /verif/schemas (inputs, not oracles)
func extraCorpora() []CorpusSpec {
	var out []CorpusSpec
	entries, _ := filepath.Glob(filepath.Join(verifDir, "schemas", "*.tl"))
	sort.Strings(entries)
	for _, e := range entries {
		name := "x_" + strings.TrimSuffix(filepath.Base(e), ".tl")
		out = append(out, CorpusSpec{Name: name, Schemas: []string{e}, Flags: []string{"--tl2WhiteList=*", "--generateByteVersions=*", "--generateRandomCode"}, TL2: true, Bytes: true, LengthCheck: true, Random: true, Quick: true})
		out = append(out, CorpusSpec{Name: name + "TL1", Schemas: []string{e}, Flags: []string{"--generateRandomCode"}, LengthCheck: true, Random: true, Quick: false})
	}
	entries2, _ := filepath.Glob(filepath.Join(verifDir, "schemas", "*.tl2"))
	sort.Strings(entries2)
	for _, e := range entries2 {
		name := "x_" + strings.TrimSuffix(filepath.Base(e), ".tl2")
		out = append(out, CorpusSpec{Name: name, Schemas: []string{e}, Flags: []string{"--tl2WhiteList=*", "--generateByteVersions=*", "--generateRandomCode"}, TL2: true, Bytes: true, LengthCheck: true, Random: true, Quick: true})
		// the same schema laid out per namespace: which registry files exist depends on what each namespace contains
		out = append(out, CorpusSpec{Name: name + "Split", Schemas: []string{e}, Flags: []string{"--split-internal", "--tl2WhiteList=*", "--generateByteVersions=*", "--generateRandomCode"}, TL2: true, Bytes: true, LengthCheck: true, Random: true, Split: true, Quick: true})
	}
	return out
}

func corporaFor(tier string) []CorpusSpec {
	all := append(baseCorpora(), extraCorpora()...)
	if tier == "thorough" {
		return all
	}
	var out []CorpusSpec
	for _, c := range all {
		if c.Quick {
			out = append(out, c)
		}
	}
	return out
}

// Corpus is a loaded generated code base.
type Corpus struct {
	Spec   CorpusSpec
	Dir    string // root dir of generated code
	InRepo bool
	Pkgs   []*packages.Package
	Fset   *token.FileSet
}

type Workspace struct {
	Dir     string
	Tl2gen  string
	GenRoot string
}

func newWorkspace() (*Workspace, error) {
	dir, err := os.MkdirTemp("", "tlverif-")
	if err != nil {
		return nil, err
	}
	ws := &Workspace{Dir: dir, Tl2gen: filepath.Join(dir, "bin", "tl2gen"), GenRoot: filepath.Join(dir, "gen")}
	return ws, nil
}

func (ws *Workspace) Close() {
	if ws != nil && ws.Dir != "" && os.Getenv("TLVERIF_KEEP") == "" {
		os.RemoveAll(ws.Dir)
	}
}

func (ws *Workspace) buildGenerator() error {
	os.MkdirAll(filepath.Dir(ws.Tl2gen), 0o755)
	out, err := run(repoDir, "go", "build", "-o", ws.Tl2gen, "./cmd/tl2gen")
	if err != nil {
		return fmt.Errorf("go build ./cmd/tl2gen failed: %v\n%s", err, out)
	}
	return nil
}

func (ws *Workspace) initGenModule() error {
	os.MkdirAll(ws.GenRoot, 0o755)
	mod := "module vgen\n\ngo 1.24.0\n\nrequire github.com/VKCOM/tl v0.0.0\n\nreplace github.com/VKCOM/tl => " + repoDir + "\n"
	if err := os.WriteFile(filepath.Join(ws.GenRoot, "go.mod"), []byte(mod), 0o644); err != nil {
		return err
	}
	sum, err := os.ReadFile(filepath.Join(repoDir, "go.sum"))
	if err != nil {
		return err
	}
	return os.WriteFile(filepath.Join(ws.GenRoot, "go.sum"), sum, 0o644)
}

// generate runs tl2gen for one corpus. Returns the generator's output and error.
func (ws *Workspace) generate(spec CorpusSpec) (string, error) {
	outdir := filepath.Join(ws.GenRoot, spec.Name)
	args := []string{"--language=go", "--outdir=" + outdir, "--pkgPath=vgen/" + spec.Name + "/tl",
		"--basicPkgPath=github.com/VKCOM/tl/pkg/basictl", "--basicRPCPath=github.com/VKCOM/tl/pkg/rpc"}
	args = append(args, spec.Flags...)
	for _, s := range spec.Schemas {
		if filepath.IsAbs(s) {
			args = append(args, s)
		} else {
			args = append(args, filepath.Join(repoDir, s))
		}
	}
	// the generator under analysis may not terminate (a seeded change made it loop while allocating): bound its run
	ctx, cancel := context.WithTimeout(context.Background(), generatorTimeout)
	defer cancel()
	sh := append([]string{"-c", `ulimit -v 12000000 2>/dev/null; exec "$0" "$@"`, ws.Tl2gen}, args...)
	cmd := exec.CommandContext(ctx, "sh", sh...)
	cmd.Dir = ws.Dir
	cmd.Env = goEnv()
	out, err := cmd.CombinedOutput()
	if ctx.Err() != nil {
		return string(out), fmt.Errorf("tl2gen did not finish within %s on corpus %s (killed): %v", generatorTimeout, spec.Name, err)
	}
	return string(out), err
}

const generatorTimeout = 5 * time.Minute

const loadMode = packages.NeedName | packages.NeedFiles | packages.NeedCompiledGoFiles | packages.NeedSyntax |
	packages.NeedTypes | packages.NeedTypesInfo | packages.NeedImports | packages.NeedTypesSizes | packages.NeedDeps

func loadPackages(dir string, patterns ...string) ([]*packages.Package, *token.FileSet, error) {
	fset := token.NewFileSet()
	cfg := &packages.Config{Mode: loadMode, Dir: dir, Env: goEnv(), Fset: fset}
	pkgs, err := packages.Load(cfg, patterns...)
	if err != nil {
		return nil, nil, err
	}
	if len(pkgs) == 0 {
		return nil, nil, fmt.Errorf("no packages matched %v in %s", patterns, dir)
	}
	var errs []string
	for _, p := range pkgs {
		for _, e := range p.Errors {
			errs = append(errs, e.Error())
		}
	}
	sort.Slice(pkgs, func(i, j int) bool { return pkgs[i].PkgPath < pkgs[j].PkgPath })
	if len(errs) > 0 {
		if len(errs) > 10 {
			errs = errs[:10]
		}
		return pkgs, fset, fmt.Errorf("load/type errors:\n  %s", strings.Join(errs, "\n  "))
	}
	return pkgs, fset, nil
}

// BuildCorpora builds the generator, emits all corpora of the tier and loads them, plus the
// generated packages that are checked in and compiled into the repository's own binaries.
func (ws *Workspace) BuildCorpora(c *Check, tier string, withInRepo bool) ([]*Corpus, error) {
	t0 := time.Now()
	if err := ws.buildGenerator(); err != nil {
		return nil, err
	}
	if err := ws.initGenModule(); err != nil {
		return nil, err
	}
	specs := corporaFor(tier)
	var wg sync.WaitGroup
	genErr := make([]error, len(specs))
	genOut := make([]string, len(specs))
	for i := range specs {
		wg.Add(1)
		go func(i int) {
			defer wg.Done()
			genOut[i], genErr[i] = ws.generate(specs[i])
		}(i)
	}
	wg.Wait()
	for i, e := range genErr {
		if e != nil {
			return nil, fmt.Errorf("tl2gen failed on corpus %s: %v\n%s", specs[i].Name, e, genOut[i])
		}
	}
	tGen := time.Now()
	pats := []string{"./..."}
	if withInRepo {
		for _, s := range inRepoGen {
			pats = append(pats, "github.com/VKCOM/tl/"+strings.TrimPrefix(s.Name, "repo:")+"/...")
		}
	}
	pkgs, fset, err := loadPackages(ws.GenRoot, pats...)
	if err != nil {
		return nil, fmt.Errorf("generated corpora do not type-check: %v", err)
	}
	if os.Getenv("TLVERIF_TIMING") != "" {
		fmt.Fprintf(os.Stderr, "timing: build+gen %.1fs load %.1fs (%d pkgs)\n", tGen.Sub(t0).Seconds(), time.Since(tGen).Seconds(), len(pkgs))
	}
	var corpora []*Corpus
	for _, s := range specs {
		co := &Corpus{Spec: s, Dir: filepath.Join(ws.GenRoot, s.Name), Fset: fset}
		prefix := "vgen/" + s.Name + "/"
		for _, p := range pkgs {
			if strings.HasPrefix(p.PkgPath, prefix) {
				co.Pkgs = append(co.Pkgs, p)
			}
		}
		if len(co.Pkgs) == 0 {
			return nil, fmt.Errorf("corpus %s produced no packages", s.Name)
		}
		corpora = append(corpora, co)
	}
	if withInRepo {
		in, err := inRepoCorpora(pkgs, fset)
		if err != nil {
			return nil, err
		}
		corpora = append(corpora, in...)
	}
	names := []string{}
	npk := 0
	for _, co := range corpora {
		names = append(names, co.Spec.Name)
		npk += len(co.Pkgs)
	}
	if c != nil {
		c.Set("corpora", names)
		c.Set("packages", npk)
	}
	return corpora, nil
}

var inRepoGen = []CorpusSpec{
	{Name: "repo:pkg/rpc/internal/gen", TL2: true, LengthCheck: true},
	{Name: "repo:internal/tlast/gentlo", LengthCheck: true},
	{Name: "repo:internal/tlcodegen/test/gen/cases", TL2: true, Bytes: true, Random: true},
	{Name: "repo:internal/tlcodegen/test/gen/casesTL1", Bytes: true, Random: true},
	{Name: "repo:internal/tlcodegen/test/gen/casesTL2", TL2: true, Bytes: true, Random: true},
	{Name: "repo:internal/tlcodegen/test/gen/goldmaster_nosplit", TL2: true, Bytes: true, Random: true, LengthCheck: true},
}

func inRepoCorpora(pkgs []*packages.Package, fset *token.FileSet) ([]*Corpus, error) {
	var out []*Corpus
	for _, s := range inRepoGen {
		rel := strings.TrimPrefix(s.Name, "repo:")
		co := &Corpus{Spec: s, Dir: filepath.Join(repoDir, rel), InRepo: true, Fset: fset}
		prefix := "github.com/VKCOM/tl/" + rel
		for _, p := range pkgs {
			if p.PkgPath == prefix || strings.HasPrefix(p.PkgPath, prefix+"/") {
				if strings.HasSuffix(p.PkgPath, "/basictl") {
					continue
				}
				co.Pkgs = append(co.Pkgs, p)
			}
		}
		if len(co.Pkgs) == 0 {
			return nil, fmt.Errorf("in-repo corpus %s has no packages", s.Name)
		}
		out = append(out, co)
	}
	return out, nil
}

// ---------------------------------------------------------------------------------------------
// helpers over loaded packages

type FuncInfo struct {
	Pkg  *packages.Package
	Decl *ast.FuncDecl
	Obj  *types.Func
}

func (f *FuncInfo) Name() string { return funcDisplayName(f.Obj) }

func funcDisplayName(fn *types.Func) string {
	if fn == nil {
		return "<nil>"
	}
	sig := fn.Type().(*types.Signature)
	if r := sig.Recv(); r != nil {
		t := r.Type()
		if p, ok := t.(*types.Pointer); ok {
			t = p.Elem()
		}
		if n, ok := t.(*types.Named); ok {
			return n.Obj().Name() + "." + fn.Name()
		}
	}
	return fn.Name()
}

// allFuncs indexes every function declaration of the corpus by its types.Func.
func (co *Corpus) allFuncs() map[*types.Func]*FuncInfo {
	m := map[*types.Func]*FuncInfo{}
	for _, p := range co.Pkgs {
		for _, f := range p.Syntax {
			for _, d := range f.Decls {
				fd, ok := d.(*ast.FuncDecl)
				if !ok || fd.Body == nil {
					continue
				}
				if obj, ok := p.TypesInfo.Defs[fd.Name].(*types.Func); ok {
					m[obj] = &FuncInfo{Pkg: p, Decl: fd, Obj: obj}
				}
			}
		}
	}
	return m
}

func posStr(fset *token.FileSet, p token.Pos) string {
	if !p.IsValid() {
		return "-"
	}
	pp := fset.Position(p)
	return fmt.Sprintf("%s:%d", pp.Filename, pp.Line)
}

// loadRepoCorpus loads hand-written packages of the repository (patterns relative to the repo root)
// as a pseudo-corpus so that the IR tooling can be used on them.
func loadRepoCorpus(patterns ...string) (*Corpus, error) {
	pkgs, fset, err := loadPackages(repoDir, patterns...)
	if err != nil {
		return nil, err
	}
	return &Corpus{Spec: CorpusSpec{Name: "repo"}, Dir: repoDir, InRepo: true, Pkgs: pkgs, Fset: fset}, nil
}
