package main

import (
	"fmt"
	"go/ast"
	"go/token"
	"regexp"
	"strconv"
	"strings"
)

func init() { register("C06", checkC06) }

// jsonArm: one `case "key":` arm of a struct reader.
type jsonArm struct {
	Key      string
	Prop     string // propXPresented local
	TrueVal  string // trueTypeXValue local ("" if none)
	Field    string // item.F written by the arm ("" for true-type / raw)
	Raw      string // rawX local
	TL2Bit   string // "item.tl2maskN|<value>" set inside the arm
	DupGuard bool
	Node     *CaseN
}

var (
	bitCondRx  = regexp.MustCompile(`bit\(([^,()]+),(\d+)\)`)
	orAssignRx = regexp.MustCompile(`^#(\d+)$`)
)

// structReaderArms extracts the key switch of a struct-like ReadJSONGeneral.
func (g *genCtx) structReaderArms(ir *FuncIR) (arms []*jsonArm, sw *SwitchN, loop *LoopN, defaultOK bool) {
	walkBlock(ir.Body, nil, func(n Node, gs []Guard) {
		s, ok := n.(*SwitchN)
		if !ok || sw != nil || !strings.HasPrefix(s.Tag, "L") {
			return
		}
		for _, gd := range gs {
			if gd.Kind == "loop" {
				loop, _ = gd.Node.(*LoopN)
			}
		}
		if loop == nil {
			return
		}
		sw = s
	})
	if sw == nil {
		return
	}
	for _, cs := range sw.Cases {
		if cs.Default {
			if len(cs.Body) > 0 {
				if cn, ok := cs.Body[0].(*CallN); ok && cn.Tail && cn.Fn != nil && strings.HasPrefix(cn.Fn.Name(), "Error") {
					defaultOK = true
				}
				if rt, ok := cs.Body[len(cs.Body)-1].(*ReturnN); ok && len(rt.Vals) > 0 && strings.Contains(rt.Vals[len(rt.Vals)-1], "Error") {
					defaultOK = true
				}
			}
			continue
		}
		if len(cs.Vals) != 1 {
			continue
		}
		k, ok := constFragment(cs.Vals[0])
		if !ok {
			continue
		}
		a := &jsonArm{Key: k, Node: cs}
		if len(cs.Body) >= 2 {
			if in, ok := cs.Body[0].(*IfN); ok && in.Cond.Kind == "bool" && len(in.Then) > 0 {
				if as, ok := cs.Body[1].(*AssignN); ok && len(as.LHS) == 1 && as.LHS[0] == in.Cond.String() && as.RHS[0] == "true" {
					a.Prop = as.LHS[0]
					// the guard's body must leave with an error
					switch t := in.Then[len(in.Then)-1].(type) {
					case *ReturnN:
						a.DupGuard = true
						_ = t
					}
				}
			}
		}
		walkBlock(cs.Body, nil, func(m Node, _ []Guard) {
			switch m := m.(type) {
			case *CallN:
				if m.Fn == nil {
					return
				}
				nm := m.Fn.Name()
				switch {
				case nm == "Json2ReadBool" && len(m.Args) == 2 && strings.HasPrefix(m.Args[1], "L"): // a bool read into a local, not into a field: a true-typed (bit) field
					a.TrueVal = m.Args[1]
				case strings.HasPrefix(nm, "Json2Read") && len(m.Args) == 2 && strings.HasPrefix(m.Args[1], "item."):
					a.Field = m.Args[1]
				case strings.Contains(nm, "ReadJSON"):
					if strings.HasPrefix(m.Recv, "item.") {
						a.Field = m.Recv
					}
					for _, arg := range m.Args {
						if strings.HasPrefix(arg, "item.") && a.Field == "" {
							a.Field = arg
						}
					}
				case nm == "Raw" && len(m.Results) == 1:
					a.Raw = m.Results[0]
				}
			case *AssignN:
				if len(m.LHS) == 1 && strings.HasPrefix(m.LHS[0], "item.tl2mask") && m.Tok.String() == "|=" {
					a.TL2Bit = m.LHS[0] + "|" + m.RHS[0]
				}
			}
		})
		arms = append(arms, a)
	}
	return
}

func blockText(b Block) string {
	var sb strings.Builder
	dumpBlock(&sb, b, "")
	return sb.String()
}

func checkC06(c *Check) {
	c.Explanation = "Alternative and invalid JSON forms, decided as a rule table over every generated ReadJSONGeneral and the generated helpers (no JSON is parsed): struct readers — unknown key → the key switch's default arm returns an error; duplicate key → every arm starts with `if propK {return error}; propK = true`; omitted field → after the loop `if !propK {…}` gives the field its empty value (zero, Reset, or a read from a nil lexer); masked field implies its mask bit → `if propK|trueK { mask |= 1<<b }` for local masks with the bit the JSON writer tests for that key, an error when an external mask has the bit clear (types without TL2), and the TL2 presence bit set in the arm; explicit false for a true-typed field whose mask bit is set → error (types without TL2); tuples — more elements than the size parameter → error, fewer → ErrorWrongSequenceLength; unions/enums — go through Json2ReadUnion, unknown type name → error, every arm assigns its variant index; Maybe — goes through Json2ReadMaybe, Ok taken from it, value read only when ok; helpers — Json2ReadUnion accepts a bare string and {type,value} and rejects duplicates, other keys and a missing type; Json2ReadMaybe implements the ok/value truth table (ok:false with value → error, value without ok → true). Numbers given as strings are C34's reader tables."
	c.NotCovered = "that these pieces compose to 'same value as the canonical form' for every value; dictionary objects with repeated keys (the map form keeps the last)"
	c.Trusted = []string{"go/types", "easyjson lexer"}
	withCorpora(c, true, func(g *genCtx) {
		co := g.co.Spec.Name
		for _, fam := range g.families() {
			roles := g.byFam[fam]
			rd := roles["ReadJSONGeneral"]
			if rd == nil {
				continue
			}
			name := co + ":" + shortFam(fam)
			ir := g.ir(rd)
			pos := posStr(g.co.Fset, rd.Decl.Pos())
			txt := irText(ir)
			switch {
			case strings.Contains(txt, "call Json2ReadUnion recv="):
				// union / enum
				var sw *SwitchN
				for _, n := range ir.Body {
					if s, ok := n.(*SwitchN); ok {
						sw = s
					}
				}
				if sw == nil {
					c.Undecided("json-union/shape", name, pos, "no switch on the type name")
					continue
				}
				defOK, arms, idxOK := false, 0, true
				for _, cs := range sw.Cases {
					if cs.Default {
						if len(cs.Body) > 0 {
							if cn, ok := cs.Body[0].(*CallN); ok && cn.Tail && cn.Fn != nil && cn.Fn.Name() == "ErrorInvalidUnionTagJSON" {
								defOK = true
							}
						}
						continue
					}
					arms++
					has := false
					for _, m := range cs.Body {
						if as, ok := m.(*AssignN); ok && len(as.LHS) == 1 && as.LHS[0] == "item.index" && strings.HasPrefix(as.RHS[0], "#") {
							has = true
						}
					}
					if !has {
						idxOK = false
					}
					// a variant with content is decoded at the top level of its arm — with a nil lexer when "value" is
					// omitted — so that the omitted value means the empty value (also in a reused object)
					nested, topLevel := 0, 0
					walkBlock(cs.Body, nil, func(m Node, _ []Guard) {
						if cn, ok := m.(*CallN); ok && cn.Fn != nil && strings.Contains(cn.Fn.Name(), "ReadJSON") && g.funcs[cn.Fn] != nil {
							nested++
						}
					})
					for _, m := range cs.Body {
						if cn, ok := m.(*CallN); ok && cn.Fn != nil && strings.Contains(cn.Fn.Name(), "ReadJSON") && g.funcs[cn.Fn] != nil {
							topLevel++
						}
					}
					if nested > 0 {
						c.Ob("json-union/omitted-value-means-empty", name+"/"+strings.Trim(cs.Vals[0], `"`), nested == topLevel, posStr(g.co.Fset, cs.Pos), fmt.Sprintf("the variant reader is called unconditionally in the arm (%d of %d calls at top level): without \"value\" it runs on a nil lexer and resets the variant", topLevel, nested))
					}
				}
				c.Ob("json-union/unknown-type-rejected", name, defOK, pos, "the default arm of the type-name switch returns ErrorInvalidUnionTagJSON")
				c.Ob("json-union/arm-selects-variant", name, idxOK && arms > 0, pos, fmt.Sprintf("%d arms, each assigns item.index a constant", arms))
				continue
			case strings.Contains(txt, "call Json2ReadMaybe recv="):
				ok := regexp.MustCompile(`^call Json2ReadMaybe recv=\([^\n]*\) -> \[\$ \$ \$\]\nif err\(\$\)\n  return \$\nassign item\.Ok = \$\nif \$\n`).MatchString(txt)
				c.Ob("json-maybe/through-helper", name, ok, pos, "Ok comes from Json2ReadMaybe and the value is read only under it")
				continue
			}
			arms, sw, loop, defOK := g.structReaderArms(ir)
			if sw == nil {
				// arrays
				if strings.Contains(txt, "loop for over= count=false cond=!val.IsDelim(#93)") && strings.Contains(txt, "nat:n") {
					longer := regexp.MustCompile(`if \(nat:n <= \$\)\n(\s+[^\n]*\n)*?\s+call ErrorInvalidJSON recv=\("[^"]*", "array is longer than expected"\) -> \[\] !err tail\n\s+return <tail>`).MatchString(txt)
					shorter := regexp.MustCompile(`if \(\$ != nat:n\)\n\s+call ErrorWrongSequenceLength recv=\("[^"]*", \$, nat:n\) -> \[\] !err tail\n\s+return <tail>`).MatchString(txt)
					c.Ob("json-tuple/length-enforced", name, longer && shorter, pos, fmt.Sprintf("more elements than the size parameter rejected=%v; fewer rejected=%v", longer, shorter))
				}
				continue
			}
			c.Ob("json-struct/unknown-key-rejected", name, defOK, pos, "the key switch has a default arm that returns an error")
			// a value whose shape depends on a sibling field (a nat argument taken from the receiver) is parsed only after
			// the key loop, when that sibling has its final value — JSON keys may come in any order
			if loop != nil {
				early := token.NoPos
				walkBlock(loop.Body, nil, func(m Node, _ []Guard) {
					cn, ok := m.(*CallN)
					if !ok || cn.Fn == nil || g.funcs[cn.Fn] == nil {
						return
					}
					for _, e := range cn.ArgExprs {
						if t := rd.Pkg.TypesInfo.TypeOf(e); t != nil && isUint32(t) {
							if sel, ok := ast.Unparen(e).(*ast.SelectorExpr); ok {
								if id, ok := sel.X.(*ast.Ident); ok && ir.Recv != nil && rd.Pkg.TypesInfo.Uses[id] == ir.Recv && early == token.NoPos {
									early = cn.Pos
								}
							}
						}
					}
				})
				at := pos
				if early != token.NoPos {
					at = posStr(g.co.Fset, early)
				}
				c.Ob("json-struct/sibling-dependent-value-parsed-after-keys", name, early == token.NoPos, at, "inside the key loop no nested reader is given a nat argument read from a sibling field (such values are kept raw and parsed after the loop)")
			}
			post := Block{}
			// statements after the loop's enclosing `if in != nil`
			for i, n := range ir.Body {
				if in, ok := n.(*IfN); ok && containsNode(in.Then, loop) {
					post = ir.Body[i+1:]
				}
			}
			postTxt := blockText(post)
			tl2 := strings.Contains(txt, "item.tl2mask")
			// writer guards per key
			wguards := map[string]string{}
			if w := roles["WriteJSONOpt"]; w != nil {
				wguards = g.jsonWriterGuards(w)
			}
			for _, a := range arms {
				key := name + "/" + a.Key
				c.Ob("json-struct/duplicate-key-rejected", key, a.Prop != "" && a.DupGuard, posStr(g.co.Fset, a.Node.Pos), "arm starts with `if "+a.Prop+" {return error}` and then sets it")
				if a.Prop == "" {
					continue
				}
				// omitted → empty
				if a.TrueVal == "" {
					field := a.Field
					if field == "" && a.Raw != "" {
						// raw value decoded after the loop: find the field from that statement
						if m := regexp.MustCompile(`lit:JsonLexer\{Data:` + regexp.QuoteMeta(a.Raw) + `\}\n\s+call [^\n]*?(item\.\w+)`).FindStringSubmatch(postTxt); m != nil {
							field = m[1]
						}
					}
					ok := false
					if field != "" {
						for _, n := range post {
							if in, isIf := n.(*IfN); isIf && in.Cond.String() == "!"+a.Prop {
								if strings.Contains(blockText(in.Then), field) {
									ok = true
								}
							}
						}
					}
					c.Ob("json-struct/omitted-field-becomes-empty", key, ok, posStr(g.co.Fset, a.Node.Pos), fmt.Sprintf("after the loop `if !%s` gives %s its empty value", a.Prop, field))
				}
				// mask inference
				wg := wguards[a.Key]
				if wg == "" {
					continue
				}
				m := bitCondRx.FindStringSubmatch(wg)
				if m == nil {
					continue
				}
				maskVar, bit := m[1], m[2]
				setter := a.Prop
				if a.TrueVal != "" {
					setter = a.TrueVal
				}
				bitN, _ := strconv.Atoi(bit)
				val := "#" + strconv.FormatUint(1<<uint(bitN), 10)
				switch {
				case strings.HasPrefix(maskVar, "item.tl2mask"):
					c.Ob("json-struct/presence-bit-set-by-key", key, a.TL2Bit == maskVar+"|"+val, posStr(g.co.Fset, a.Node.Pos), fmt.Sprintf("writer emits the key under %s; the reader arm sets %s |= %s (found %q)", wg, maskVar, val, a.TL2Bit))
				case strings.HasPrefix(maskVar, "item."):
					// the whole chain: the field's mask bit, and if that mask is itself a masked field, its bit in the
					// outer mask, and so on (an external outer mask must have the bit set instead)
					body := ""
					for _, n := range post {
						if in, isIf := n.(*IfN); isIf && in.Cond.String() == setter {
							body += blockText(in.Then)
						}
					}
					var missing []string
					chain := []string{}
					mv, bv := maskVar, bit
					for depth := 0; depth < 6; depth++ {
						bn, _ := strconv.Atoi(bv)
						v := "#" + strconv.FormatUint(1<<uint(bn), 10)
						if strings.HasPrefix(mv, "item.") {
							chain = append(chain, mv+" |= "+v)
							if !strings.Contains(body, "assign "+mv+" |= "+v+"\n") {
								missing = append(missing, mv+" |= "+v)
							}
						} else if strings.HasPrefix(mv, "nat:") {
							chain = append(chain, "error unless bit("+mv+","+bv+")")
							if !tl2 && !strings.Contains(body, "if !bit("+mv+","+bv+")\n  call ErrorInvalidJSON") {
								missing = append(missing, "error unless bit("+mv+","+bv+")")
							}
							break
						} else {
							break
						}
						// is this mask itself a masked field?
						next := ""
						for _, a2 := range arms {
							if a2.Field == mv {
								next = wguards[a2.Key]
							}
						}
						m2 := bitCondRx.FindStringSubmatch(next)
						if m2 == nil || strings.HasPrefix(m2[1], "item.tl2mask") {
							break
						}
						mv, bv = m2[1], m2[2]
					}
					c.Ob("json-struct/mask-bit-implied-by-field", key, len(missing) == 0, posStr(g.co.Fset, a.Node.Pos), fmt.Sprintf("writer emits the key under %s; after the loop `if %s {…}` must set the whole mask chain %v; missing: %v", wg, setter, chain, missing))
				case strings.HasPrefix(maskVar, "nat:") && !tl2:
					want := "if " + setter + "\n  if !bit(" + maskVar + "," + bit + ")\n    call ErrorInvalidJSON"
					c.Ob("json-struct/external-mask-bit-required", key, strings.Contains(postTxt, want), posStr(g.co.Fset, a.Node.Pos), fmt.Sprintf("field given while external mask %s bit %s is clear → error", maskVar, bit))
				}
				if a.TrueVal != "" && !tl2 {
					want := "if and(" + a.Prop + ",!" + a.TrueVal + ",bit(" + maskVar + "," + bit + "))\n  call ErrorInvalidJSON"
					c.Ob("json-struct/explicit-false-with-mask-bit-rejected", key, strings.Contains(postTxt, want), posStr(g.co.Fset, a.Node.Pos), fmt.Sprintf("`%q:false` while %s bit %s is set → error", a.Key, maskVar, bit))
				}
			}
		}
		// helpers (one copy per generated package tree)
		for fn, fi := range g.funcs {
			switch fn.Name() {
			case "Json2ReadUnion":
				t := irText(g.ir(fi))
				str := strings.Contains(t, "if !(val2.CurrentToken() != #2)\n  call Lexer.UnsafeString recv=val2() -> [<ret0>]\n  return <call>, nil, nil\n")
				dup := strings.Count(t, "ErrorInvalidJSONWithDuplicatingKeys(val, ") == 2
				other := strings.Contains(t, "default:\n      return \"\", nil, ErrorInvalidJSON(")
				missing := strings.Contains(t, "if !$\n  return \"\", nil, ErrorInvalidJSON(val, \"field 'type' is absent\")\nreturn $, $, nil\n")
				c.Ob("json-helper/union-forms", co+":"+fi.Pkg.Name+".Json2ReadUnion", str && dup && other && missing, posStr(g.co.Fset, fi.Decl.Pos()), fmt.Sprintf("bare string accepted=%v; duplicate type/value rejected=%v; other keys rejected=%v; missing type rejected=%v", str, dup, other, missing))
			case "Json2ReadMaybe":
				t := irText(g.ir(fi))
				conflict := strings.Contains(t, "if and($,!$,($ != nil))\n  return false, nil, ErrorInvalidJSON(")
				implied := strings.Contains(t, "if and(!$,($ != nil))\n  assign $ = true\nreturn $, $, nil\n")
				dup := strings.Count(t, "ErrorInvalidJSONWithDuplicatingKeys(val, ") == 2
				other := strings.Contains(t, "default:\n      return false, nil, ErrorInvalidJSON(")
				// the same locals: raw text check
				raw := blockText(g.ir(fi).Body)
				m := regexp.MustCompile(`if and\((L\d+:\w+),!(L\d+:\w+),\((L\d+:\w+) != nil\)\)\n\s+return false[^\n]*\nif and\(!(L\d+:\w+),\((L\d+:\w+) != nil\)\)\n\s+assign (L\d+:\w+) = true\nreturn (L\d+:\w+), (L\d+:\w+), nil`).FindStringSubmatch(raw)
				same := m != nil && m[1] == m[4] && m[2] == m[6] && m[2] == m[7] && m[3] == m[5] && m[3] == m[8]
				c.Ob("json-helper/maybe-truth-table", co+":"+fi.Pkg.Name+".Json2ReadMaybe", conflict && implied && dup && other && same, posStr(g.co.Fset, fi.Decl.Pos()), fmt.Sprintf("ok:false with value rejected=%v; value without ok means true=%v; duplicates rejected=%v; other keys rejected=%v; same locals=%v", conflict, implied, dup, other, same))
			}
		}
	})
	c.Floor("json-struct/unknown-key-rejected", 50)
	c.Floor("json-struct/sibling-dependent-value-parsed-after-keys", 50)
	c.Floor("json-struct/duplicate-key-rejected", 150)
	c.Floor("json-struct/omitted-field-becomes-empty", 120)
	c.Floor("json-struct/mask-bit-implied-by-field", 10)
	c.Floor("json-struct/presence-bit-set-by-key", 10)
	c.Floor("json-struct/external-mask-bit-required", 2)
	c.Floor("json-struct/explicit-false-with-mask-bit-rejected", 2)
	c.Floor("json-tuple/length-enforced", 5)
	c.Floor("json-union/unknown-type-rejected", 10)
	c.Floor("json-union/omitted-value-means-empty", 80)
	c.Floor("json-maybe/through-helper", 5)
	c.Floor("json-helper/union-forms", 3)
	c.Floor("json-helper/maybe-truth-table", 3)
}

func containsNode(b Block, target Node) bool {
	found := false
	walkBlock(b, nil, func(n Node, _ []Guard) {
		if n == target {
			found = true
		}
	})
	return found
}

// jsonWriterGuards: key → text of the innermost `if` guard under which the JSON writer emits the key.
func (g *genCtx) jsonWriterGuards(fi *FuncInfo) map[string]string {
	out := map[string]string{}
	walkBlock(g.ir(fi).Body, nil, func(n Node, gs []Guard) {
		cn, ok := n.(*CallN)
		if !ok || cn.Builtin != "append" || len(cn.Args) != 2 {
			return
		}
		frag, ok := constFragment(cn.Args[1])
		if !ok {
			return
		}
		key := ""
		if i := strings.LastIndex(frag, "\""); i > 0 && strings.HasSuffix(frag, "\":") {
			j := strings.LastIndex(frag[:i], "\"")
			key = frag[j+1 : i]
		} else if m := keyLiteralRx.FindStringSubmatch(frag); m != nil {
			key = m[1]
		}
		if key == "" {
			return
		}
		for i := len(gs) - 1; i >= 0; i-- {
			if gs[i].Kind == "if" {
				out[key] = gs[i].Text
				return
			}
		}
	})
	return out
}
