package main

import (
	"fmt"
	"os"
	"regexp"
	"runtime/debug"
	"sort"
	"strings"
)

type checkFunc func(c *Check)

var registry = map[string]checkFunc{}

func register(id string, f checkFunc) { registry[id] = f }

func usage() {
	fmt.Fprintln(os.Stderr, "usage: tlverif check <ID> [--tier quick|thorough] | list | dump <corpus> <regex> | explain <report>")
	os.Exit(2)
}

func main() {
	if len(os.Args) < 2 {
		usage()
	}
	switch os.Args[1] {
	case "list":
		ids := make([]string, 0, len(registry))
		for id := range registry {
			ids = append(ids, id)
		}
		sort.Strings(ids)
		fmt.Println(strings.Join(ids, "\n"))
	case "check":
		if len(os.Args) < 3 {
			usage()
		}
		id := os.Args[2]
		tier := envOr("VERIF_TIER", "quick")
		for i := 3; i < len(os.Args); i++ {
			if os.Args[i] == "--tier" && i+1 < len(os.Args) {
				tier = os.Args[i+1]
				i++
			} else if strings.HasPrefix(os.Args[i], "--tier=") {
				tier = strings.TrimPrefix(os.Args[i], "--tier=")
			}
		}
		if tier != "quick" && tier != "thorough" {
			tier = "quick"
		}
		f, ok := registry[id]
		if !ok {
			fatalf("unknown property %s", id)
		}
		os.Exit(runCheck(id, tier, f))
	case "dump":
		if len(os.Args) < 4 {
			usage()
		}
		dumpCmd(os.Args[2], os.Args[3])
	case "dumprepo":
		if len(os.Args) < 4 {
			usage()
		}
		co, err := loadRepoCorpus(os.Args[2])
		if err != nil {
			fatalf("%v", err)
		}
		rx := regexp.MustCompile(os.Args[3])
		funcs := co.allFuncs()
		var list []*FuncInfo
		for _, fi := range funcs {
			if rx.MatchString(fi.Name()) {
				list = append(list, fi)
			}
		}
		sort.Slice(list, func(i, j int) bool { return list[i].Name() < list[j].Name() })
		for _, fi := range list {
			fmt.Print(buildFuncIR(fi, funcs, co.Fset).Dump())
		}
	case "wire":
		if len(os.Args) < 5 {
			usage()
		}
		wireCmd(os.Args[2], os.Args[3], os.Args[4])
	case "advdump":
		c := newCheck("dev", "quick")
		if r := loadRepoFuncs(c, "./internal/tlast"); r != nil {
			for _, l := range lexerAdvanceDump(r) {
				fmt.Println(l)
			}
		}
	case "explain":
		if len(os.Args) < 3 {
			usage()
		}
		b, err := os.ReadFile(os.Args[2])
		if err != nil {
			fatalf("%v", err)
		}
		os.Stdout.Write(b)
	default:
		usage()
	}
}

// runCheck runs one property check; a panic inside the checker is a failure of the check
// (reported as UNDECIDED), never a silent pass.
func runCheck(id, tier string, f checkFunc) (code int) {
	c := newCheck(id, tier)
	defer func() {
		if r := recover(); r != nil {
			c.Undecided("checker-panic", id, "", fmt.Sprintf("checker panicked: %v\n%s", r, debug.Stack()))
			code = c.Finish()
		}
	}()
	f(c)
	return c.Finish()
}

func dumpCmd(corpus, re string) {
	rx := regexp.MustCompile(re)
	ws, err := newWorkspace()
	if err != nil {
		fatalf("%v", err)
	}
	defer ws.Close()
	corpora, err := ws.BuildCorpora(nil, "thorough", true)
	if err != nil {
		fatalf("%v", err)
	}
	for _, co := range corpora {
		if co.Spec.Name != corpus {
			continue
		}
		funcs := co.allFuncs()
		var list []*FuncInfo
		for _, fi := range funcs {
			if rx.MatchString(fi.Name()) {
				list = append(list, fi)
			}
		}
		sort.Slice(list, func(i, j int) bool { return list[i].Name() < list[j].Name() })
		for _, fi := range list {
			fmt.Print(buildFuncIR(fi, funcs, co.Fset).Dump())
		}
	}
}

func wireCmd(corpus, re, cfgName string) {
	rx := regexp.MustCompile(re)
	ws, err := newWorkspace()
	if err != nil {
		fatalf("%v", err)
	}
	defer ws.Close()
	corpora, err := ws.BuildCorpora(nil, "thorough", true)
	if err != nil {
		fatalf("%v", err)
	}
	cfgs := map[string]struct {
		cfg *wireCfg
		dir string
	}{"tl1r": {tl1ReadCfg, "r"}, "tl1w": {tl1WriteCfg, "w"}, "tl2r": {tl2ReadCfg, "r"}, "tl2w": {tl2WriteCfg, "w"}, "tl2c": {tl2CalcCfg, "w"}}
	cf := cfgs[cfgName]
	for _, co := range corpora {
		if co.Spec.Name != corpus {
			continue
		}
		g := newGenCtx(nil, co)
		var list []*FuncInfo
		for _, fi := range g.funcs {
			if rx.MatchString(fi.Name()) {
				list = append(list, fi)
			}
		}
		sort.Slice(list, func(i, j int) bool { return list[i].Name() < list[j].Name() })
		for _, fi := range list {
			w, b := g.wire(fi, cf.cfg, cf.dir)
			fmt.Printf("== %s\n%s", fi.Name(), wString(w))
			for _, p := range b.problems {
				fmt.Println("  problem:", p)
			}
		}
	}
}
