package main

import (
	"fmt"
	"go/ast"
	"go/constant"
	"go/types"
	"strings"
)

func init() { register("C34", checkC34) }

// number writers: function → (strconv appender, bit size for floats)
var jsonNumWriters = map[string]string{
	"JSONWriteByte":   "AppendUint(buf, val, #10)",
	"JSONWriteUint32": "AppendUint(buf, val, #10)",
	"JSONWriteUint64": "AppendUint(buf, val, #10)",
	"JSONWriteInt32":  "AppendInt(buf, val, #10)",
	"JSONWriteInt64":  "AppendInt(buf, val, #10)",
}

func (b *bctx) ruleJSONNumbers() {
	for _, name := range sortedKeysAny(jsonNumWriters) {
		ir := b.ir(name)
		if ir == nil {
			continue
		}
		got := ""
		for _, n := range ir.Body {
			if call, ok := n.(*CallN); ok && call.Fn != nil && call.Fn.Pkg() != nil && call.Fn.Pkg().Path() == "strconv" && call.Tail {
				got = call.Fn.Name() + "(" + strings.Join(call.Args, ", ") + ")"
			}
		}
		// signedness must match the parameter type
		sig := b.byName[name].Obj.Type().(*types.Signature)
		pt := sig.Params().At(1).Type().Underlying().(*types.Basic)
		unsigned := pt.Info()&types.IsUnsigned != 0
		okSign := unsigned == strings.HasPrefix(got, "AppendUint")
		b.ob("json-number-writer", name, got == jsonNumWriters[name] && okSign, fmt.Sprintf("returns strconv.%s; parameter %s (unsigned=%v)", got, pt.Name(), unsigned))
	}
	for name, bitsz := range map[string]string{"JSONWriteFloat32": "#32", "JSONWriteFloat64": "#64"} {
		ir := b.ir(name)
		if ir == nil {
			continue
		}
		special, plain := false, ""
		for i, n := range ir.Body {
			switch n := n.(type) {
			case *CallN:
				if n.Fn != nil && n.Fn.Name() == "jsonWriteFloatSpecial" && len(n.Results) == 2 {
					// followed by `if ok { return ws }`
					if i+1 < len(ir.Body) {
						if in, ok := ir.Body[i+1].(*IfN); ok && in.Cond.Kind == "bool" && in.Cond.X == n.Results[1] && !in.Cond.Neg {
							rs := returnsOf(in.Then)
							special = len(rs) == 1 && rs[0].Vals[0] == n.Results[0]
						}
					}
				}
				if n.Fn != nil && n.Fn.Name() == "AppendFloat" && n.Tail {
					plain = strings.Join(n.Args, ", ")
				}
			}
		}
		// the specials table and AppendFloat are the only producers of float text: no other return path
		nret := 0
		walkBlock(ir.Body, nil, func(n Node, _ []Guard) {
			if _, ok := n.(*ReturnN); ok {
				nret++
			}
		})
		if nret != 2 {
			special = false
		}
		want := "buf, val, #102, #-1, " + bitsz
		b.ob("json-float-writer", name, special && plain == want, fmt.Sprintf("specials handled first and no other producer of float text (return paths: %d, want 2)=%v; strconv.AppendFloat(%s) want (%s) [shortest round-trip form 'f', precision -1, bit size of the argument]", nret, special, plain, want))
	}
	if ir := b.ir("jsonWriteFloatSpecial"); ir != nil {
		got := map[string]string{}
		for _, n := range ir.Body {
			in, ok := n.(*IfN)
			if !ok {
				continue
			}
			for i, m := range in.Then {
				if r, ok := m.(*ReturnN); ok && len(r.Vals) == 2 && r.Vals[1] == "true" && i > 0 {
					_ = r
				}
			}
			key := in.Cond.X
			for _, m := range in.Then {
				if r, ok := m.(*ReturnN); ok && len(r.VE) == 2 {
					if ce, ok := ast.Unparen(r.VE[0]).(*ast.CallExpr); ok && len(ce.Args) == 2 {
						if tv, ok := b.byName["jsonWriteFloatSpecial"].Pkg.TypesInfo.Types[ce.Args[1]]; ok && tv.Value != nil && tv.Value.Kind() == constant.String {
							got[key] = constant.StringVal(tv.Value)
						}
					}
				}
			}
		}
		want := map[string]string{"math.IsNaN(val)": `"NaN"`, "math.IsInf(val, #1)": `"+Inf"`, "math.IsInf(val, #-1)": `"-Inf"`}
		ok := len(got) == 3
		for k, v := range want {
			if got[k] != v {
				ok = false
			}
		}
		// spellings accepted by strconv.ParseFloat (frozen list): nan, inf, +inf, -inf, infinity (case-insensitive)
		b.ob("json-float-specials", "jsonWriteFloatSpecial", ok, fmt.Sprintf("NaN/+Inf/-Inf are written as the quoted strings strconv.ParseFloat accepts: %v", got))
	}
	if ir := b.ir("JSONWriteBool"); ir != nil {
		var sb strings.Builder
		dumpBlock(&sb, ir.Body, "")
		b.ob("json-bool-writer", "JSONWriteBool", strings.Contains(sb.String(), "strconv.FormatBool(val)"), "appends strconv.FormatBool(v)")
	}
	if ir := b.ir("JSONAddCommaIfNeeded"); ir != nil {
		var sb strings.Builder
		dumpBlock(&sb, ir.Body, "")
		txt := sb.String()
		ok := strings.Contains(txt, "buf[(len(buf) - #1)]") && strings.Contains(txt, "#123") && strings.Contains(txt, "#91") && strings.Contains(txt, "call append recv=(buf, #44)")
		b.ob("json-comma-helper", "JSONAddCommaIfNeeded", ok, "appends ',' unless the last byte is '{' or '['")
	}
}

func (b *bctx) ruleJSONString() {
	fi := b.byName["JSONWriteString"]
	if fi == nil {
		return
	}
	info := fi.Pkg.TypesInfo
	scope := fi.Pkg.Types.Scope()
	// constants
	cval := func(name string) string {
		if c, ok := scope.Lookup(name).(*types.Const); ok && c.Val().Kind() == constant.String {
			return constant.StringVal(c.Val())
		}
		return "<missing>"
	}
	b.ob("json-string/base64-envelope", "binaryJSONStringStart/End", cval("binaryJSONStringStart") == `{"base64":"` && cval("binaryJSONStringEnd") == `"}`, fmt.Sprintf("start %q end %q", cval("binaryJSONStringStart"), cval("binaryJSONStringEnd")))
	b.ob("json-string/hex-digits", "hex", cval("hex") == "0123456789abcdef", cval("hex"))
	// safeSet: composite literal evaluation
	var safe map[int64]bool
	for _, f := range fi.Pkg.Syntax {
		for _, d := range f.Decls {
			gd, ok := d.(*ast.GenDecl)
			if !ok {
				continue
			}
			for _, sp := range gd.Specs {
				vs, ok := sp.(*ast.ValueSpec)
				if !ok || len(vs.Names) != 1 || vs.Names[0].Name != "safeSet" || len(vs.Values) != 1 {
					continue
				}
				cl, ok := vs.Values[0].(*ast.CompositeLit)
				if !ok {
					continue
				}
				safe = map[int64]bool{}
				for _, el := range cl.Elts {
					kv, ok := el.(*ast.KeyValueExpr)
					if !ok {
						continue
					}
					ktv, ok1 := info.Types[kv.Key]
					vtv, ok2 := info.Types[kv.Value]
					if ok1 && ok2 && ktv.Value != nil && vtv.Value != nil {
						k, _ := constant.Int64Val(ktv.Value)
						safe[k] = constant.BoolVal(vtv.Value)
					}
				}
			}
		}
	}
	if safe == nil {
		b.c.Undecided("json-string/safe-set", b.pkg+".safeSet", "", "safeSet table not found")
	} else {
		var bad []string
		for i := int64(0); i < 0x20; i++ {
			if safe[i] {
				bad = append(bad, fmt.Sprintf("0x%02x", i))
			}
		}
		if safe['"'] {
			bad = append(bad, `'"'`)
		}
		if safe['\\'] {
			bad = append(bad, `'\\'`)
		}
		b.ob("json-string/safe-set", "safeSet", len(bad) == 0, fmt.Sprintf("%d entries; control bytes, '\"' and '\\\\' are not safe; offending: %v", len(safe), bad))
	}
	// structure of the writer
	ir := b.ir("JSONWriteString")
	var sb strings.Builder
	dumpBlock(&sb, ir.Body, "")
	txt := sb.String()
	first := ""
	if len(ir.Body) > 0 {
		if in, ok := ir.Body[0].(*IfN); ok {
			first = in.Cond.String()
		}
	}
	b.ob("json-string/invalid-utf8-first", "JSONWriteString", first == "!utf8.ValidString(val)", "the first test is !utf8.ValidString(s) and leads to the base64 envelope: "+first)
	b.ob("json-string/base64-std", "JSONWriteString", strings.Contains(txt, "base64.StdEncoding") && strings.Contains(txt, "G:binaryJSONStringStart") || strings.Contains(txt, "base64.StdEncoding") && strings.Contains(txt, `{\"base64\":\"`), "invalid UTF-8 is written with base64.StdEncoding between the envelope constants (the reader's jlexer.Bytes decodes StdEncoding)")
	for _, frag := range []struct{ id, needle, doc string }{
		{"escape-backslash-quote", "case #92,#34:", `'\\' and '"' are escaped with a backslash`},
		{"escape-newline", "case #10:", `\n`}, {"escape-cr", "case #13:", `\r`}, {"escape-tab", "case #9:", `\t`},
		{"escape-control", `"u00"`, `other non-safe bytes are written as \u00XX with hex[b>>4], hex[b&0xF]`},
		{"escape-u2028", "#8232", "U+2028/U+2029 are escaped"},
		{"escape-invalid-rune", `"\\ufffd"`, "a stray invalid byte is written as \\ufffd (unreachable after the ValidString test)"},
	} {
		b.ob("json-string/"+frag.id, "JSONWriteString", strings.Contains(txt, frag.needle), frag.doc)
	}
	// the escape switch produces only escapes that JSON defines: after the backslash a case may append the byte itself
	// (only for '\\', '"', '/'), one of the letters b f n r t, or the \u form
	for _, fn := range []string{"JSONWriteString", "JSONWriteStringBytes"} {
		fi := b.byName[fn]
		if fi == nil {
			continue
		}
		info := fi.Pkg.TypesInfo
		legalLetter := map[int64]bool{'b': true, 'f': true, 'n': true, 'r': true, 't': true, '"': true, '\\': true, '/': true}
		selfOK := map[int64]bool{'"': true, '\\': true, '/': true}
		var bad []string
		switches := 0
		ast.Inspect(fi.Decl.Body, func(n ast.Node) bool {
			sw, ok := n.(*ast.SwitchStmt)
			if !ok || sw.Tag == nil {
				return true
			}
			tag, ok := ast.Unparen(sw.Tag).(*ast.Ident)
			if !ok {
				return true
			}
			if t := info.TypeOf(tag); t == nil || !isByteType(t.String()) {
				return true
			}
			switches++
			for _, cc := range sw.Body.List {
				cl := cc.(*ast.CaseClause)
				ast.Inspect(cl, func(x ast.Node) bool {
					call, ok := x.(*ast.CallExpr)
					if !ok || len(call.Args) < 2 {
						return true
					}
					if id, ok := call.Fun.(*ast.Ident); !ok || id.Name != "append" {
						return true
					}
					for _, a := range call.Args[1:] {
						if aid, ok := ast.Unparen(a).(*ast.Ident); ok && info.Uses[aid] == info.Uses[tag] {
							for _, cv := range cl.List {
								if tv, ok := info.Types[cv]; ok && tv.Value != nil {
									if v, exact := constant.Int64Val(constant.ToInt(tv.Value)); exact && !selfOK[v] {
										bad = append(bad, fmt.Sprintf("\\%c (the byte itself)", rune(v)))
									}
								}
							}
							continue
						}
						if tv, ok := info.Types[a]; ok && tv.Value != nil {
							switch tv.Value.Kind() {
							case constant.Int:
								if v, exact := constant.Int64Val(tv.Value); exact && !legalLetter[v] {
									bad = append(bad, fmt.Sprintf("\\%c", rune(v)))
								}
							case constant.String:
								if sv := constant.StringVal(tv.Value); !strings.HasPrefix(sv, "u") {
									bad = append(bad, "\\"+sv)
								}
							}
						}
					}
					return true
				})
			}
			return true
		})
		b.ob("json-string/only-json-escapes", fn, switches == 1 && len(bad) == 0, fmt.Sprintf("escape switches: %d; escapes JSON does not define: %v", switches, bad))
	}
	b.ob("json-string/control-hex-nibbles", "JSONWriteString", strings.Contains(txt, "(L") && strings.Contains(txt, ">> #4)]") && strings.Contains(txt, "& #15)]"), "\\u00XX uses the high and low nibble of the byte")
}

// jsonReadHelperRules checks the generated Json2Read<Num>/String helpers of one corpus.
func (g *genCtx) jsonReadHelperRules(c *Check) {
	type numSpec struct{ parse, bits, conv, lex string }
	nums := map[string]numSpec{
		"Json2ReadByte":    {"ParseUint", "#8", "", "Uint8"},
		"Json2ReadUint32":  {"ParseUint", "#32", "", "Uint32"},
		"Json2ReadUint64":  {"ParseUint", "#64", "", "Uint64"},
		"Json2ReadInt32":   {"ParseInt", "#32", "", "Int32"},
		"Json2ReadInt64":   {"ParseInt", "#64", "", "Int64"},
		"Json2ReadFloat32": {"ParseFloat", "#32", "", "Float32"},
		"Json2ReadFloat64": {"ParseFloat", "#64", "", "Float64"},
	}
	for fn, fi := range g.funcs {
		spec, ok := nums[fn.Name()]
		if !ok || fn.Type().(*types.Signature).Recv() != nil {
			continue
		}
		ir := g.ir(fi)
		var sw *SwitchN
		for _, n := range ir.Body {
			if s, ok := n.(*SwitchN); ok {
				sw = s
			}
		}
		construct := g.co.Spec.Name + ":" + fn.Name()
		if sw == nil {
			c.Undecided("json-number-reader", construct, posStr(g.co.Fset, fi.Decl.Pos()), "no token switch")
			continue
		}
		strArm, numArm, defErr := "", "", false
		for _, cs := range sw.Cases {
			if cs.Default {
				rs := returnsOf(cs.Body)
				defErr = len(rs) == 1 && rs[0].Vals[0] != "nil"
				continue
			}
			for _, n := range cs.Body {
				switch n := n.(type) {
				case *CallN:
					if n.Fn != nil && n.Fn.Pkg() != nil && n.Fn.Pkg().Path() == "strconv" {
						strArm = n.Fn.Name() + "(" + strings.Join(n.Args[1:], ",") + ")"
					}
					if n.Fn != nil && len(n.Results) == 1 && (n.Results[0] == "val" || n.Results[0] == "val2") && n.Fn.Pkg() != nil && strings.HasSuffix(n.Fn.Pkg().Path(), "jlexer") {
						numArm = n.Fn.Name()
					}
				}
			}
		}
		wantStr := spec.parse + "(#10," + spec.bits + ")"
		if spec.parse == "ParseFloat" {
			wantStr = spec.parse + "(" + spec.bits + ")"
		}
		c.Ob("json-number-reader", construct, strArm == wantStr && numArm == spec.lex && defErr, posStr(g.co.Fset, fi.Decl.Pos()),
			fmt.Sprintf("string form parsed with strconv.%s want %s; number form read with lexer.%s want %s; other tokens rejected=%v", strArm, wantStr, numArm, spec.lex, defErr))
	}
	for _, name := range []string{"Json2ReadString", "Json2ReadStringBytes"} {
		for fn, fi := range g.funcs {
			if fn.Name() != name || fn.Type().(*types.Signature).Recv() != nil {
				continue
			}
			var sb strings.Builder
			dumpBlock(&sb, g.ir(fi).Body, "")
			txt := sb.String()
			ok := strings.Contains(txt, `case "base64":`) && (strings.Contains(txt, "Lexer.Bytes") || strings.Contains(txt, ".Bytes()")) && strings.Contains(txt, "default:") && strings.Contains(txt, "repeats") && strings.Contains(txt, "absent")
			c.Ob("json-string-reader", g.co.Spec.Name+":"+name, ok, posStr(g.co.Fset, fi.Decl.Pos()), "accepts a JSON string, or an object with exactly one key `base64` decoded by the lexer (StdEncoding); other/duplicate/missing keys are errors")
		}
	}
}

func checkC34(c *Check) {
	c.Explanation = "JSON primitive writers of basictl and their generated readers, as tables: number writers use strconv.AppendInt/AppendUint base 10 with the signedness of the argument; float writers handle NaN/±Inf first (quoted spellings accepted by strconv.ParseFloat) and otherwise strconv.AppendFloat(v,'f',-1,bits) with the bit size of the argument; the generated Json2Read<Num> helpers parse the string form with strconv.Parse{Int,Uint,Float} of the same signedness and bit size and the number form with the matching lexer method, rejecting other tokens; the string writer tests UTF-8 validity first and writes invalid input as {\"base64\":\"…\"} with StdEncoding, which the generated string reader accepts as the only object form; in the escaping loop every control byte, '\"' and '\\' is outside safeSet (table evaluated), each has an escape arm, U+2028/9 are escaped; the string and []byte clones are isomorphic (rule shared with C10)."
	c.NotCovered = "bit-exactness of strconv and the easyjson lexer (trusted); that escaped output re-decodes to the same text (follows encoding/json's algorithm, not executed)"
	c.Trusted = []string{"strconv", "encoding/base64", "github.com/mailru/easyjson/jlexer", "go/types constant folding"}
	for _, b := range loadBasictl(c) {
		b.ruleJSONNumbers()
		b.ruleJSONString()
		x, y := b.ir("JSONWriteString"), b.ir("JSONWriteStringBytes")
		if x != nil && y != nil {
			dx, dy := cloneDump(x), cloneDump(y)
			d := "isomorphic"
			if dx != dy {
				d = firstDiff(dx, dy)
			}
			b.ob("json-string/clone-isomorphic", "JSONWriteString~JSONWriteStringBytes", dx == dy, d)
		}
	}
	withCorpora(c, true, func(g *genCtx) {
		g.jsonReadHelperRules(c)
	})
	c.Floor("json-number-writer", 10)
	c.Floor("json-float-writer", 4)
	c.Floor("json-float-specials", 2)
	c.Floor("json-number-reader", 30)
	c.Floor("json-string-reader", 8)
	c.Floor("json-string/safe-set", 2)
}
