package main

// E2: shape extractor. Turns a function body (type-checked AST) into a small structured IR in which
// callees are resolved objects, constants are folded, locals are named by declaration order and role
// instead of spelling, pointers/parentheses/numeric conversions are erased and the common statement
// idioms of the emitted code (`if w, err = f(); err != nil { return w, err }`, `w = f()`,
// `return f()`) are reduced to one Call node.

import (
	"fmt"
	"go/ast"
	"go/constant"
	"go/token"
	"go/types"
	"math/bits"
	"sort"
	"strconv"
	"strings"

	"golang.org/x/tools/go/packages"
	"golang.org/x/tools/go/types/typeutil"
)

type Node interface{ P() token.Pos }

type Block []Node

type CallN struct {
	Pos        token.Pos
	Fn         *types.Func // resolved static callee; nil for builtins / dynamic
	Builtin    string      // name of builtin when Fn == nil
	Recv       string      // canonical receiver ("" for functions)
	Args       []string    // canonical arguments
	ArgExprs   []ast.Expr
	RecvExpr   ast.Expr
	Results    []string // canonical targets of results ("_" blank, "" none)
	ErrChecked bool     // followed by `err != nil → return …, err`
	Tail       bool     // `return f(...)` (results flow to the caller)
	Expr       *ast.CallExpr
	Closures   []*ClosureN // function literals passed as arguments
}

type IfN struct {
	Pos  token.Pos
	Cond *Cond
	Then Block
	Else Block
}

type CaseN struct {
	Vals    []string // canonical case values (constants folded)
	Default bool
	Body    Block
	Pos     token.Pos
}

type SwitchN struct {
	Pos   token.Pos
	Tag   string
	Cases []*CaseN
}

type LoopN struct {
	Pos   token.Pos
	Kind  string // "range" | "for"
	Over  string // canonical ranged expression, or canonical bound for counting loops
	Cond  *Cond  // for-loops with a condition that is not a counting bound
	Body  Block
	Stmt  ast.Stmt
	Count bool // counting loop `for i := 0; i < N; i++` (Over = N)
}

type AssignN struct {
	Pos token.Pos
	LHS []string
	Tok token.Token
	RHS []string
	LE  []ast.Expr
	RE  []ast.Expr
}

type ReturnN struct {
	Pos  token.Pos
	Vals []string
	VE   []ast.Expr
}

type DeclN struct {
	Pos  token.Pos
	Name string // canonical local
	Type types.Type
}

type OtherN struct {
	Pos  token.Pos
	Text string
	Stmt ast.Stmt
}

// ClosureN is a function literal bound to a local (`f := func(...) {...}`) or passed as an argument.
type ClosureN struct {
	Pos  token.Pos
	Name string
	Body Block
}

func (n *ClosureN) P() token.Pos { return n.Pos }

type BranchN struct {
	Pos token.Pos
	Tok token.Token
}

func (n *CallN) P() token.Pos   { return n.Pos }
func (n *IfN) P() token.Pos     { return n.Pos }
func (n *SwitchN) P() token.Pos { return n.Pos }
func (n *LoopN) P() token.Pos   { return n.Pos }
func (n *AssignN) P() token.Pos { return n.Pos }
func (n *ReturnN) P() token.Pos { return n.Pos }
func (n *DeclN) P() token.Pos   { return n.Pos }
func (n *OtherN) P() token.Pos  { return n.Pos }
func (n *BranchN) P() token.Pos { return n.Pos }

// Cond is a normalised boolean expression.
type Cond struct {
	Kind string // "bit" | "mask" | "nz" | "cmp" | "and" | "or" | "const" | "bool" | "errnil"
	X    string // subject
	Bit  int    // for "bit"
	Op   string // for "cmp"
	Y    string // for "cmp", "mask"
	Neg  bool
	Sub  []*Cond
	Expr ast.Expr
}

func (c *Cond) String() string {
	if c == nil {
		return "<nil>"
	}
	neg := ""
	if c.Neg {
		neg = "!"
	}
	switch c.Kind {
	case "bit":
		return fmt.Sprintf("%sbit(%s,%d)", neg, c.X, c.Bit)
	case "mask":
		return fmt.Sprintf("%smask(%s,%s)", neg, c.X, c.Y)
	case "nz":
		return fmt.Sprintf("%snz(%s)", neg, c.X)
	case "bool":
		return fmt.Sprintf("%s%s", neg, c.X)
	case "errnil":
		return fmt.Sprintf("%serr(%s)", neg, c.X)
	case "const":
		return fmt.Sprintf("%s%s", neg, c.X)
	case "cmp":
		return fmt.Sprintf("%s(%s %s %s)", neg, c.X, c.Op, c.Y)
	case "and", "or":
		parts := make([]string, len(c.Sub))
		for i, s := range c.Sub {
			parts[i] = s.String()
		}
		return fmt.Sprintf("%s%s(%s)", neg, c.Kind, strings.Join(parts, ","))
	}
	return neg + "?" + c.X
}

func (c *Cond) Not() *Cond {
	d := *c
	d.Neg = !c.Neg
	return &d
}

// ---------------------------------------------------------------------------------------------

type FuncIR struct {
	Info   *FuncInfo
	Body   Block
	Params []ParamIR
	Recv   *types.Var
	x      *extractor
}

type ParamIR struct {
	Var  *types.Var
	Role string // "buf" | "nat" | "val" | "ctx" | "flag" | "sizes" | "other"
	Name string // canonical
}

type extractor struct {
	pkg     *packages.Package
	info    *types.Info
	fset    *token.FileSet
	alias   map[*types.Var]string // canonical name of a variable
	nlocal  int
	funcs   map[*types.Func]*FuncInfo
	rangeIx map[*types.Var]bool // index variables of loops → "*"
}

func isBasictl(pkg *types.Package) bool {
	if pkg == nil {
		return false
	}
	return pkg.Name() == "basictl" || strings.HasSuffix(pkg.Path(), "/basictl")
}

func isByteSlice(t types.Type) bool {
	s, ok := t.Underlying().(*types.Slice)
	if !ok {
		return false
	}
	b, ok := s.Elem().Underlying().(*types.Basic)
	return ok && b.Kind() == types.Byte
}

func isUint32(t types.Type) bool {
	if p, ok := t.(*types.Pointer); ok {
		t = p.Elem()
	}
	b, ok := t.Underlying().(*types.Basic)
	return ok && b.Kind() == types.Uint32
}

func isBool(t types.Type) bool {
	b, ok := t.Underlying().(*types.Basic)
	return ok && b.Kind() == types.Bool
}

func namedOf(t types.Type) *types.Named {
	for {
		switch tt := t.(type) {
		case *types.Pointer:
			t = tt.Elem()
		case *types.Alias:
			t = types.Unalias(tt)
		case *types.Named:
			return tt
		default:
			return nil
		}
	}
}

func classifyParam(v *types.Var, idx int, nNat *int, nVal *int) (role, name string) {
	t := v.Type()
	if n := namedOf(t); n != nil && isBasictl(n.Obj().Pkg()) {
		return "ctx", "ctx:" + n.Obj().Name()
	}
	if isByteSlice(t) && idx == 0 {
		return "buf", "buf"
	}
	if isByteSlice(t) && (v.Name() == "w" || v.Name() == "r") {
		return "buf", "buf"
	}
	if strings.HasPrefix(v.Name(), "nat_") && isUint32(t) {
		*nNat++
		return "nat", "nat:" + strings.TrimPrefix(v.Name(), "nat_")
	}
	if s, ok := t.(*types.Slice); ok {
		if b, ok := s.Elem().(*types.Basic); ok && b.Kind() == types.Int {
			return "sizes", "sizes"
		}
	}
	if isBool(t) && (v.Name() == "optimizeEmpty" || v.Name() == "legacyTypeNames") {
		return "flag", "flag:" + v.Name()
	}
	if b, ok := t.(*types.Basic); ok && b.Kind() == types.Uint8 && !isBasictl(v.Pkg()) {
		// a by-value byte parameter is the field-mask block handed to a variant/fields reader
		return "other", "p:block"
	}
	*nVal++
	if *nVal == 1 {
		return "val", "val"
	}
	return "val", "val" + strconv.Itoa(*nVal)
}

func buildFuncIR(fi *FuncInfo, funcs map[*types.Func]*FuncInfo, fset *token.FileSet) *FuncIR {
	x := &extractor{pkg: fi.Pkg, info: fi.Pkg.TypesInfo, fset: fset, alias: map[*types.Var]string{}, funcs: funcs, rangeIx: map[*types.Var]bool{}}
	ir := &FuncIR{Info: fi, x: x}
	sig := fi.Obj.Type().(*types.Signature)
	if r := sig.Recv(); r != nil {
		ir.Recv = r
		x.alias[r] = "item"
	}
	nNat, nVal := 0, 0
	nBuf := 0
	for i := 0; i < sig.Params().Len(); i++ {
		v := sig.Params().At(i)
		role, name := classifyParam(v, i, &nNat, &nVal)
		if role == "buf" {
			nBuf++
			if nBuf > 1 {
				name = "buf" + strconv.Itoa(nBuf)
			}
		}
		x.alias[v] = name
		ir.Params = append(ir.Params, ParamIR{Var: v, Role: role, Name: name})
	}
	for i := 0; i < sig.Results().Len(); i++ {
		v := sig.Results().At(i)
		if v.Name() != "" && v.Name() != "_" {
			if isErrorType(v.Type()) {
				x.alias[v] = "err"
			} else {
				x.alias[v] = "res" + strconv.Itoa(i)
			}
		}
	}
	ir.Body = x.block(fi.Decl.Body.List)
	return ir
}

func isErrorType(t types.Type) bool {
	n, ok := t.(*types.Named)
	return ok && n.Obj().Pkg() == nil && n.Obj().Name() == "error"
}

// ---------------------------------------------------------------------------------------------
// expressions → canonical strings

func (x *extractor) constOf(e ast.Expr) (constant.Value, bool) {
	if tv, ok := x.info.Types[e]; ok && tv.Value != nil {
		return tv.Value, true
	}
	return nil, false
}

func constStr(v constant.Value) string {
	switch v.Kind() {
	case constant.Int:
		return "#" + v.ExactString()
	case constant.String:
		return strconv.Quote(constant.StringVal(v))
	case constant.Bool:
		if constant.BoolVal(v) {
			return "true"
		}
		return "false"
	default:
		return "#" + v.ExactString()
	}
}

func (x *extractor) varName(v *types.Var) string {
	if n, ok := x.alias[v]; ok {
		return n
	}
	if v.Pkg() != nil && v.Parent() == v.Pkg().Scope() {
		return "G:" + v.Name()
	}
	x.nlocal++
	n := "L" + strconv.Itoa(x.nlocal) + ":" + v.Name()
	x.alias[v] = n
	return n
}

func (x *extractor) typeOf(e ast.Expr) types.Type {
	if tv, ok := x.info.Types[e]; ok {
		return tv.Type
	}
	return nil
}

// isIdentityMethod reports methods like `func (item *T) ptr() *[]E { return (*[]E)(item) }`.
func (x *extractor) isIdentityMethod(fn *types.Func) bool {
	fi := x.funcs[fn]
	if fi == nil || fi.Decl.Recv == nil || len(fi.Decl.Body.List) != 1 {
		return false
	}
	sig := fn.Type().(*types.Signature)
	if sig.Params().Len() != 0 || sig.Results().Len() != 1 {
		return false
	}
	ret, ok := fi.Decl.Body.List[0].(*ast.ReturnStmt)
	if !ok || len(ret.Results) != 1 {
		return false
	}
	e := ast.Unparen(ret.Results[0])
	call, ok := e.(*ast.CallExpr)
	if !ok || len(call.Args) != 1 {
		return false
	}
	if tv, ok := fi.Pkg.TypesInfo.Types[call.Fun]; !ok || !tv.IsType() {
		return false
	}
	id, ok := ast.Unparen(call.Args[0]).(*ast.Ident)
	if !ok {
		return false
	}
	return fi.Pkg.TypesInfo.Uses[id] == sig.Recv()
}

func (x *extractor) expr(e ast.Expr) string {
	if e == nil {
		return ""
	}
	if v, ok := x.constOf(e); ok {
		return constStr(v)
	}
	switch e := e.(type) {
	case *ast.ParenExpr:
		return x.expr(e.X)
	case *ast.Ident:
		if e.Name == "_" {
			return "_"
		}
		switch obj := x.info.ObjectOf(e).(type) {
		case *types.Var:
			if x.rangeIx[obj] {
				return "*"
			}
			return x.varName(obj)
		case *types.Nil:
			return "nil"
		case *types.Func:
			return "F:" + obj.Name()
		case *types.TypeName:
			return "T:" + obj.Name()
		case *types.Const:
			return "C:" + obj.Name()
		case *types.Builtin:
			return "B:" + obj.Name()
		}
		return "?" + e.Name
	case *ast.StarExpr:
		return x.expr(e.X)
	case *ast.UnaryExpr:
		if e.Op == token.AND {
			return x.expr(e.X)
		}
		return e.Op.String() + x.expr(e.X)
	case *ast.SelectorExpr:
		if sel, ok := x.info.Selections[e]; ok {
			return x.expr(e.X) + "." + sel.Obj().Name()
		}
		// qualified identifier
		if obj := x.info.Uses[e.Sel]; obj != nil {
			if obj.Pkg() != nil {
				return obj.Pkg().Name() + "." + obj.Name()
			}
		}
		return x.expr(e.X) + "." + e.Sel.Name
	case *ast.IndexExpr:
		return x.expr(e.X) + "[" + x.expr(e.Index) + "]"
	case *ast.SliceExpr:
		s := x.expr(e.X) + "[" + x.expr(e.Low) + ":" + x.expr(e.High)
		if e.Slice3 {
			s += ":" + x.expr(e.Max)
		}
		return s + "]"
	case *ast.BinaryExpr:
		return "(" + x.expr(e.X) + " " + e.Op.String() + " " + x.expr(e.Y) + ")"
	case *ast.CallExpr:
		// conversion?
		if tv, ok := x.info.Types[e.Fun]; ok && tv.IsType() && len(e.Args) == 1 {
			at := x.typeOf(e.Args[0])
			if at != nil {
				_, srcBasic := at.Underlying().(*types.Basic)
				_, dstBasic := tv.Type.Underlying().(*types.Basic)
				if srcBasic && dstBasic {
					sb := at.Underlying().(*types.Basic)
					db := tv.Type.Underlying().(*types.Basic)
					if sb.Info()&types.IsNumeric != 0 && db.Info()&types.IsNumeric != 0 {
						return x.expr(e.Args[0]) // numeric conversion erased
					}
					return "conv:" + db.Name() + "(" + x.expr(e.Args[0]) + ")"
				}
				if !srcBasic && !dstBasic {
					return x.expr(e.Args[0]) // named/unnamed pointer or slice conversion erased
				}
			}
			return "conv(" + x.expr(e.Args[0]) + ")"
		}
		fn := typeutil.StaticCallee(x.info, e)
		if fn != nil {
			if sel, ok := ast.Unparen(e.Fun).(*ast.SelectorExpr); ok && fn.Type().(*types.Signature).Recv() != nil {
				if len(e.Args) == 0 && x.isIdentityMethod(fn) {
					return x.expr(sel.X)
				}
				return x.expr(sel.X) + "." + fn.Name() + "(" + x.exprs(e.Args) + ")"
			}
			q := fn.Name()
			if fn.Pkg() != nil && fn.Pkg() != x.pkg.Types {
				q = fn.Pkg().Name() + "." + q
			}
			return q + "(" + x.exprs(e.Args) + ")"
		}
		if id, ok := ast.Unparen(e.Fun).(*ast.Ident); ok {
			if _, ok := x.info.Uses[id].(*types.Builtin); ok {
				return id.Name + "(" + x.exprs(e.Args) + ")"
			}
		}
		return "dyn:" + x.expr(e.Fun) + "(" + x.exprs(e.Args) + ")"
	case *ast.CompositeLit:
		parts := []string{}
		for _, el := range e.Elts {
			if kv, ok := el.(*ast.KeyValueExpr); ok {
				k := ""
				if id, ok := kv.Key.(*ast.Ident); ok {
					k = id.Name
				} else {
					k = x.expr(kv.Key)
				}
				parts = append(parts, k+":"+x.expr(kv.Value))
			} else {
				parts = append(parts, x.expr(el))
			}
		}
		tn := ""
		if t := x.typeOf(e); t != nil {
			tn = types.TypeString(t, func(*types.Package) string { return "" })
		}
		return "lit:" + tn + "{" + strings.Join(parts, ",") + "}"
	case *ast.BasicLit:
		return e.Value
	case *ast.FuncLit:
		return "funclit"
	case *ast.TypeAssertExpr:
		return x.expr(e.X) + ".(T)"
	case *ast.KeyValueExpr:
		return x.expr(e.Key) + ":" + x.expr(e.Value)
	case *ast.ArrayType, *ast.MapType, *ast.StructType, *ast.InterfaceType, *ast.FuncType, *ast.ChanType:
		return "T:" + types.ExprString(e)
	}
	return "?expr"
}

func (x *extractor) exprs(es []ast.Expr) string {
	parts := make([]string, len(es))
	for i, e := range es {
		parts[i] = x.expr(e)
	}
	return strings.Join(parts, ", ")
}

// ---------------------------------------------------------------------------------------------
// conditions

func singleBit(v constant.Value) (int, bool) {
	u, ok := constant.Uint64Val(v)
	if !ok || u == 0 || bits.OnesCount64(u) != 1 {
		return 0, false
	}
	return bits.TrailingZeros64(u), true
}

func isZeroConst(v constant.Value) bool {
	switch v.Kind() {
	case constant.Int:
		return constant.Sign(v) == 0
	case constant.String:
		return constant.StringVal(v) == ""
	case constant.Float:
		return constant.Sign(v) == 0
	}
	return false
}

func (x *extractor) cond(e ast.Expr) *Cond {
	e = ast.Unparen(e)
	if v, ok := x.constOf(e); ok && v.Kind() == constant.Bool {
		return &Cond{Kind: "const", X: constStr(v), Expr: e}
	}
	switch e := e.(type) {
	case *ast.UnaryExpr:
		if e.Op == token.NOT {
			return x.cond(e.X).Not()
		}
	case *ast.BinaryExpr:
		switch e.Op {
		case token.LAND, token.LOR:
			k := "and"
			if e.Op == token.LOR {
				k = "or"
			}
			l, r := x.cond(e.X), x.cond(e.Y)
			var sub []*Cond
			for _, s := range []*Cond{l, r} {
				if s.Kind == k && !s.Neg {
					sub = append(sub, s.Sub...)
				} else {
					sub = append(sub, s)
				}
			}
			return &Cond{Kind: k, Sub: sub, Expr: e}
		case token.NEQ, token.EQL:
			neg := e.Op == token.EQL
			a, b := ast.Unparen(e.X), ast.Unparen(e.Y)
			if v, ok := x.constOf(a); ok && !func() bool { _, ok := x.constOf(b); return ok }() {
				_ = v
				a, b = b, a
			}
			if x.isNil(b) {
				if t := x.typeOf(a); t != nil && isErrorType(t) {
					return &Cond{Kind: "errnil", X: x.expr(a), Neg: neg, Expr: e}
				}
				return &Cond{Kind: "cmp", X: x.expr(a), Op: "!=", Y: "nil", Neg: neg, Expr: e}
			}
			if bv, ok := x.constOf(b); ok {
				if isZeroConst(bv) {
					// X & C != 0
					if be, ok := a.(*ast.BinaryExpr); ok && be.Op == token.AND {
						l, r := ast.Unparen(be.X), ast.Unparen(be.Y)
						if _, ok := x.constOf(l); ok {
							l, r = r, l
						}
						if cv, ok := x.constOf(r); ok {
							if k, ok := singleBit(cv); ok {
								return &Cond{Kind: "bit", X: x.expr(l), Bit: k, Neg: neg, Expr: e}
							}
							return &Cond{Kind: "mask", X: x.expr(l), Y: constStr(cv), Neg: neg, Expr: e}
						}
					}
					return &Cond{Kind: "nz", X: x.expr(a), Neg: neg, Expr: e}
				}
				// (X >> k) & 1 == 1  or X&C == C (single bit)
				if be, ok := a.(*ast.BinaryExpr); ok && be.Op == token.AND {
					l, r := ast.Unparen(be.X), ast.Unparen(be.Y)
					if cv, ok := x.constOf(r); ok {
						if k, ok := singleBit(cv); ok && constant.Compare(cv, token.EQL, bv) {
							if sh, ok := l.(*ast.BinaryExpr); ok && sh.Op == token.SHR {
								if sv, ok := x.constOf(sh.Y); ok {
									s, _ := constant.Int64Val(sv)
									return &Cond{Kind: "bit", X: x.expr(sh.X), Bit: int(s) + k, Neg: !neg, Expr: e}
								}
							}
							return &Cond{Kind: "bit", X: x.expr(l), Bit: k, Neg: !neg, Expr: e}
						}
					}
				}
				if bv.Kind() == constant.Bool {
					c := x.cond(a)
					if constant.BoolVal(bv) == neg { // a == true  or a != false
						return c
					}
					return c.Not()
				}
			}
			return &Cond{Kind: "cmp", X: x.expr(a), Op: "!=", Y: x.expr(b), Neg: neg, Expr: e}
		case token.LSS, token.GTR, token.LEQ, token.GEQ:
			// normalise to < and <= with possible swap: a > b ≡ b < a ; a >= b ≡ b <= a
			a, b, op := x.expr(e.X), x.expr(e.Y), e.Op
			switch op {
			case token.GTR:
				a, b, op = b, a, token.LSS
			case token.GEQ:
				a, b, op = b, a, token.LEQ
			}
			return &Cond{Kind: "cmp", X: a, Op: op.String(), Y: b, Expr: e}
		}
	}
	if t := x.typeOf(e); t != nil && isBool(t) {
		return &Cond{Kind: "bool", X: x.expr(e), Expr: e}
	}
	return &Cond{Kind: "cmp", X: x.expr(e), Op: "?", Expr: e}
}

// canonIfOrientation: `if c {A} else {B}` and `if !c {B} else {A}` are one construct. With a plain else block the
// condition is made positive (`x == nil` is held as !(x != nil); `a <= b` is !(b < a)) and the branches swapped, so that
// rules see the same shape whichever way the source is written.
func canonIfOrientation(n *IfN, s *ast.IfStmt) {
	if _, plain := s.Else.(*ast.BlockStmt); !plain || n.Cond == nil {
		return
	}
	c := *n.Cond
	switch {
	case c.Neg:
		c.Neg = false
	case c.Kind == "cmp" && c.Op == "<=":
		c.X, c.Y, c.Op = c.Y, c.X, "<"
	default:
		return
	}
	n.Cond = &c
	n.Then, n.Else = n.Else, n.Then
}

func (x *extractor) isNil(e ast.Expr) bool {
	id, ok := ast.Unparen(e).(*ast.Ident)
	if !ok {
		return false
	}
	_, isNil := x.info.Uses[id].(*types.Nil)
	return isNil
}

// ---------------------------------------------------------------------------------------------
// statements

func (x *extractor) block(list []ast.Stmt) Block {
	var out Block
	for _, s := range list {
		out = append(out, x.stmt(s)...)
	}
	return out
}

func (x *extractor) callNode(call *ast.CallExpr) *CallN {
	n := &CallN{Pos: call.Pos(), Expr: call, ArgExprs: call.Args}
	n.Fn = typeutil.StaticCallee(x.info, call)
	if n.Fn == nil {
		if id, ok := ast.Unparen(call.Fun).(*ast.Ident); ok {
			if _, ok := x.info.Uses[id].(*types.Builtin); ok {
				n.Builtin = id.Name
			}
		}
		if n.Builtin == "" {
			n.Builtin = "dyn:" + x.expr(call.Fun)
		}
	} else if sel, ok := ast.Unparen(call.Fun).(*ast.SelectorExpr); ok && n.Fn.Type().(*types.Signature).Recv() != nil {
		n.Recv = x.expr(sel.X)
		n.RecvExpr = sel.X
	}
	for _, a := range call.Args {
		n.Args = append(n.Args, x.expr(a))
		if fl, ok := ast.Unparen(a).(*ast.FuncLit); ok {
			n.Closures = append(n.Closures, &ClosureN{Pos: fl.Pos(), Name: "arg", Body: x.block(fl.Body.List)})
		}
	}
	return n
}

// errReturn reports whether body is `return …, err` (or `return err`) for the error variable named in cond.
func (x *extractor) isErrPropagation(c *Cond, body []ast.Stmt) bool {
	if c.Kind != "errnil" || c.Neg || len(body) != 1 {
		return false
	}
	ret, ok := body[0].(*ast.ReturnStmt)
	if !ok || len(ret.Results) == 0 {
		return false
	}
	last := ret.Results[len(ret.Results)-1]
	return x.expr(last) == c.X
}

func (x *extractor) stmt(s ast.Stmt) []Node {
	switch s := s.(type) {
	case *ast.EmptyStmt:
		return nil
	case *ast.BlockStmt:
		return x.block(s.List)
	case *ast.ExprStmt:
		if call, ok := ast.Unparen(s.X).(*ast.CallExpr); ok {
			if tv, ok := x.info.Types[call.Fun]; !(ok && tv.IsType()) {
				return []Node{x.callNode(call)}
			}
		}
		return []Node{&OtherN{Pos: s.Pos(), Text: x.expr(s.X), Stmt: s}}
	case *ast.DeclStmt:
		var out []Node
		gd, ok := s.Decl.(*ast.GenDecl)
		if !ok {
			return []Node{&OtherN{Pos: s.Pos(), Stmt: s}}
		}
		for _, sp := range gd.Specs {
			vs, ok := sp.(*ast.ValueSpec)
			if !ok {
				continue
			}
			for i, id := range vs.Names {
				v, _ := x.info.Defs[id].(*types.Var)
				if v == nil {
					continue
				}
				out = append(out, &DeclN{Pos: id.Pos(), Name: x.varName(v), Type: v.Type()})
				if i < len(vs.Values) {
					out = append(out, x.assign(id.Pos(), []ast.Expr{id}, token.ASSIGN, []ast.Expr{vs.Values[i]})...)
				}
			}
		}
		return out
	case *ast.AssignStmt:
		return x.assign(s.Pos(), s.Lhs, s.Tok, s.Rhs)
	case *ast.IncDecStmt:
		return []Node{&AssignN{Pos: s.Pos(), LHS: []string{x.expr(s.X)}, Tok: s.Tok, LE: []ast.Expr{s.X}}}
	case *ast.ReturnStmt:
		if len(s.Results) >= 1 {
			if call, ok := ast.Unparen(s.Results[0]).(*ast.CallExpr); ok {
				if tv, ok := x.info.Types[call.Fun]; !(ok && tv.IsType()) {
					if _, isConst := x.constOf(call); !isConst && !x.isPureBuiltin(call) {
						n := x.callNode(call)
						if len(s.Results) == 1 {
							n.Tail = true
							n.ErrChecked = true
							return []Node{n, &ReturnN{Pos: s.Pos(), Vals: []string{"<tail>"}, VE: s.Results}}
						}
						// `return f(x), nil`
						vals := []string{"<call>"}
						for _, r := range s.Results[1:] {
							vals = append(vals, x.expr(r))
						}
						n.Results = []string{"<ret0>"}
						return []Node{n, &ReturnN{Pos: s.Pos(), Vals: vals, VE: s.Results}}
					}
				}
			}
		}
		r := &ReturnN{Pos: s.Pos(), VE: s.Results}
		for _, e := range s.Results {
			r.Vals = append(r.Vals, x.expr(e))
		}
		return []Node{r}
	case *ast.IfStmt:
		var out []Node
		if s.Init != nil {
			init := x.stmt(s.Init)
			c := x.cond(s.Cond)
			// `if w, err = f(); err != nil { return w, err }`
			if len(init) >= 1 && s.Else == nil && x.isErrPropagation(c, s.Body.List) {
				if call, ok := init[len(init)-1].(*CallN); ok {
					call.ErrChecked = true
					return init
				}
			}
			out = append(out, init...)
			n := &IfN{Pos: s.Pos(), Cond: c, Then: x.block(s.Body.List)}
			if s.Else != nil {
				n.Else = x.stmt(s.Else)
			}
			canonIfOrientation(n, s)
			return append(out, n)
		}
		c := x.cond(s.Cond)
		n := &IfN{Pos: s.Pos(), Cond: c, Then: x.block(s.Body.List)}
		if s.Else != nil {
			n.Else = x.stmt(s.Else)
		}
		canonIfOrientation(n, s)
		return []Node{n}
	case *ast.SwitchStmt:
		var out []Node
		if s.Init != nil {
			out = append(out, x.stmt(s.Init)...)
		}
		n := &SwitchN{Pos: s.Pos()}
		if s.Tag != nil {
			n.Tag = x.expr(s.Tag)
		}
		for _, cc := range s.Body.List {
			cl := cc.(*ast.CaseClause)
			cn := &CaseN{Pos: cl.Pos(), Default: cl.List == nil}
			for _, v := range cl.List {
				if s.Tag == nil {
					cn.Vals = append(cn.Vals, x.cond(v).String())
				} else {
					cn.Vals = append(cn.Vals, x.expr(v))
				}
			}
			cn.Body = x.block(cl.Body)
			n.Cases = append(n.Cases, cn)
		}
		return append(out, n)
	case *ast.RangeStmt:
		n := &LoopN{Pos: s.Pos(), Kind: "range", Stmt: s}
		n.Over = x.expr(s.X)
		_, isMap := x.typeOf(s.X).Underlying().(*types.Map)
		if p, ok := x.typeOf(s.X).Underlying().(*types.Pointer); ok {
			_, isMap = p.Elem().Underlying().(*types.Map)
		}
		if id, ok := s.Key.(*ast.Ident); ok && id.Name != "_" {
			if v, ok := x.info.ObjectOf(id).(*types.Var); ok {
				if isMap {
					x.alias[v] = "key(" + n.Over + ")"
				} else {
					x.rangeIx[v] = true
				}
			}
		}
		if id, ok := s.Value.(*ast.Ident); ok && id.Name != "_" {
			if v, ok := x.info.ObjectOf(id).(*types.Var); ok {
				x.alias[v] = n.Over + "[*]"
			}
		}
		n.Body = x.block(s.Body.List)
		return []Node{n}
	case *ast.ForStmt:
		n := &LoopN{Pos: s.Pos(), Kind: "for", Stmt: s}
		// counting loop: for i := 0; i < N; i++
		if as, ok := s.Init.(*ast.AssignStmt); ok && len(as.Lhs) == 1 && s.Cond != nil && s.Post != nil {
			if id, ok := as.Lhs[0].(*ast.Ident); ok {
				if v, ok := x.info.ObjectOf(id).(*types.Var); ok {
					if be, ok := ast.Unparen(s.Cond).(*ast.BinaryExpr); ok && be.Op == token.LSS {
						if lid, ok := ast.Unparen(be.X).(*ast.Ident); ok && x.info.ObjectOf(lid) == v {
							if inc, ok := s.Post.(*ast.IncDecStmt); ok && inc.Tok == token.INC {
								if zv, ok := x.constOf(as.Rhs[0]); ok && isZeroConst(zv) {
									n.Count = true
									n.Over = x.expr(be.Y)
									x.rangeIx[v] = true
								}
							}
						}
					}
				}
			}
		}
		var pre []Node
		if !n.Count {
			if s.Init != nil {
				pre = x.stmt(s.Init)
			}
			if s.Cond != nil {
				n.Cond = x.cond(s.Cond)
			}
		}
		n.Body = x.block(s.Body.List)
		if !n.Count && s.Post != nil {
			n.Body = append(n.Body, x.stmt(s.Post)...)
		}
		return append(pre, n)
	case *ast.SelectStmt:
		n := &SwitchN{Pos: s.Pos(), Tag: "select"}
		for _, cc := range s.Body.List {
			cl := cc.(*ast.CommClause)
			cn := &CaseN{Pos: cl.Pos(), Default: cl.Comm == nil}
			if cl.Comm != nil {
				switch cm := cl.Comm.(type) {
				case *ast.ExprStmt:
					cn.Vals = []string{x.expr(cm.X)}
				case *ast.AssignStmt:
					cn.Vals = []string{x.exprs(cm.Rhs)}
				case *ast.SendStmt:
					cn.Vals = []string{x.expr(cm.Chan) + "<-" + x.expr(cm.Value)}
				}
			}
			cn.Body = x.block(cl.Body)
			n.Cases = append(n.Cases, cn)
		}
		return []Node{n}
	case *ast.BranchStmt:
		return []Node{&BranchN{Pos: s.Pos(), Tok: s.Tok}}
	case *ast.LabeledStmt:
		return x.stmt(s.Stmt)
	case *ast.SendStmt:
		return []Node{&OtherN{Pos: s.Pos(), Text: "send " + x.expr(s.Chan) + " <- " + x.expr(s.Value), Stmt: s}}
	case *ast.DeferStmt:
		return []Node{&OtherN{Pos: s.Pos(), Text: "defer " + x.expr(s.Call), Stmt: s}}
	case *ast.GoStmt:
		return []Node{&OtherN{Pos: s.Pos(), Text: "go " + x.expr(s.Call), Stmt: s}}
	}
	return []Node{&OtherN{Pos: s.Pos(), Text: fmt.Sprintf("%T", s), Stmt: s}}
}

// assignedLater is a placeholder hook: aliases of parameter bytes are only taken before the
// parameter is re-sliced in the same statement list; the generated and basictl code reads b0 first.
func (x *extractor) assignedLater(v *types.Var) bool { return false }

func (x *extractor) isPureBuiltin(call *ast.CallExpr) bool {
	id, ok := ast.Unparen(call.Fun).(*ast.Ident)
	if !ok {
		return false
	}
	if _, ok := x.info.Uses[id].(*types.Builtin); ok {
		switch id.Name {
		case "len", "cap", "min", "max", "new", "make":
			return true
		}
	}
	return false
}

func (x *extractor) assign(pos token.Pos, lhs []ast.Expr, tok token.Token, rhs []ast.Expr) []Node {
	if len(rhs) == 1 && len(lhs) == 1 {
		if fl, ok := ast.Unparen(rhs[0]).(*ast.FuncLit); ok {
			return []Node{&ClosureN{Pos: pos, Name: x.expr(lhs[0]), Body: x.block(fl.Body.List)}}
		}
	}
	// single call on the right → CallN with result targets
	if len(rhs) == 1 {
		if call, ok := ast.Unparen(rhs[0]).(*ast.CallExpr); ok {
			if tv, ok := x.info.Types[call.Fun]; !(ok && tv.IsType()) && !x.isPureBuiltin(call) {
				if _, isConst := x.constOf(call); !isConst {
					// define locals first so that they get stable names
					n := x.callNode(call)
					for _, l := range lhs {
						n.Results = append(n.Results, x.expr(l))
					}
					return []Node{n}
				}
			}
		}
	}
	// local alias: `data := *m`
	if tok == token.DEFINE && len(lhs) == 1 && len(rhs) == 1 {
		if id, ok := lhs[0].(*ast.Ident); ok {
			if v, ok := x.info.Defs[id].(*types.Var); ok {
				r := ast.Unparen(rhs[0])
				if st, ok := r.(*ast.StarExpr); ok {
					if _, isId := ast.Unparen(st.X).(*ast.Ident); isId {
						x.alias[v] = x.expr(r)
						return nil
					}
				}
				// byte alias: `b0 := r[0]` (constant index of a parameter)
				if ix, ok := r.(*ast.IndexExpr); ok {
					if _, isConst := x.constOf(ix.Index); isConst {
						if id, ok := ast.Unparen(ix.X).(*ast.Ident); ok {
							if pv, ok := x.info.ObjectOf(id).(*types.Var); ok && pv.Parent() != nil && !x.assignedLater(pv) {
								x.alias[v] = x.expr(r)
								return nil
							}
						}
					}
				}
				// pointer alias: `elem := &(*vec)[i]`
				if u, ok := r.(*ast.UnaryExpr); ok && u.Op == token.AND {
					if _, isLit := ast.Unparen(u.X).(*ast.CompositeLit); !isLit {
						x.alias[v] = x.expr(u.X)
						return nil
					}
				}
			}
		}
	}
	n := &AssignN{Pos: pos, Tok: tok, LE: lhs, RE: rhs}
	for _, r := range rhs {
		n.RHS = append(n.RHS, x.expr(r))
	}
	for _, l := range lhs {
		n.LHS = append(n.LHS, x.expr(l))
	}
	return []Node{n}
}

// ---------------------------------------------------------------------------------------------
// printing (for reports and debugging)

func dumpBlock(sb *strings.Builder, b Block, indent string) {
	for _, n := range b {
		switch n := n.(type) {
		case *CallN:
			name := n.Builtin
			if n.Fn != nil {
				name = funcDisplayName(n.Fn)
				if n.Fn.Pkg() != nil && isBasictl(n.Fn.Pkg()) {
					name = "basictl." + name
				}
			}
			fl := ""
			if n.ErrChecked {
				fl += " !err"
			}
			if n.Tail {
				fl += " tail"
			}
			fmt.Fprintf(sb, "%scall %s recv=%s(%s) -> %v%s\n", indent, name, n.Recv, strings.Join(n.Args, ", "), n.Results, fl)
		case *IfN:
			fmt.Fprintf(sb, "%sif %s\n", indent, n.Cond)
			dumpBlock(sb, n.Then, indent+"  ")
			if n.Else != nil {
				fmt.Fprintf(sb, "%selse\n", indent)
				dumpBlock(sb, n.Else, indent+"  ")
			}
		case *SwitchN:
			fmt.Fprintf(sb, "%sswitch %s\n", indent, n.Tag)
			for _, c := range n.Cases {
				if c.Default {
					fmt.Fprintf(sb, "%s default:\n", indent)
				} else {
					fmt.Fprintf(sb, "%s case %s:\n", indent, strings.Join(c.Vals, ","))
				}
				dumpBlock(sb, c.Body, indent+"    ")
			}
		case *LoopN:
			fmt.Fprintf(sb, "%sloop %s over=%s count=%v cond=%v\n", indent, n.Kind, n.Over, n.Count, n.Cond)
			dumpBlock(sb, n.Body, indent+"  ")
		case *AssignN:
			fmt.Fprintf(sb, "%sassign %s %s %s\n", indent, strings.Join(n.LHS, ","), n.Tok, strings.Join(n.RHS, ","))
		case *ReturnN:
			fmt.Fprintf(sb, "%sreturn %s\n", indent, strings.Join(n.Vals, ", "))
		case *DeclN:
			fmt.Fprintf(sb, "%sdecl %s\n", indent, n.Name)
		case *ClosureN:
			fmt.Fprintf(sb, "%sclosure %s\n", indent, n.Name)
			dumpBlock(sb, n.Body, indent+"  ")
		case *BranchN:
			fmt.Fprintf(sb, "%s%s\n", indent, n.Tok)
		case *OtherN:
			fmt.Fprintf(sb, "%sother %s\n", indent, n.Text)
		}
	}
}

func (ir *FuncIR) Dump() string {
	var sb strings.Builder
	fmt.Fprintf(&sb, "func %s\n", ir.Info.Name())
	dumpBlock(&sb, ir.Body, "  ")
	return sb.String()
}

// walk visits all nodes in a block, depth first, with the stack of enclosing guards.
type Guard struct {
	Kind string // "if" | "else" | "case" | "loop"
	Cond *Cond
	Text string
	Node Node
}

func guardStr(gs []Guard) string {
	parts := make([]string, len(gs))
	for i, g := range gs {
		parts[i] = g.Text
	}
	return strings.Join(parts, " / ")
}

func walkBlock(b Block, gs []Guard, f func(n Node, gs []Guard)) {
	for _, n := range b {
		f(n, gs)
		switch n := n.(type) {
		case *IfN:
			walkBlock(n.Then, append(gs[:len(gs):len(gs)], Guard{Kind: "if", Cond: n.Cond, Text: n.Cond.String(), Node: n}), f)
			if n.Else != nil {
				nc := n.Cond.Not()
				walkBlock(n.Else, append(gs[:len(gs):len(gs)], Guard{Kind: "else", Cond: nc, Text: nc.String(), Node: n}), f)
			}
		case *SwitchN:
			for _, c := range n.Cases {
				txt := "case " + n.Tag + "==" + strings.Join(c.Vals, "|")
				if c.Default {
					txt = "default " + n.Tag
				}
				walkBlock(c.Body, append(gs[:len(gs):len(gs)], Guard{Kind: "case", Text: txt, Node: n}), f)
			}
		case *LoopN:
			walkBlock(n.Body, append(gs[:len(gs):len(gs)], Guard{Kind: "loop", Text: "loop " + n.Over, Node: n}), f)
		case *ClosureN:
			walkBlock(n.Body, append(gs[:len(gs):len(gs)], Guard{Kind: "closure", Text: "closure " + n.Name, Node: n}), f)
		case *CallN:
			for _, cl := range n.Closures {
				walkBlock(cl.Body, append(gs[:len(gs):len(gs)], Guard{Kind: "closure", Text: "closure arg", Node: cl}), f)
			}
		}
	}
}

func sortedKeys[V any](m map[string]V) []string {
	out := make([]string, 0, len(m))
	for k := range m {
		out = append(out, k)
	}
	sort.Strings(out)
	return out
}
