package main

import (
	"fmt"
	"go/ast"
	"go/token"
	"go/types"
	"regexp"
	"strings"
)

func init() {
	register("C30", func(c *Check) { linterCheck(c, "C30") })
	register("C28", func(c *Check) { linterCheck(c, "C28") })
}

// boolDefs maps single-assignment boolean locals to the normalised condition they were defined with.
func boolDefs(ir *FuncIR) map[string]string {
	defs := map[string]string{}
	count := map[string]int{}
	walkBlock(ir.Body, nil, func(n Node, _ []Guard) {
		a, ok := n.(*AssignN)
		if !ok {
			return
		}
		for i, l := range a.LHS {
			if !localRx.MatchString(l) || strings.ContainsAny(l, "[]().") {
				continue
			}
			count[l]++
			if a.Tok == token.DEFINE && i < len(a.RE) {
				if t := ir.x.typeOf(a.RE[i]); t != nil && isBool(t) {
					defs[l] = ir.x.cond(a.RE[i]).String()
				}
			}
		}
	})
	for l, n := range count {
		if n != 1 {
			delete(defs, l)
		}
	}
	return defs
}

// inlineDefs maps single-assignment locals (`x := expr`, expr not a call) to their definition.
func inlineDefs(ir *FuncIR) map[string]string {
	defs := map[string]string{}
	count := map[string]int{}
	walkBlock(ir.Body, nil, func(n Node, _ []Guard) {
		a, ok := n.(*AssignN)
		if !ok {
			return
		}
		for i, l := range a.LHS {
			if !localRx.MatchString(l) || strings.ContainsAny(l, "[]().") {
				continue
			}
			count[l]++
			if a.Tok == token.DEFINE && len(a.LHS) == len(a.RHS) && i < len(a.RHS) {
				defs[l] = a.RHS[i]
			}
		}
	})
	for l, n := range count {
		if n != 1 {
			delete(defs, l)
		}
	}
	return defs
}

var localNameRx = regexp.MustCompile(`L\d+:([A-Za-z0-9_]+)`)

func expandLocals(s string, defs map[string]string, depth int) string {
	for i := 0; i < depth; i++ {
		changed := false
		s = localRx.ReplaceAllStringFunc(s, func(l string) string {
			if d, ok := defs[l]; ok {
				changed = true
				return d
			}
			return l
		})
		if !changed {
			break
		}
	}
	return localNameRx.ReplaceAllString(s, "$$")
}

type exitInfo struct {
	Guards  string
	Pos     token.Pos
	InLoop  bool
	Guarded bool // innermost guard tests the returned value for being an error
}

func isEmptyParseError(v string) bool {
	return v == "lit:ParseError{}" || v == "lit:tlast.ParseError{}"
}

// linterExits lists the error exits of a linter function with their (expanded) guard chains.
func linterExits(ir *FuncIR) (errs []exitInfo, successInLoop []token.Pos, unguardedInLoop []token.Pos, badBreaks []token.Pos) {
	defs := inlineDefs(ir)
	var rec func(blk Block, gs []string, inLoop bool)
	rec = func(blk Block, gs []string, inLoop bool) {
		for i, n := range blk {
			switch n := n.(type) {
			case *IfN:
				c := expandLocals(n.Cond.String(), defs, 4)
				rec(n.Then, append(gs[:len(gs):len(gs)], c), inLoop)
				if n.Else != nil {
					rec(n.Else, append(gs[:len(gs):len(gs)], "!"+c), inLoop)
				}
			case *LoopN:
				rec(n.Body, append(gs[:len(gs):len(gs)], "loop("+expandLocals(n.Over, defs, 4)+")"), true)
			case *SwitchN:
				for _, cs := range n.Cases {
					rec(cs.Body, append(gs[:len(gs):len(gs)], "case "+strings.Join(cs.Vals, "|")), inLoop)
				}
			case *ClosureN:
				rec(n.Body, append(gs[:len(gs):len(gs)], "closure"), false)
			case *BranchN:
				if n.Tok == token.BREAK && inLoop {
					// allowed only as `if cond { flag = true; break }`
					ok := false
					if i == 1 && len(blk) == 2 {
						if a, isA := blk[0].(*AssignN); isA && len(a.RHS) == 1 && a.RHS[0] == "true" {
							ok = true
						}
					}
					if !ok {
						badBreaks = append(badBreaks, n.Pos)
					}
				}
			case *ReturnN:
				last := ""
				if len(n.Vals) > 0 {
					last = n.Vals[len(n.Vals)-1]
				}
				isTail := len(n.Vals) == 1 && n.Vals[0] == "<tail>"
				success := !isTail && (last == "nil" || isEmptyParseError(last) || len(n.Vals) == 0)
				if success {
					if inLoop {
						successInLoop = append(successInLoop, n.Pos)
					}
					continue
				}
				inner := ""
				if len(gs) > 0 {
					inner = gs[len(gs)-1]
				}
				// returning a variable (or a tail call) is an error exit only when guarded by a test of that value
				isVar := localRx.MatchString(last) && localRx.FindString(last) == last || isTail && i > 0
				guarded := true
				if isTail && i > 0 {
					if call, ok := blk[i-1].(*CallN); ok && call.Fn != nil && (strings.Contains(call.Fn.Name(), "Error") || call.Fn.Name() == "Errorf") {
						isVar = false // constructs an error value
					} else {
						guarded = false
					}
				} else if isVar {
					guarded = strings.Contains(inner, "err(") || strings.Contains(inner, "!= nil)")
				}
				if inLoop && isVar && !guarded {
					unguardedInLoop = append(unguardedInLoop, n.Pos)
				}
				errs = append(errs, exitInfo{Guards: strings.Join(gs, " ∧ "), Pos: n.Pos, InLoop: inLoop, Guarded: guarded})
			case *CallN:
				for _, cl := range n.Closures {
					rec(cl.Body, append(gs[:len(gs):len(gs)], "closure"), false)
				}
			}
		}
	}
	rec(ir.Body, nil, false)
	return
}

type rejectionRule struct {
	ID  string
	Doc string
	Fn  string
	Rx  *regexp.Regexp
}

var rejectionRules = []rejectionRule{
	{"constructor-removed", "an old constructor missing from the new schema is an error", "internal/tlcodegen.CheckBackwardCompatibility", regexp.MustCompile(`loop\(.*\) ∧ loop\(.*\) ∧ !\(.*Construct\.Name\] != nil\)$`)},
	{"variant-removed", "fewer constructors of a type than before is an error", "internal/tlcodegen.CheckBackwardCompatibility", regexp.MustCompile(`and\(\(len\(.*\) < len\(.*\)\),nz\(len\(.*\)\)\)$`)},
	{"function-removed", "an old function missing from the new schema is an error", "internal/tlcodegen.CheckBackwardCompatibility", regexp.MustCompile(`^loop\([^∧]*\) ∧ !\(\$\[[^∧]*\] != nil\)$`)},
	{"bare-to-union", "a type used bare that becomes a union is an error", "internal/tlcodegen.CheckBackwardCompatibility", regexp.MustCompile(`closure ∧ .*TypeDecl\.Name\) ∧ \$\.Bare$`)},
	{"constructor-used-as-type-to-union", "a type referenced by constructor name that becomes a union is an error", "internal/tlcodegen.CheckBackwardCompatibility", regexp.MustCompile(`closure ∧ !\(\$\.Type != .*Construct\.Name\)$`)},
	{"new-function-first-arg-not-nat", "a new function whose first argument is not # is an error", "internal/tlcodegen.CheckBackwardCompatibility", regexp.MustCompile(`Fields\[#0\]\.FieldType\.Type\.String\(\) != "#"\)$`)},
	{"fewer-fields", "fewer fields than before is an error", "internal/tlcodegen.checkCombinatorsBackwardCompatibility", regexp.MustCompile(`^\(len\(val\.Fields\) < len\(val2\.Fields\)\)$`)},
	{"fewer-template-arguments", "fewer template arguments than before is an error", "internal/tlcodegen.checkCombinatorsBackwardCompatibility", regexp.MustCompile(`^\(len\(val\.TemplateArguments\) < len\(val2\.TemplateArguments\)\)$`)},
	{"type-changed", "a changed type reference (name, bare marker, argument source) is an error", "internal/tlcodegen.checkCombinatorsBackwardCompatibility", regexp.MustCompile(`^closure ∧ or\(.*\.Type != \$\.Type\).*\.Bare != \$\.Bare\)`)},
	{"type-argument-changed", "a changed arithmetic/type argument is an error", "internal/tlcodegen.checkCombinatorsBackwardCompatibility", regexp.MustCompile(`closure ∧ loop\(.*Args\)\) ∧ or\(.*IsArith.*Arith\.Res != .*Arith\.Res\)`)},
	{"field-type-compared", "every old field's type is compared with the new field at the same position", "internal/tlcodegen.checkCombinatorsBackwardCompatibility", regexp.MustCompile(`^loop\(val2\.Fields\) ∧ \(\$ != nil\)$`)},
	{"mask-added", "adding a field mask to an existing field is an error", "internal/tlcodegen.checkCombinatorsBackwardCompatibility", regexp.MustCompile(`loop\(val2\.Fields\) ∧ \(\(val\.Fields\[\*\]\.Mask == nil\) != \(val2\.Fields\[\*\]\.Mask == nil\)\) ∧ \(val\.Fields\[\*\]\.Mask != nil\)$`)},
	{"mask-removed", "removing a field mask from an existing field is an error", "internal/tlcodegen.checkCombinatorsBackwardCompatibility", regexp.MustCompile(`loop\(val2\.Fields\) ∧ \(\(val\.Fields\[\*\]\.Mask == nil\) != \(val2\.Fields\[\*\]\.Mask == nil\)\) ∧ !\(val\.Fields\[\*\]\.Mask != nil\) ∧ \(val2\.Fields\[\*\]\.Mask != nil\)$`)},
	{"mask-reference-changed", "changing which field is the mask is an error", "internal/tlcodegen.checkCombinatorsBackwardCompatibility", regexp.MustCompile(`\[val\.Fields\[\*\]\.Mask\.MaskName\] != .*\[val2\.Fields\[\*\]\.Mask\.MaskName\]\)$`)},
	{"mask-bit-changed", "changing the mask bit is an error", "internal/tlcodegen.checkCombinatorsBackwardCompatibility", regexp.MustCompile(`\(val\.Fields\[\*\]\.Mask\.BitNumber != val2\.Fields\[\*\]\.Mask\.BitNumber\)$`)},
	{"appended-field-without-mask", "an appended field without a field mask is an error", "internal/tlcodegen.checkCombinatorsBackwardCompatibility", regexp.MustCompile(`^loop\(\) ∧ !\(val\.Fields\[\$\]\.Mask != nil\)$`)},
	{"appended-field-reuses-bit", "an appended field on a bit that already has meaning is an error", "internal/tlcodegen.checkCombinatorsBackwardCompatibility", regexp.MustCompile(`^loop\(\) ∧ !\$ ∧ `)},
	{"function-result-compared", "a changed function result type is an error", "internal/tlcodegen.checkCombinatorsBackwardCompatibility", regexp.MustCompile(`IsFunction\) ∧ \(\$ != nil\)$`)},
}

func linterCheck(c *Check, id string) {
	if id == "C30" {
		c.Explanation = "Backward-compatibility linter, decided on the source of CheckBackwardCompatibility and its helpers: (a) rule presence — each documented unsafe edit (constructor/function/variant removed, fewer fields or template arguments, type/bare marker/argument changed, mask added/removed, mask reference or bit changed, appended field without mask or on a used bit, bare use turned into union, new function without leading #) resolves to an error return under its characteristic guard; (b) position independence — no checking loop is left early: no success return, no break (other than flag searches), no unguarded `return f(...)` inside a loop, so an unsafe edit is found wherever it occurs; (c) the type comparer reads every wire-relevant part of a type reference (name, bare marker, arguments, arithmetic values)."
		c.NotCovered = "that the guards are semantically right for every schema pair (bit-usage analysis is value level); schemas are not executed through the linter"
	} else {
		c.Explanation = "Necessary conditions of linter soundness decided statically (the same rules as C30): the checking loops are total over the old schema (position independence), the type comparer covers every wire-relevant part of a type reference, and each documented unsafe edit has its rejection. This does NOT decide soundness: acceptance ⇒ wire compatibility for all values depends on the value-level bit-usage analysis."
		c.NotCovered = "soundness itself (acceptance implies identical encodings for all old values); checkNatUsages / getUsedBitsForFieldMask semantics"
	}
	c.Trusted = []string{"go/types", "documented unsafe edits transcribed from backward_compatibility_samples/README.md"}
	r := loadRepoFuncs(c, "./internal/tlcodegen")
	if r == nil {
		return
	}
	exits := map[string][]exitInfo{}
	for _, fn := range []string{"internal/tlcodegen.CheckBackwardCompatibility", "internal/tlcodegen.checkCombinatorsBackwardCompatibility", "internal/tlcodegen.checkAllTypeRefs"} {
		ir := r.ir(fn)
		if ir == nil {
			continue
		}
		errs, succ, ung, brk := linterExits(ir)
		exits[fn] = errs
		short := strings.TrimPrefix(fn, "internal/")
		c.Ob("linter/loop-totality", short+"/no-success-return-in-loop", len(succ) == 0, posList(r, succ), fmt.Sprintf("%d success returns inside checking loops", len(succ)))
		c.Ob("linter/loop-totality", short+"/no-early-break", len(brk) == 0, posList(r, brk), fmt.Sprintf("%d breaks other than flag searches", len(brk)))
		c.Ob("linter/loop-totality", short+"/no-unguarded-return-of-callee-result-in-loop", len(ung) == 0, posList(r, ung), fmt.Sprintf("%d `return f(…)`/`return v` inside a loop without testing the value (ends the scan at the first element)", len(ung)))
	}
	for _, rule := range rejectionRules {
		found := false
		pos := ""
		for _, e := range exits[rule.Fn] {
			if rule.Rx.MatchString(e.Guards) {
				found = true
				pos = r.pos(e.Pos)
			}
		}
		d := rule.Doc
		if !found {
			d += "; no error exit matches /" + rule.Rx.String() + "/. exits seen: "
			for _, e := range exits[rule.Fn] {
				d += "\n        " + e.Guards
			}
		}
		c.Ob("linter/rejection-present", rule.ID, found, pos, d)
	}
	// comparer coverage: the closure that compares type references reads all wire-relevant parts
	if ir := r.ir("internal/tlcodegen.checkCombinatorsBackwardCompatibility"); ir != nil {
		var body Block
		for _, n := range ir.Body {
			if cl, ok := n.(*ClosureN); ok && strings.HasSuffix(cl.Name, "compareTypes") {
				body = cl.Body
			}
		}
		if body == nil {
			// fall back: the closure that recurses on `.T`
			for _, n := range ir.Body {
				if cl, ok := n.(*ClosureN); ok {
					var sb strings.Builder
					dumpBlock(&sb, cl.Body, "")
					if strings.Contains(sb.String(), ".T,") {
						body = cl.Body
					}
				}
			}
		}
		var sb strings.Builder
		dumpBlock(&sb, body, "")
		txt := sb.String()
		for _, part := range []string{".Type", ".Bare", ".Args", ".IsArith", ".Arith.Res", ".T"} {
			c.Ob("linter/comparer-coverage", "compareTypes/"+part, strings.Contains(txt, part+" ") || strings.Contains(txt, part+")") || strings.Contains(txt, part+",") || strings.Contains(txt, part+"["), r.pos(ir.Info.Decl.Pos()), "the type comparer reads TypeRef"+part)
		}
	}
	c.Floor("linter/rejection-present", 16)
	c.Floor("linter/loop-totality", 9)
	// the numbering by which "still the same source" is decided must be injective over fields and template arguments
	if ir := r.ir("internal/tlcodegen.checkCombinatorsBackwardCompatibility"); ir != nil {
		var fieldsRHS, argsRHS string
		walkBlock(ir.Body, nil, func(n Node, _ []Guard) {
			as, ok := n.(*AssignN)
			if !ok || len(as.LHS) != 1 || len(as.RHS) != 1 {
				return
			}
			switch {
			case strings.Contains(as.LHS[0], ".Fields[*].FieldName]"):
				fieldsRHS = as.RHS[0]
			case strings.Contains(as.LHS[0], ".TemplateArguments[*].FieldName]"):
				argsRHS = as.RHS[0]
			}
		})
		neg := regexp.MustCompile(`^-\(\* \+ #([1-9]\d*)\)$`).MatchString(argsRHS)
		c.Ob("linter/source-numbering-injective", "checkCombinatorsBackwardCompatibility/fillMapping", fieldsRHS == "*" && neg, r.pos(ir.Info.Decl.Pos()), fmt.Sprintf("fields are numbered %q (their index, >= 0) and template arguments %q (must be strictly negative: -(index+k), k >= 1), so a reference moved between a field and a template argument never compares as unchanged", fieldsRHS, argsRHS))
	}
	c.Floor("linter/comparer-coverage", 6)
	memoisedMergeUnconditional(c, r)
	// a constructor of an old type must be found among the constructors of the *same* type in the new schema: the table
	// the removed-constructor test looks into is created inside the loop over old types and filled from
	// newTypes[<that type>] only (a table over all new constructors also finds one that was moved to another type)
	if ir := r.ir("internal/tlcodegen.CheckBackwardCompatibility"); ir != nil {
		ok, detail := false, "loop over the old types with a per-type constructor table not found"
		for _, n := range ir.Body {
			lp, isL := n.(*LoopN)
			if !isL || lp.Kind != "range" {
				continue
			}
			elem := lp.Over + "[*]"
			perType := map[string]bool{} // locals holding <some map>[<this type>]
			newOfType, table := "", ""
			filled, looked := false, false
			for _, st := range lp.Body {
				switch st := st.(type) {
				case *AssignN:
					if len(st.LHS) == 1 && len(st.RHS) == 1 {
						if regexp.MustCompile(`^L\d+:\w+\[` + regexp.QuoteMeta(elem) + `\]$`).MatchString(st.RHS[0]) {
							perType[st.LHS[0]] = true
						}
						if strings.HasPrefix(st.RHS[0], "make(T:map[") && strings.Contains(st.RHS[0], "Combinator") {
							table = st.LHS[0]
						}
					}
				case *LoopN:
					if table == "" {
						continue
					}
					for _, b := range st.Body {
						if as, isA := b.(*AssignN); isA && len(as.LHS) == 1 && strings.HasPrefix(as.LHS[0], table+"[") && perType[st.Over] {
							filled, newOfType = true, st.Over
						}
						if as, isA := b.(*AssignN); isA && len(as.RHS) == 1 && strings.HasPrefix(as.RHS[0], table+"[") && perType[st.Over] && st.Over != newOfType {
							looked = true
						}
					}
				}
			}
			if table != "" {
				ok = filled && looked
				detail = fmt.Sprintf("table %s created per old type; filled from the new constructors of the same type (%s): %v; removed-constructor test looks into it: %v", table, newOfType, filled, looked)
			}
		}
		c.Ob("linter/removed-constructor-looked-up-in-its-own-type", "CheckBackwardCompatibility", ok, r.pos(ir.Info.Decl.Pos()), detail)
	}
	// the boxed encoding of a value starts with its constructor's tag and a request with its function's tag: a pair of
	// schemas can only be wire compatible if the comparison looks at the tags of matched combinators
	if id == "C28" { // soundness only: a tag change is not among the edits C30 lists
		reads := 0
		for _, fn := range []string{"internal/tlcodegen.CheckBackwardCompatibility", "internal/tlcodegen.checkCombinatorsBackwardCompatibility"} {
			if ir := r.ir(fn); ir != nil {
				t := irText(ir)
				reads += strings.Count(t, ".Crc32()") + strings.Count(t, ".Construct.ID")
			}
		}
		c.Ob("linter/tags-compared", "CheckBackwardCompatibility", reads > 0, "", fmt.Sprintf("reads of a combinator's tag (Crc32() / Construct.ID) in the comparison: %d", reads))
	}
}

// memoisedMergeUnconditional: in the memoised traversals of the bit-usage analysis (closures that test a visited map
// before descending), the result of a child is merged into the entry of the current node whether or not the child
// had been visited before. A merge placed under the child's "not visited yet" test is skipped for every child
// reached a second time, and the current node then lacks the bits it inherits through that child.
func memoisedMergeUnconditional(c *Check, r *repoCtx) {
	n := 0
	for _, name := range sortedKeys(r.funcs) {
		fi := r.funcs[name]
		if !strings.HasPrefix(name, "internal/tlcodegen.") || fi.Decl.Body == nil || !strings.HasSuffix(r.co.Fset.Position(fi.Decl.Pos()).Filename, "/tlgen.go") {
			continue
		}
		info := fi.Pkg.TypesInfo
		// local closures: variable → literal
		closures := map[types.Object]*ast.FuncLit{}
		ast.Inspect(fi.Decl.Body, func(x ast.Node) bool {
			as, ok := x.(*ast.AssignStmt)
			if !ok || len(as.Lhs) != 1 || len(as.Rhs) != 1 {
				return true
			}
			if lit, ok := as.Rhs[0].(*ast.FuncLit); ok {
				if id, ok := as.Lhs[0].(*ast.Ident); ok {
					o := info.Uses[id]
					if o == nil {
						o = info.Defs[id]
					}
					if o != nil {
						closures[o] = lit
					}
				}
			}
			return true
		})
		for _, lit := range closures {
			own := map[types.Object]bool{}
			for _, f := range lit.Type.Params.List {
				for _, id := range f.Names {
					own[info.Defs[id]] = true
				}
			}
			mentionsOnlyOwn := func(e ast.Expr) bool {
				only := true
				ast.Inspect(e, func(y ast.Node) bool {
					if id, ok := y.(*ast.Ident); ok {
						if v, isVar := info.Uses[id].(*types.Var); isVar && !v.IsField() && v.Parent() != fi.Pkg.Types.Scope() && !own[v] {
							if _, isMap := v.Type().Underlying().(*types.Map); !isMap {
								only = false
							}
						}
					}
					return true
				})
				return only
			}
			ast.Inspect(lit.Body, func(x ast.Node) bool {
				is, ok := x.(*ast.IfStmt)
				if !ok || is.Init == nil {
					return true
				}
				// if _, ok := visited[k…]; !ok { … }
				init, ok := is.Init.(*ast.AssignStmt)
				if !ok || len(init.Lhs) != 2 || len(init.Rhs) != 1 {
					return true
				}
				ix, ok := init.Rhs[0].(*ast.IndexExpr)
				if !ok {
					return true
				}
				un, ok := is.Cond.(*ast.UnaryExpr)
				if !ok || un.Op != token.NOT {
					return true
				}
				// descends? (calls a local closure)
				descends := false
				ast.Inspect(is.Body, func(y ast.Node) bool {
					if call, ok := y.(*ast.CallExpr); ok {
						if id, ok := call.Fun.(*ast.Ident); ok && closures[info.Uses[id]] != nil {
							descends = true
						}
					}
					return true
				})
				if !descends || mentionsOnlyOwn(ix) {
					return true // the node's own visited test (mark and process) or not a traversal step
				}
				n++
				// under a child's not-visited test nothing may be stored into an entry keyed by the current node
				bad := token.NoPos
				ast.Inspect(is.Body, func(y ast.Node) bool {
					as, ok := y.(*ast.AssignStmt)
					if !ok {
						return true
					}
					for _, l := range as.Lhs {
						for e := ast.Expr(l); ; {
							lx, ok := e.(*ast.IndexExpr)
							if !ok {
								break
							}
							if id, ok := ast.Unparen(lx.Index).(*ast.Ident); ok && own[info.Uses[id]] {
								bad = as.Pos()
							}
							e = lx.X
						}
					}
					return true
				})
				c.Ob("linter/memoised-result-merged-for-visited-children", fmt.Sprintf("%s/child-visited-test#%d", fi.Name(), n), bad == token.NoPos, r.pos(is.Pos()), "under `if child not visited { descend }` nothing is stored into the current node's entries: the merge of the child's result must also run for children visited earlier")
				return true
			})
		}
	}
	c.Floor("linter/memoised-result-merged-for-visited-children", 1)
}

func posList(r *repoCtx, ps []token.Pos) string {
	var out []string
	for _, p := range ps {
		out = append(out, r.pos(p))
	}
	return strings.Join(out, ", ")
}
