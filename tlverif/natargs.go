package main

// Sibling agreement of nat arguments: every serializer role of one type passes the same nat-argument
// expressions, in the callee's parameter order, when it hands the same field (or the function result) to
// the nested codec of the same family.

import (
	"fmt"
	"strings"
)

type natCall struct {
	Family string
	Args   []string
	Pos    string
}

// natArgProfile: operand ("item.F", or "result" for the ret parameter of result roles) → nat arguments of
// the nested codec call(s) on that operand. The nat arguments are the arguments bound to callee
// parameters named nat_*.
func (g *genCtx) natArgProfile(fi *FuncInfo, resultRole bool) map[string][]natCall {
	out := map[string][]natCall{}
	walkBlock(g.ir(fi).Body, nil, func(n Node, _ []Guard) {
		cn, ok := n.(*CallN)
		if !ok || cn.Fn == nil {
			return
		}
		callee := g.funcs[cn.Fn]
		if callee == nil || isMetaPkg(callee.Pkg.Name) {
			return
		}
		// positions of nat parameters in the callee
		var natIdx []int
		k := 0
		for _, fl := range callee.Decl.Type.Params.List {
			for _, nm := range fl.Names {
				if strings.HasPrefix(nm.Name, "nat_") {
					natIdx = append(natIdx, k)
				}
				k++
			}
		}
		if len(natIdx) == 0 {
			return
		}
		var args []string
		for _, i := range natIdx {
			if i < len(cn.Args) {
				args = append(args, cn.Args[i])
			}
		}
		operand := ""
		if cn.Recv != "" && strings.HasPrefix(cn.Recv, "item.") {
			operand = cn.Recv
		}
		if operand == "" {
			for i, a := range cn.Args {
				isNat := false
				for _, j := range natIdx {
					if i == j {
						isNat = true
					}
				}
				if !isNat && strings.HasPrefix(a, "item.") {
					operand = a
					break
				}
			}
		}
		if operand == "" && resultRole {
			operand = "result"
		}
		if operand == "" {
			return
		}
		fam, _ := familyRole(cn.Fn)
		if fam == "" {
			fam = cn.Fn.Name()
		}
		fam = strings.TrimSuffix(fam, "Bytes")
		out[operand] = append(out[operand], natCall{Family: fam, Args: args, Pos: posStr(g.co.Fset, cn.Pos)})
	})
	return out
}

// natArgAgreement compares every role in roles with the reference role, per family of the corpus.
func natArgAgreement(c *Check, g *genCtx, rule, ref string, roles []string) int {
	n := 0
	for _, fam := range g.families() {
		rs := g.byFam[fam]
		rf := rs[ref]
		if rf == nil {
			continue
		}
		isResult := strings.Contains(ref, "Result")
		refProf := g.natArgProfile(rf, isResult)
		if len(refProf) == 0 {
			continue
		}
		for _, role := range roles {
			fi := rs[role]
			if fi == nil {
				continue
			}
			prof := g.natArgProfile(fi, isResult)
			for operand, calls := range prof {
				want, ok := refProf[operand]
				if !ok {
					continue
				}
				for _, cl := range calls {
					n++
					match := false
					for _, w := range want {
						if strings.Join(w.Args, ",") == strings.Join(cl.Args, ",") {
							match = true
						}
					}
					c.Ob(rule, g.co.Spec.Name+":"+shortFam(fam)+"/"+role+"/"+operand, match, cl.Pos, fmt.Sprintf("%s hands %s to the nested codec with nat arguments (%s); %s uses (%s)", role, operand, strings.Join(cl.Args, ", "), ref, strings.Join(want[0].Args, ", ")))
				}
			}
		}
	}
	return n
}
