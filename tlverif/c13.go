package main

import (
	"fmt"
	"go/ast"
	"go/constant"
	"go/types"
	"regexp"
	"strings"
)

func init() { register("C13", checkC13) }

func checkC13(c *Check) {
	c.Explanation = "TL2 schema-evolution tolerance, decided on every generated object reader (InternalReadTL2 with a presence block) and on basictl: (1) zero declared size → Reset and success; (2) the body is cut by the declared size — `len(r) < size → error`, `currentR := r[:size]`, `r = r[size:]` — so a size larger than the input is rejected; (3) after the cut every read takes and returns currentR (never the outer r), so bytes of fields appended by a newer schema stay inside currentR; (4) every success return after the cut yields the post-cut r and no statement tests currentR for emptiness, i.e. unknown trailing bytes are skipped; (5) every later presence-block byte is read under `len(currentR) > 0`, else the block is 0, so fields missing at the end read as absent; (6) every field read under a block bit has an else branch giving the same field its empty value (or is a pure presence bit / a skip of an omitted field with SkipSizedValue); (7) basictl.TL2ParseSize has three forms selected only by the first byte, its only rejections are truncation (io.ErrUnexpectedEOF) and a 64-bit length above MaxInt — no minimality test, so non-minimal size encodings are accepted; SkipSizedValue rejects a length above the remaining input and advances by exactly that length."
	c.NotCovered = "equality of the decoded value between minimal and non-minimal encodings beyond 'same code path once the size is parsed'; union readers (an unknown variant index cannot be tolerated and is rejected)"
	c.Trusted = []string{"go/types", "C33 for the fixed-width primitives"}
	objects := 0
	withCorpora(c, true, func(g *genCtx) {
		if !g.co.Spec.TL2 && !g.co.InRepo {
			return
		}
		for _, fam := range g.families() {
			rd := g.byFam[fam]["InternalReadTL2"]
			if rd == nil {
				continue
			}
			ir := g.ir(rd)
			raw := blockText(ir.Body)
			if !regexp.MustCompile(`decl L\d+:block\n`).MatchString(raw) {
				continue // not an object reader with presence blocks
			}
			objects++
			name := g.co.Spec.Name + ":" + shortFam(fam)
			pos := posStr(g.co.Fset, rd.Decl.Pos())
			// roles of the locals
			m := regexp.MustCompile(`^assign (L\d+:\w+) := #0\ncall basictl\.TL2ParseSize recv=\(buf\) -> \[buf (L\d+:\w+) err\] !err\n`).FindStringSubmatch(raw)
			if m == nil || m[1] != m[2] {
				c.Ob("tl2-evolution/size-parsed-first", name, false, pos, "the reader does not start with TL2ParseSize into a fresh local")
				continue
			}
			size := regexp.QuoteMeta(m[1])
			zero := regexp.MustCompile(`\nif !nz\(` + size + `\)\n  call \w+\.Reset recv=item\(\) -> \[\]\n  return buf, nil\n`).MatchString(raw)
			c.Ob("tl2-evolution/zero-size-resets", name, zero, pos, "declared size 0 → Reset() and success")
			cut := regexp.MustCompile(`\nif \(len\(buf\) < ` + size + `\)\n  return buf, basictl\.TL2Error\([^\n]*\n\s*assign (L\d+:\w+) := buf\[:` + size + `\]\nassign buf = buf\[` + size + `:\]\n`).FindStringSubmatch(raw)
			c.Ob("tl2-evolution/body-cut-by-declared-size", name, cut != nil, pos, "len(r) < size → error; currentR := r[:size]; r = r[size:]")
			if cut == nil {
				continue
			}
			cur := cut[1]
			after := raw[strings.Index(raw, "assign buf = buf["+m[1]+":]\n"):]
			// (3) reads only from the body
			bad := ""
			walkBlock(ir.Body, nil, func(n Node, _ []Guard) {
				cn, ok := n.(*CallN)
				if !ok || cn.Fn == nil || bad != "" {
					return
				}
				nm := cn.Fn.Name()
				isRead := isBasictl(cn.Fn.Pkg()) && (strings.Contains(nm, "Read") || nm == "TL2ParseSize" || nm == "SkipSizedValue") || strings.Contains(nm, "InternalReadTL2")
				if !isRead {
					return
				}
				src := ""
				for _, a := range cn.Args {
					if a == "buf" || a == cur {
						src = a
						break
					}
				}
				dst := ""
				if len(cn.Results) > 0 {
					dst = cn.Results[0]
				}
				if src == "buf" && dst == "buf" && nm == "TL2ParseSize" && posBefore(g, cn, ir, m[1]) {
					return // the outer size itself
				}
				if src != cur || dst != cur {
					bad = fmt.Sprintf("%s reads from %q into %q", nm, src, dst)
				}
			})
			c.Ob("tl2-evolution/fields-read-from-body-only", name, bad == "", pos, "after the cut every read consumes "+cur+": "+orStr(bad, "ok"))
			// (4) success returns and no emptiness test
			succ, okRet := 0, true
			walkBlock(ir.Body, nil, func(n Node, _ []Guard) {
				if rt, ok := n.(*ReturnN); ok && len(rt.Vals) == 2 && rt.Vals[1] == "nil" {
					succ++
					if rt.Vals[0] != "buf" {
						okRet = false
					}
				}
			})
			emptiness := regexp.MustCompile(`if [^\n]*len\(` + regexp.QuoteMeta(cur) + `\)[^\n]*\n\s+return [^\n]*(Error|Errorf)`).MatchString(after)
			c.Ob("tl2-evolution/unknown-tail-skipped", name, okRet && succ >= 2 && !emptiness, pos, fmt.Sprintf("%d success returns all yield the post-cut r; no error on leftover bytes of the body=%v", succ, !emptiness))
			// (5) later block bytes
			blockReads := regexp.MustCompile(`call basictl\.ByteRead recv=\(`+regexp.QuoteMeta(cur)+`, (L\d+:block)\)`).FindAllStringIndex(after, -1)
			guarded := len(regexp.MustCompile(`if \(#0 < len\(`+regexp.QuoteMeta(cur)+`\)\)\n\s+call basictl\.ByteRead recv=\(`+regexp.QuoteMeta(cur)+`, (L\d+:block)\)[^\n]*\n\s*else\n\s+assign L\d+:block = #0\n`).FindAllStringIndex(after, -1))
			c.Ob("tl2-evolution/missing-block-byte-is-zero", name, len(blockReads) >= 1 && guarded == len(blockReads)-1, pos, fmt.Sprintf("%d block-byte reads; all but the first are under `len(%s) > 0` with `block = 0` otherwise (%d)", len(blockReads), cur, guarded))
			// (6) absent field → empty
			nf := 0
			for _, n := range ir.Body {
				in, ok := n.(*IfN)
				if !ok || in.Cond.Kind != "bit" || !strings.Contains(in.Cond.String(), ":block,") {
					continue
				}
				// what does the then-branch define?
				var fields []string
				skipOnly := false
				for _, t := range in.Then {
					switch t := t.(type) {
					case *CallN:
						if t.Fn == nil {
							continue
						}
						if t.Fn.Name() == "SkipSizedValue" {
							skipOnly = true
						}
						for _, a := range append([]string{t.Recv}, t.Args...) {
							if strings.HasPrefix(a, "item.") && !strings.HasPrefix(a, "item.tl2mask") {
								fields = append(fields, a)
							}
						}
					case *AssignN:
						for _, l := range t.LHS {
							if strings.HasPrefix(l, "item.") && !strings.HasPrefix(l, "item.tl2mask") {
								fields = append(fields, l)
							}
						}
					}
				}
				if len(fields) == 0 {
					_ = skipOnly
					continue // pure presence bit, variant index, or skip of an omitted field
				}
				nf++
				elseTxt := blockText(in.Else)
				ok2 := true
				for _, f := range fields {
					if !strings.Contains(elseTxt, f) {
						ok2 = false
					}
				}
				c.Ob("tl2-evolution/absent-field-becomes-empty", name+"/"+fields[0], ok2 && len(in.Else) > 0, posStr(g.co.Fset, in.Pos), "a field read under "+in.Cond.String()+" gets its empty value in the else branch")
			}
		}
	})
	c.Set("object_readers", objects)
	// (7) basictl
	for _, b := range loadBasictl(c) {
		if ir := b.ir("TL2ParseSize"); ir != nil {
			t := irText(ir)
			var rejects []string
			walkBlock(ir.Body, nil, func(n Node, gs []Guard) {
				rt, ok := n.(*ReturnN)
				if !ok || len(rt.Vals) != 3 || rt.Vals[2] == "nil" {
					return
				}
				g := ""
				if len(gs) > 0 {
					g = gs[len(gs)-1].Text
				}
				rejects = append(rejects, g+" → "+rt.Vals[2])
			})
			okRej := len(rejects) == 4
			for _, r := range rejects {
				trunc := regexp.MustCompile(`^(!nz\(len\(buf\)\)|\(len\(buf\) < #\d+\)) → io\.ErrUnexpectedEOF$`).MatchString(r)
				huge := strings.HasPrefix(r, "(#9223372036854775807 < ") && strings.Contains(r, "fmt.Errorf(")
				if !trunc && !huge {
					okRej = false
				}
			}
			forms := strings.Contains(t, "case (buf[#0] < #254):") && strings.Contains(t, "case !(buf[#0] != #254):") && strings.Contains(t, "default:")
			b.ob("tl2-evolution/size-forms-accepted", "TL2ParseSize", okRej && forms, fmt.Sprintf("three forms chosen by the first byte=%v; rejections are only truncation and >MaxInt: %v", forms, rejects))
		}
		if ir := b.ir("SkipSizedValue"); ir != nil {
			t := irText(ir)
			ok := strings.Contains(t, "call basictl.TL2ParseSize recv=(buf) -> [buf $ err] !err\nif (len(buf) < $)\n  return buf, TL2Error(") && strings.Contains(t, "assign buf = buf[$:]\nreturn buf, err\n")
			b.ob("tl2-evolution/skip-sized-value", "SkipSizedValue", ok, "parses the length, rejects length > remaining input, advances by exactly the length")
		}
	}
	// the generator: a field that is present on the wire but not decoded is skipped by its declared size. Only the
	// emitters of fixed-width kinds (primitives, bool) may produce a fixed-width skip; every kind that is written with a
	// size prefix (struct — also one without fields —, union, maybe, tuple/vector, dictionary) must produce the sized skip,
	// because a newer writer may have put more into the same object
	if r := loadRepoFuncs(c, "./internal/puregen/gengo"); r != nil {
		fixedAllowed := map[string]bool{"TypeRWPrimitive": true, "TypeRWBool": true}
		nSkip := 0
		for _, name := range sortedKeys(r.funcs) {
			fi := r.funcs[name]
			if fi.Obj.Name() != "skipTL2Call" || fi.Decl.Recv == nil || fi.Decl.Body == nil {
				continue
			}
			recv := namedStructName(fi.Obj.Type().(*types.Signature).Recv().Type())
			fixed, sized := 0, 0
			ast.Inspect(fi.Decl.Body, func(n ast.Node) bool {
				if e, ok := n.(ast.Expr); ok {
					if tv, ok := fi.Pkg.TypesInfo.Types[e]; ok && tv.Value != nil && tv.Value.Kind() == constant.String {
						v := constant.StringVal(tv.Value)
						if strings.Contains(v, "SkipFixedSizedValue") {
							fixed++
						}
						if strings.Contains(v, "SkipSizedValue") {
							sized++
						}
						return false
					}
				}
				return true
			})
			nSkip++
			ok := fixed == 0 && sized > 0 || fixedAllowed[recv]
			c.Ob("tl2-evolution/generator-skips-sized-kinds-by-size", recv+".skipTL2Call", ok, r.pos(fi.Decl.Pos()), fmt.Sprintf("emits fixed-width skip: %d, sized skip: %d; a fixed-width skip is allowed only for %v", fixed, sized, sortedKeys(fixedAllowed)))
		}
		c.Set("generator_skip_emitters", nSkip)
	}
	c.Floor("tl2-evolution/generator-skips-sized-kinds-by-size", 6)
	c.Floor("tl2-evolution/zero-size-resets", 100)
	c.Floor("tl2-evolution/body-cut-by-declared-size", 100)
	c.Floor("tl2-evolution/fields-read-from-body-only", 100)
	c.Floor("tl2-evolution/unknown-tail-skipped", 100)
	c.Floor("tl2-evolution/missing-block-byte-is-zero", 100)
	c.Floor("tl2-evolution/absent-field-becomes-empty", 300)
	c.Floor("tl2-evolution/size-forms-accepted", 2)
	c.Floor("tl2-evolution/skip-sized-value", 2)
}

// posBefore: the call is the first TL2ParseSize (it defines the size local).
func posBefore(g *genCtx, cn *CallN, ir *FuncIR, sizeLocal string) bool {
	return len(cn.Results) >= 2 && cn.Results[1] == sizeLocal
}
