package main

// E8: who-may-write over struct fields, resolved through go/types. A "write" of field T.F is an
// occurrence of a selector resolving to that field object (a) on the left of an assignment or in
// inc/dec (including through sub-selectors and indexing: x.F.G = …, x.F[i] = …), (b) under a unary &,
// (c) as the receiver of a pointer-receiver method that is not in the read-only list, or (d) as the
// whole operand of a composite-literal key (T{F: …} construction is reported separately as "init").

import (
	"go/ast"
	"go/token"
	"go/types"
	"strings"
)

type fieldWrite struct {
	Func  string
	Field string // "Type.Field"
	How   string
	Pos   token.Pos
}

var readOnlyMethodPrefixes = []string{"Write", "IsSet", "Get", "String", "TLName", "TLTag", "Calculate", "Internal" + "WriteTL2", "Len", "Load", "Front", "Back", "Index", "Empty"}

func isReadOnlyMethod(name string) bool {
	for _, p := range readOnlyMethodPrefixes {
		if strings.HasPrefix(name, p) {
			return true
		}
	}
	return false
}

// fieldKey returns "Type.Field" for a selector that resolves to a struct field of a named type.
func fieldKey(info *types.Info, sel *ast.SelectorExpr) string {
	s := info.Selections[sel]
	if s == nil || s.Kind() != types.FieldVal {
		return ""
	}
	t := s.Recv()
	for {
		if p, ok := t.(*types.Pointer); ok {
			t = p.Elem()
			continue
		}
		break
	}
	n, ok := t.(*types.Named)
	if !ok {
		return ""
	}
	// embedded promotion: attribute to the struct that declares the field
	if len(s.Index()) > 1 {
		st := n.Underlying()
		for _, ix := range s.Index()[:len(s.Index())-1] {
			f := st.(*types.Struct).Field(ix)
			ft := f.Type()
			if p, ok := ft.(*types.Pointer); ok {
				ft = p.Elem()
			}
			if nn, ok := ft.(*types.Named); ok {
				n = nn
			}
			st = ft.Underlying()
		}
	}
	return n.Obj().Name() + "." + sel.Sel.Name
}

// spineSelectors: walking down x.F.G[i].H returns every selector on the spine whose storage is written
// when the whole expression is written: the walk stops below a selector whose operand is a pointer
// (x.p.f = v writes the pointee, not x's field p). Slice and map elements count as content of the field.
func spineSelectors(info *types.Info, e ast.Expr) []*ast.SelectorExpr {
	var out []*ast.SelectorExpr
	for {
		switch x := e.(type) {
		case *ast.SelectorExpr:
			out = append(out, x)
			if tv, ok := info.Types[x.X]; ok {
				if _, isPtr := tv.Type.Underlying().(*types.Pointer); isPtr {
					// x.X is a pointer: x.X's own storage is not written. Only continue if x.X is a plain
					// identifier chain start (nothing more to report anyway).
					return out
				}
			}
			e = x.X
		case *ast.IndexExpr:
			e = x.X
		case *ast.StarExpr:
			return out
		case *ast.ParenExpr:
			e = x.X
		case *ast.SliceExpr:
			e = x.X
		default:
			return out
		}
	}
}

func fieldWriters(fis []*FuncInfo, tracked map[string]bool) []fieldWrite {
	var out []fieldWrite
	for _, fi := range fis {
		if fi.Decl.Body == nil {
			continue
		}
		info := fi.Pkg.TypesInfo
		note := func(e ast.Expr, how string, pos token.Pos) {
			for _, sel := range spineSelectors(info, e) {
				if k := fieldKey(info, sel); tracked[k] {
					out = append(out, fieldWrite{Func: fi.Name(), Field: k, How: how, Pos: pos})
				}
			}
		}
		ast.Inspect(fi.Decl.Body, func(n ast.Node) bool {
			switch n := n.(type) {
			case *ast.AssignStmt:
				for _, l := range n.Lhs {
					note(l, "assign "+n.Tok.String(), n.Pos())
				}
			case *ast.IncDecStmt:
				note(n.X, n.Tok.String(), n.Pos())
			case *ast.UnaryExpr:
				if n.Op == token.AND {
					note(n.X, "address taken", n.Pos())
				}
			case *ast.RangeStmt:
				if n.Key != nil {
					note(n.Key, "range key", n.Pos())
				}
				if n.Value != nil {
					note(n.Value, "range value", n.Pos())
				}
			case *ast.CallExpr:
				if sel, ok := n.Fun.(*ast.SelectorExpr); ok {
					if s := info.Selections[sel]; s != nil && s.Kind() == types.MethodVal {
						fn := s.Obj().(*types.Func)
						sig := fn.Type().(*types.Signature)
						if _, ptr := sig.Recv().Type().(*types.Pointer); ptr && !isReadOnlyMethod(fn.Name()) {
							if tv, ok := info.Types[sel.X]; ok {
								if _, isPtr := tv.Type.Underlying().(*types.Pointer); isPtr {
									return true // the field holds a pointer; the callee mutates the pointee
								}
							}
							note(sel.X, "method "+fn.Name(), n.Pos())
						}
					}
				}
			case *ast.CompositeLit:
				for _, el := range n.Elts {
					if kv, ok := el.(*ast.KeyValueExpr); ok {
						if id, ok := kv.Key.(*ast.Ident); ok {
							if v, ok := info.Uses[id].(*types.Var); ok && v.IsField() {
								if tv, ok := info.Types[n]; ok {
									t := tv.Type
									if p, ok := t.(*types.Pointer); ok {
										t = p.Elem()
									}
									if nn, ok := t.(*types.Named); ok {
										if k := nn.Obj().Name() + "." + id.Name; tracked[k] {
											out = append(out, fieldWrite{Func: fi.Name(), Field: k, How: "init", Pos: kv.Pos()})
										}
									}
								}
							}
						}
					}
				}
			}
			return true
		})
	}
	return out
}

// fieldReads: every selector in fi's body resolving to a field of one of the named struct types that is
// not purely a write target: "Type.Field" → first position. (A field on the left of `=` is not a read;
// `x.f op= v`, x.f++ and method calls through the field are reads as well as writes.)
func fieldReads(fi *FuncInfo, structNames map[string]bool) map[string]token.Pos {
	out := map[string]token.Pos{}
	if fi.Decl.Body == nil {
		return out
	}
	info := fi.Pkg.TypesInfo
	pureWrites := map[*ast.SelectorExpr]bool{}
	ast.Inspect(fi.Decl.Body, func(n ast.Node) bool {
		if as, ok := n.(*ast.AssignStmt); ok && (as.Tok == token.ASSIGN || as.Tok == token.DEFINE) {
			for _, l := range as.Lhs {
				if sel, ok := ast.Unparen(l).(*ast.SelectorExpr); ok {
					pureWrites[sel] = true
				}
			}
		}
		return true
	})
	ast.Inspect(fi.Decl.Body, func(n ast.Node) bool {
		sel, ok := n.(*ast.SelectorExpr)
		if !ok || pureWrites[sel] {
			return true
		}
		k := fieldKey(info, sel)
		if k == "" {
			return true
		}
		if i := strings.IndexByte(k, '.'); i > 0 && structNames[k[:i]] {
			if _, seen := out[k]; !seen {
				out[k] = sel.Pos()
			}
		}
		return true
	})
	return out
}

// structFieldNames lists the fields of a named struct type of the package ("Type.Field"), expanding
// embedded structs of the same package into their own "Embedded.Field" names.
func structFieldNames(pkg *types.Package, name string) []string {
	obj := pkg.Scope().Lookup(name)
	if obj == nil {
		return nil
	}
	st, ok := obj.Type().Underlying().(*types.Struct)
	if !ok {
		return nil
	}
	var out []string
	for i := 0; i < st.NumFields(); i++ {
		f := st.Field(i)
		if f.Embedded() {
			if n, ok := f.Type().(*types.Named); ok && n.Obj().Pkg() == pkg {
				out = append(out, structFieldNames(pkg, n.Obj().Name())...)
				continue
			}
		}
		out = append(out, name+"."+f.Name())
	}
	return out
}
