package main

import (
	"fmt"
	"go/ast"
	"go/constant"
	"go/types"
	"strings"

	"golang.org/x/tools/go/packages"
	"golang.org/x/tools/go/types/typeutil"
)

func init() { register("C17", checkC17) }

type metaItem struct {
	Name       string
	Tag        string
	HaTL1      bool
	HaTL2      bool
	Annot      string
	IsFunction bool
	Pos        string
}

type factoryReg struct {
	Name string
	Kind string // Object | Function | EnumElement | ObjectBytes | FunctionBytes
	Type *types.Named
	Pos  string
}

func litFields(info *types.Info, cl *ast.CompositeLit) map[string]constant.Value {
	out := map[string]constant.Value{}
	for _, el := range cl.Elts {
		kv, ok := el.(*ast.KeyValueExpr)
		if !ok {
			continue
		}
		id, ok := kv.Key.(*ast.Ident)
		if !ok {
			continue
		}
		if tv, ok := info.Types[kv.Value]; ok && tv.Value != nil {
			out[id.Name] = tv.Value
		}
	}
	return out
}

func collectMeta(co *Corpus) (items []metaItem, regs []factoryReg, problems []string) {
	for _, p := range co.Pkgs {
		if !isMetaPkg(p.Name) {
			continue
		}
		collectMetaPkg(co, p, &items, &regs, &problems)
	}
	return
}

func collectMetaPkg(co *Corpus, p *packages.Package, items *[]metaItem, regs *[]factoryReg, problems *[]string) {
	for _, f := range p.Syntax {
		ast.Inspect(f, func(n ast.Node) bool {
			call, ok := n.(*ast.CallExpr)
			if !ok {
				return true
			}
			fn := typeutil.StaticCallee(p.TypesInfo, call)
			if fn == nil || fn.Pkg() == nil || fn.Pkg().Name() != "metainternal" {
				return true
			}
			switch fn.Name() {
			case "FillObject", "FillFunction":
				if len(call.Args) != 1 {
					return true
				}
				arg := ast.Unparen(call.Args[0])
				if u, ok := arg.(*ast.UnaryExpr); ok {
					arg = u.X
				}
				cl, ok := arg.(*ast.CompositeLit)
				if !ok {
					return true // the generic helper inside metainternal itself
				}
				fs := litFields(p.TypesInfo, cl)
				it := metaItem{IsFunction: fn.Name() == "FillFunction", Pos: posStr(co.Fset, call.Pos())}
				if v, ok := fs["Name"]; ok {
					it.Name = constant.StringVal(v)
				} else {
					*problems = append(*problems, "meta item without constant Name at "+it.Pos)
				}
				if v, ok := fs["Tag"]; ok {
					it.Tag = constStr(v)
				} else {
					it.Tag = "#0"
				}
				if v, ok := fs["HaTL1"]; ok {
					it.HaTL1 = constant.BoolVal(v)
				}
				if v, ok := fs["HaTL2"]; ok {
					it.HaTL2 = constant.BoolVal(v)
				}
				if v, ok := fs["Annotations"]; ok {
					it.Annot = constStr(v)
				}
				*items = append(*items, it)
			case "SetGlobalFactoryCreateForObject", "SetGlobalFactoryCreateForFunction", "SetGlobalFactoryCreateForEnumElement",
				"SetGlobalFactoryCreateForObjectBytes", "SetGlobalFactoryCreateForFunctionBytes":
				if len(call.Args) < 1 {
					return true
				}
				tv, ok := p.TypesInfo.Types[call.Args[0]]
				if !ok || tv.Value == nil {
					return true // the definitions themselves
				}
				r := factoryReg{Name: constant.StringVal(tv.Value), Kind: strings.TrimPrefix(fn.Name(), "SetGlobalFactoryCreateFor"), Pos: posStr(co.Fset, call.Pos())}
				if len(call.Args) >= 2 {
					if fl, ok := ast.Unparen(call.Args[1]).(*ast.FuncLit); ok && len(fl.Body.List) == 1 {
						if ret, ok := fl.Body.List[0].(*ast.ReturnStmt); ok && len(ret.Results) == 1 {
							if t := p.TypesInfo.TypeOf(ret.Results[0]); t != nil {
								r.Type = namedOf(t)
							}
						}
					}
					if r.Type == nil {
						*problems = append(*problems, "factory registration with unrecognised constructor at "+r.Pos)
					}
				}
				*regs = append(*regs, r)
			}
			return true
		})
	}
}

// methodOf finds the declared method of a named type inside the corpus.
func (g *genCtx) methodOf(n *types.Named, name string) *FuncInfo {
	for i := 0; i < n.NumMethods(); i++ {
		if m := n.Method(i); m.Name() == name {
			return g.funcs[m]
		}
	}
	return nil
}

func isStubWire(l []W) bool {
	ops := realOps(l)
	return len(ops) == 1 && isFail(ops[0])
}

func checkC17(c *Check) {
	c.Level = "translation_validation"
	c.Explanation = "Tables cross-checked by constant evaluation over every corpus: each meta registration literal TLItemImpl{Name,Tag,HaTL1,HaTL2} ↔ the factory registration of the same name ↔ the Go type it constructs: TLName()/TLTag() constants equal the registered name/tag, the tag written first by WriteTL1Boxed equals the registered tag, function-ness (FillFunction / factory ForFunction) ⇔ the type has result transcoders, HaTL1/HaTL2 ⇔ the type's TL1/TL2 readers are real rather than 'not generated' stubs; names and non-zero tags are pairwise distinct; every meta item has a factory constructor and vice versa."
	c.NotCovered = "agreement with the schema beyond names, explicit tags, annotations and function-ness, which are compared against an independent scan of the TL1 schema text (TL2 schema files are not scanned)"
	c.Trusted = []string{"go/types constant folding"}
	programs := 0
	withCorpora(c, true, func(g *genCtx) {
		items, regs, problems := collectMeta(g.co)
		cn := g.co.Spec.Name
		for _, p := range problems {
			c.Undecided("registry", cn, "", p)
		}
		if len(items) == 0 {
			c.Undecided("registry", cn, "", "no meta registrations found")
			return
		}
		programs++
		byName := map[string]*metaItem{}
		byTag := map[string]*metaItem{}
		for i := range items {
			it := &items[i]
			_, dup := byName[it.Name]
			c.Ob("registry-name-unique", cn+":"+it.Name, !dup, it.Pos, "name registered once")
			byName[it.Name] = it
			if it.Tag != "#0" {
				prev, dup := byTag[it.Tag]
				d := "tag " + it.Tag
				if dup {
					d += " also used by " + prev.Name
				}
				c.Ob("registry-tag-unique", cn+":"+it.Name, !dup, it.Pos, d)
				byTag[it.Tag] = it
			}
		}
		registered := map[string]bool{}
		for _, r := range regs {
			it := byName[r.Name]
			key := cn + ":" + r.Name + "/" + r.Kind
			c.Ob("factory-has-meta", key, it != nil, r.Pos, "factory registration refers to a registered meta item")
			if it == nil {
				continue
			}
			if !strings.HasSuffix(r.Kind, "Bytes") {
				registered[r.Name] = true
			}
			isFn := strings.HasPrefix(r.Kind, "Function")
			c.Ob("registry-functionness", key, isFn == it.IsFunction, r.Pos, fmt.Sprintf("factory kind %s, meta function=%v", r.Kind, it.IsFunction))
			if r.Type == nil {
				continue
			}
			// Go type constants
			if m := g.methodOf(r.Type, "TLName"); m != nil {
				if v, ok := g.constReturn(m); ok {
					c.Ob("registry-type-name", key, v == fmt.Sprintf("%q", it.Name), r.Pos, fmt.Sprintf("%s.TLName() = %s, registered %q", r.Type.Obj().Name(), v, it.Name))
				}
			}
			if m := g.methodOf(r.Type, "TLTag"); m != nil {
				if v, ok := g.constReturn(m); ok {
					c.Ob("registry-type-tag", key, v == it.Tag, r.Pos, fmt.Sprintf("%s.TLTag() = %s, registered %s", r.Type.Obj().Name(), v, it.Tag))
				}
			}
			hasResult := g.methodOf(r.Type, "ReadResultTL1") != nil || g.methodOf(r.Type, "ReadResultTL2") != nil || g.methodOf(r.Type, "ReadResultJSON") != nil
			c.Ob("registry-function-has-result-codecs", key, hasResult == it.IsFunction, r.Pos, fmt.Sprintf("type has result transcoders=%v, meta function=%v", hasResult, it.IsFunction))
			if m := g.methodOf(r.Type, "ReadTL1"); m != nil {
				w, _ := g.wire(m, tl1ReadCfg, "r")
				real := !isStubWire(w)
				// a bare reader that only delegates to a stub boxed reader is a stub too
				if real && len(realOps(w)) == 1 {
					if cl, ok := realOps(w)[0].(*WCall); ok && cl.Role == "TL1Boxed" {
						if mb := g.methodOf(r.Type, "ReadTL1Boxed"); mb != nil {
							wb, _ := g.wire(mb, tl1ReadCfg, "r")
							real = !isStubWire(wb)
						}
					}
				}
				c.Ob("registry-hasTL1", key, real == it.HaTL1, r.Pos, fmt.Sprintf("TL1 reader real=%v, HaTL1=%v", real, it.HaTL1))
			}
			if m := g.methodOf(r.Type, "ReadTL2"); m != nil {
				real := !g.isNotGeneratedStub(m)
				c.Ob("registry-hasTL2", key, real == it.HaTL2, r.Pos, fmt.Sprintf("TL2 reader real=%v, HaTL2=%v", real, it.HaTL2))
			}
			if m := g.methodOf(r.Type, "WriteTL1Boxed"); m != nil && it.Tag != "#0" && it.HaTL1 {
				w, _ := g.wire(m, tl1WriteCfg, "w")
				p := firstPrim(w)
				ok := p != nil && p.Kind == "tag" && p.Consts[0] == it.Tag
				d := "boxed writer starts with the registered tag " + it.Tag
				if p != nil && p.Kind == "tag" {
					d = fmt.Sprintf("boxed writer starts with %s, registered %s", p.Consts[0], it.Tag)
				}
				c.Ob("registry-boxed-starts-with-tag", key, ok, r.Pos, d)
			}
		}
		for i := range items {
			it := &items[i]
			c.Ob("meta-has-factory", cn+":"+it.Name, registered[it.Name], it.Pos, "every registered item has a factory constructor")
		}
		g.registryVsSchemaText(c, cn, byName)
		// the registry's three views (ordered list, by name, by tag) describe the same items: the generated Fill*
		// functions store an item into all of them together, after the "already registered" test (in the per-namespace
		// layout every item is registered twice; a by-tag store before that test would point at an item that is in
		// neither of the other views and has no constructor)
		for fn, fi := range g.funcs {
			if fi.Pkg.Name != "metainternal" || fi.Decl.Body == nil || (fn.Name() != "FillObject" && fn.Name() != "FillFunction") {
				continue
			}
			ir := g.ir(fi)
			guard, byName2, byTag, ordered := -1, -1, -1, -1
			for i, n := range ir.Body {
				switch n := n.(type) {
				case *IfN:
					if len(returnsOf(n.Then)) == 1 && len(n.Then) == 1 && guard < 0 {
						guard = i
					}
					walkBlock(n.Then, nil, func(m Node, _ []Guard) {
						if as, ok := m.(*AssignN); ok && len(as.LHS) == 1 && strings.HasPrefix(as.LHS[0], "G:ItemsByTag[") && as.RHS[0] == "val" {
							byTag = i
						}
					})
				case *AssignN:
					if len(n.LHS) == 1 && len(n.RHS) == 1 && n.RHS[0] == "val" {
						if strings.HasPrefix(n.LHS[0], "G:ItemsByName[") {
							byName2 = i
						}
						if strings.HasPrefix(n.LHS[0], "G:ItemsByTag[") {
							byTag = i
						}
					}
				case *CallN:
					if n.Builtin == "append" && len(n.Results) == 1 && n.Results[0] == "G:ItemsOrdered" {
						ordered = i
					}
				}
			}
			ok := guard >= 0 && byName2 > guard && byTag > guard && ordered > guard
			c.Ob("registry-views-filled-together", cn+":"+fn.Name(), ok, posStr(g.co.Fset, fi.Decl.Pos()), fmt.Sprintf("already-registered test at statement %d; stores into ItemsOrdered %d, ItemsByName %d, ItemsByTag %d (all must follow the test)", guard, ordered, byName2, byTag))
		}
	})
	c.Set("programs", programs)
	c.Floor("registry-name-unique", 300)
	c.Floor("registry-tag-unique", 250)
	c.Floor("registry-type-tag", 200)
	c.Floor("registry-type-name", 200)
	c.Floor("registry-hasTL1", 200)
	c.Floor("registry-hasTL2", 200)
	c.Floor("registry-boxed-starts-with-tag", 150)
	c.Floor("registry-functionness", 300)
	c.Floor("registry-lists-every-tl2-declaration", 40)
	c.Floor("registry-views-filled-together", 10)
	c.Floor("registry-annotations", 150)
	c.Floor("registry-function-vs-schema", 150)
	c.Floor("registry-explicit-tag-verbatim", 30)
}

// isNotGeneratedStub: the function returns an error unconditionally without touching input
// (directly or through one level of delegation to a sibling that does).
func (g *genCtx) isNotGeneratedStub(fi *FuncInfo) bool {
	return g.stubDepth(fi, 0)
}

func (g *genCtx) stubDepth(fi *FuncInfo, depth int) bool {
	ir := g.ir(fi)
	var real []Node
	for _, n := range ir.Body {
		switch n.(type) {
		case *DeclN:
			continue
		}
		real = append(real, n)
	}
	if len(real) == 1 {
		if r, ok := real[0].(*ReturnN); ok && len(r.VE) >= 1 {
			last := r.VE[len(r.VE)-1]
			if t := ir.x.typeOf(last); t != nil && isErrorType(t) && r.Vals[len(r.Vals)-1] != "nil" {
				return true
			}
		}
	}
	if len(real) == 2 && depth < 2 {
		if call, ok := real[0].(*CallN); ok && call.Tail && call.Fn != nil {
			if callee := g.funcs[call.Fn]; callee != nil {
				return g.stubDepth(callee, depth+1)
			}
		}
	}
	return false
}

// annotationBits reads the bit of every `Annotation<Name>()` accessor of metainternal.TLItemImpl.
func (g *genCtx) annotationBits() map[string]uint64 {
	out := map[string]uint64{}
	for fn, fi := range g.funcs {
		if fi.Pkg.Name != "metainternal" || !strings.HasPrefix(fn.Name(), "Annotation") || len(fi.Decl.Body.List) != 1 {
			continue
		}
		ret, ok := fi.Decl.Body.List[0].(*ast.ReturnStmt)
		if !ok || len(ret.Results) != 1 {
			continue
		}
		ir := g.ir(fi)
		cd := ir.x.cond(ret.Results[0])
		if cd.Kind == "bit" && !cd.Neg && strings.HasSuffix(cd.X, ".Annotations") {
			out[strings.ToLower(strings.TrimPrefix(fn.Name(), "Annotation"))] = 1 << uint(cd.Bit)
		}
	}
	return out
}

// registryVsSchemaText compares the registry with an independent scan of the TL1 schema files of the
// corpus: annotation flags, explicit tags (used verbatim) and function-ness per combinator name.
func (g *genCtx) registryVsSchemaText(c *Check, cn string, byName map[string]*metaItem) {
	if g.co.InRepo {
		return
	}
	bits := g.annotationBits()
	// TL2 files: every declaration without type parameters (struct, union, enum, alias-free type, function) is a registry
	// item — a declaration the registry does not list cannot be created or looked up by name or tag
	for _, sch := range g.co.Spec.Schemas {
		if !strings.HasSuffix(sch, ".tl2") {
			continue
		}
		path := sch
		if !strings.HasPrefix(path, "/") {
			path = repoDir + "/" + sch
		}
		decls, err := scanTL2(path)
		if err != nil {
			c.Undecided("registry-vs-schema", cn, path, err.Error())
			continue
		}
		for _, d := range decls {
			if d.HasTemplate || d.IsAlias {
				continue
			}
			it := byName[d.Name]
			c.Ob("registry-lists-every-tl2-declaration", cn+":"+d.Name, it != nil, relPos(path), fmt.Sprintf("%s declares %s (function=%v); registered=%v", d.File, d.Name, d.IsFunction, it != nil))
			if it != nil {
				c.Ob("registry-function-vs-schema", cn+":"+d.Name, d.IsFunction == it.IsFunction, it.Pos, fmt.Sprintf("schema function=%v registry function=%v", d.IsFunction, it.IsFunction))
			}
		}
	}
	for _, sch := range g.co.Spec.Schemas {
		if !strings.HasSuffix(sch, ".tl") {
			continue
		}
		path := sch
		if !strings.HasPrefix(path, "/") {
			path = repoDir + "/" + sch
		}
		decls, err := scanTL1(path)
		if err != nil {
			c.Undecided("registry-vs-schema", cn, path, err.Error())
			continue
		}
		for _, d := range decls {
			it := byName[d.Name]
			if it == nil {
				continue // builtin, template or inlined wrapper: not a registry item
			}
			key := cn + ":" + d.Name
			var want uint64
			unknown := ""
			for _, a := range d.Annotations {
				b, ok := bits[strings.ToLower(a)]
				if !ok {
					unknown = a
				}
				want |= b
			}
			if unknown != "" {
				c.Undecided("registry-annotations", key, it.Pos, "schema annotation @"+unknown+" has no accessor in the generated registry")
				continue
			}
			got := it.Annot
			if got == "" {
				got = "#0"
			}
			c.Ob("registry-annotations", key, got == fmt.Sprintf("#%d", want), it.Pos, fmt.Sprintf("schema %s has annotations %v (mask %d); registry literal has %s", d.File, d.Annotations, want, got))
			c.Ob("registry-function-vs-schema", key, d.IsFunction == it.IsFunction, it.Pos, fmt.Sprintf("schema function=%v registry function=%v", d.IsFunction, it.IsFunction))
			if d.Tag != "" {
				var tv uint64
				fmt.Sscanf(d.Tag, "%x", &tv)
				c.Ob("registry-explicit-tag-verbatim", key, it.Tag == fmt.Sprintf("#%d", tv), it.Pos, fmt.Sprintf("schema tag #%s, registry %s", d.Tag, it.Tag))
			}
		}
	}
}
