package main

import (
	"fmt"
	"go/ast"
	"go/types"
	"strings"
)

func init() { register("C02", checkC02) }

// constReturn returns the constant a niladic method/function returns on its single `return C`.
func (g *genCtx) constReturn(fi *FuncInfo) (string, bool) {
	if fi == nil || len(fi.Decl.Body.List) != 1 {
		return "", false
	}
	ret, ok := fi.Decl.Body.List[0].(*ast.ReturnStmt)
	if !ok || len(ret.Results) != 1 {
		return "", false
	}
	tv, ok := fi.Pkg.TypesInfo.Types[ret.Results[0]]
	if !ok || tv.Value == nil {
		return "", false
	}
	return constStr(tv.Value), true
}

// firstOps flattens leading wire ops (descending into nothing).
func firstPrim(l []W) *WPrim {
	for _, w := range l {
		switch w := w.(type) {
		case *WFact:
			continue
		case *WPrim:
			return w
		default:
			return nil
		}
	}
	return nil
}

func findUnions(l []W, f func(u *WUnion)) {
	for _, w := range l {
		switch w := w.(type) {
		case *WUnion:
			f(w)
			for _, k := range sortedKeys(w.Arms) {
				findUnions(w.Arms[k], f)
			}
		case *WIf:
			findUnions(w.Then, f)
			findUnions(w.Else, f)
		case *WLoop:
			findUnions(w.Body, f)
		case *WCounted:
			findUnions(w.Body, f)
		}
	}
}

func findPrims(l []W, f func(p *WPrim)) {
	for _, w := range l {
		switch w := w.(type) {
		case *WPrim:
			f(w)
		case *WUnion:
			for _, k := range sortedKeys(w.Arms) {
				findPrims(w.Arms[k], f)
			}
		case *WSwitch:
			for _, k := range sortedKeys(w.Arms) {
				findPrims(w.Arms[k], f)
			}
		case *WIf:
			findPrims(w.Then, f)
			findPrims(w.Else, f)
		case *WLoop:
			findPrims(w.Body, f)
		case *WCounted:
			findPrims(w.Body, f)
		}
	}
}

// bufferDiscipline: the input buffer of a reader is only passed to calls, returned, or reassigned from
// call results — never indexed or sliced by the generated code itself.
func (g *genCtx) bufferDiscipline(fi *FuncInfo) (bad []string) {
	sig := fi.Obj.Type().(*types.Signature)
	var bufs []*types.Var
	for i := 0; i < sig.Params().Len(); i++ {
		v := sig.Params().At(i)
		if isByteSlice(v.Type()) {
			bufs = append(bufs, v)
		}
	}
	if len(bufs) == 0 {
		return nil
	}
	info := fi.Pkg.TypesInfo
	isBuf := func(e ast.Expr) bool {
		id, ok := ast.Unparen(e).(*ast.Ident)
		if !ok {
			return false
		}
		for _, b := range bufs {
			if info.ObjectOf(id) == b {
				return true
			}
		}
		return false
	}
	ast.Inspect(fi.Decl.Body, func(n ast.Node) bool {
		switch n := n.(type) {
		case *ast.IndexExpr:
			if isBuf(n.X) {
				bad = append(bad, "index of input buffer at "+posStr(g.co.Fset, n.Pos()))
			}
		case *ast.SliceExpr:
			if isBuf(n.X) {
				bad = append(bad, "slice of input buffer at "+posStr(g.co.Fset, n.Pos()))
			}
		}
		return true
	})
	return bad
}

func checkC02(c *Check) {
	c.Explanation = "Structural content of 'an accepted TL1 prefix is re-written identically': (a) every union/enum boxed reader is a tag switch whose default arm fails and whose tags are pairwise distinct and equal to the variants' TLTag constants; every boxed struct reader starts with NatReadExactTag of the type's own TLTag constant; Bool readers use two distinct constants; (b) generated TL1 readers consume input only through basictl primitives or sibling readers (no raw index/slice of the buffer); (c) basictl.StringRead/StringReadBytes reject non-minimal length forms and non-zero padding and ReadBool rejects other tags (decision tables shared with C33); (d) writers over map-backed dictionaries collect keys, sort them, then emit. Together with C01 duality."
	c.NotCovered = "a joint proof that the primitive set is prefix-canonical for all byte strings (C33 tables plus duality, not an executed round trip)"
	c.Trusted = []string{"go/types", "C01 duality", "sort.Slice / slices.Sort semantics"}
	withCorpora(c, true, func(g *genCtx) {
		for _, fam := range g.families() {
			roles := g.byFam[fam]
			name := g.co.Spec.Name + ":" + shortFam(fam)
			if r := roles["ReadTL1Boxed"]; r != nil {
				rw, rb := g.wire(r, tl1ReadCfg, "r")
				for _, pr := range rb.problems {
					c.Undecided("tl1-boxed-reader", name, posStr(g.co.Fset, r.Decl.Pos()), pr)
				}
				isUnion := false
				findUnions(rw, func(u *WUnion) {
					isUnion = true
					c.Ob("tl1-union-default-fails", name, u.DefaultFail, posStr(g.co.Fset, u.Pos), "unknown constructor tag must be rejected in the default arm")
					seen := map[string]string{}
					dup := ""
					for _, k := range sortedKeys(u.Tags) {
						if p, ok := seen[u.Tags[k]]; ok {
							dup = fmt.Sprintf("variants %s and %s share tag %s", p, k, u.Tags[k])
						}
						seen[u.Tags[k]] = k
					}
					c.Ob("tl1-union-tags-distinct", name, dup == "", posStr(g.co.Fset, u.Pos), fmt.Sprintf("%d variants %s", len(u.Tags), dup))
				})
				if !isUnion {
					// struct-like: first wire op must be the exact-tag read of the type's own tag,
					// unless the reader is a stub (fail) or delegates to another boxed reader.
					tagC, hasTag := g.constReturn(roles["TLTag"])
					p := firstPrim(rw)
					if len(realOps(rw)) == 1 && isFail(realOps(rw)[0]) {
						// TL1 not generated for this type
					} else if p != nil && p.Kind == "tag" && hasTag {
						c.Ob("tl1-boxed-exact-tag", name, p.Consts[0] == tagC, posStr(g.co.Fset, r.Decl.Pos()), fmt.Sprintf("reader requires %s, TLTag() is %s", p.Consts[0], tagC))
					} else if p != nil && p.Kind == "booltag" {
						c.Ob("tl1-bool-tags-distinct", name, p.Consts[0] != p.Consts[1], posStr(g.co.Fset, r.Decl.Pos()), strings.Join(p.Consts, ","))
					} else if len(realOps(rw)) >= 1 {
						if cl, ok := realOps(rw)[0].(*WCall); ok && (cl.Role == "TL1Boxed" || cl.Role == "TL1") {
							c.Ob("tl1-boxed-delegates", name, true, posStr(g.co.Fset, r.Decl.Pos()), "delegates to "+cl.Family)
						} else {
							c.Undecided("tl1-boxed-reader", name, posStr(g.co.Fset, r.Decl.Pos()), "boxed reader does not start with an exact tag read:\n"+wString(rw))
						}
					} else {
						c.Undecided("tl1-boxed-reader", name, posStr(g.co.Fset, r.Decl.Pos()), "boxed reader has no wire effect")
					}
				}
				// every ReadBool anywhere has distinct constants
				findPrims(rw, func(p *WPrim) {
					if p.Kind == "booltag" {
						c.Ob("tl1-bool-tags-distinct", name+"/"+p.Operand, p.Consts[0] != p.Consts[1], posStr(g.co.Fset, p.Pos), strings.Join(p.Consts, ","))
					}
				})
			}
			for _, role := range []string{"ReadTL1", "ReadTL1Boxed", "ReadResultTL1"} {
				if r := roles[role]; r != nil {
					// every word taken from the input is stored or constrained; every basictl call is a known primitive
					rw, _ := g.wire(r, tl1ReadCfg, "r")
					findPrims(rw, func(p *WPrim) {
						if p.Operand == "_" {
							c.Ob("tl1-reader-discards-word", name+"."+role, false, posStr(g.co.Fset, p.Pos), "a "+p.Kind+" word is consumed and thrown away (any value accepted, writer cannot reproduce it)")
						}
					})
					walkBlock(g.ir(r).Body, nil, func(n Node, _ []Guard) {
						call, ok := n.(*CallN)
						if !ok || call.Fn == nil || !isBasictl(call.Fn.Pkg()) || call.Fn.Type().(*types.Signature).Recv() != nil {
							return
						}
						_, known := tl1Prims[call.Fn.Name()]
						known = known || call.Fn.Name() == "CheckLengthSanity" || call.Fn.Name() == "TL2Error"
						c.Ob("tl1-reader-known-primitives", name+"."+role+"/"+call.Fn.Name(), known, posStr(g.co.Fset, call.Pos), "basictl."+call.Fn.Name()+" is in the checker's TL1 primitive table")
					})
					bad := g.bufferDiscipline(r)
					c.Ob("tl1-reader-buffer-discipline", name+"."+role, len(bad) == 0, posStr(g.co.Fset, r.Decl.Pos()), strings.Join(bad, "; "))
				}
			}
			for _, role := range []string{"WriteTL1", "WriteTL1Boxed", "InternalWriteTL2", "CalculateLayout", "WriteJSONOpt"} {
				if w := roles[role]; w != nil {
					g.sortedMapEmission(c, w, name+"."+role)
				}
			}
		}
	})
	checkBasictlCanonicalReaders(c)
	c.Floor("tl1-union-default-fails", 20)
	c.Floor("tl1-union-tags-distinct", 20)
	c.Floor("tl1-boxed-exact-tag", 200)
	c.Floor("tl1-bool-tags-distinct", 10)
	c.Floor("tl1-reader-buffer-discipline", 500)
	c.Floor("map-writer-sorted", 10)
}

// sortedMapEmission: a writer that ranges over a map must only collect keys in that loop, sort the
// collected slice, and emit from the sorted slice.
func (g *genCtx) sortedMapEmission(c *Check, fi *FuncInfo, construct string) {
	ir := g.ir(fi)
	var check func(blk Block)
	check = func(blk Block) {
		for i, n := range blk {
			switch n := n.(type) {
			case *IfN:
				check(n.Then)
				check(n.Else)
			case *SwitchN:
				for _, cs := range n.Cases {
					check(cs.Body)
				}
			case *LoopN:
				rs, ok := n.Stmt.(*ast.RangeStmt)
				if !ok {
					check(n.Body)
					continue
				}
				t := ir.x.typeOf(rs.X)
				if t == nil {
					continue
				}
				if p, ok := t.Underlying().(*types.Pointer); ok {
					t = p.Elem()
				}
				if _, isMap := t.Underlying().(*types.Map); !isMap {
					check(n.Body)
					continue
				}
				// body must be exactly `keys = append(keys, k)`
				keys := ""
				okBody := len(n.Body) == 1
				if okBody {
					call, isCall := n.Body[0].(*CallN)
					okBody = isCall && call.Builtin == "append" && len(call.Results) == 1 && len(call.Args) == 2 && call.Results[0] == call.Args[0] && strings.HasPrefix(call.Args[1], "key(")
					if okBody {
						keys = call.Args[0]
					}
				}
				if !okBody {
					c.Ob("map-writer-sorted", construct, false, posStr(g.co.Fset, n.Pos), "writer iterates a map and does more than collecting keys (map order would reach the output)")
					continue
				}
				// after the loop: a sort of keys must precede the first loop over keys
				sorted, emitted, order := false, false, true
				for _, m := range blk[i+1:] {
					switch m := m.(type) {
					case *CallN:
						if m.Fn != nil && m.Fn.Pkg() != nil && (m.Fn.Pkg().Path() == "sort" || m.Fn.Pkg().Path() == "slices") && len(m.Args) >= 1 && m.Args[0] == keys {
							if !emitted {
								sorted = true
							}
						}
					case *LoopN:
						if m.Over == keys {
							if !sorted {
								order = false
							}
							emitted = true
						}
					}
				}
				c.Ob("map-writer-sorted", construct, sorted && emitted && order, posStr(g.co.Fset, n.Pos), fmt.Sprintf("keys collected into %s, sorted=%v before emission loop=%v", keys, sorted, emitted))
			}
		}
	}
	check(ir.Body)
}
