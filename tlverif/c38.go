package main

import (
	"fmt"
	"go/ast"
	"go/token"
	"go/types"
	"regexp"
	"sort"
	"strings"
)

func init() { register("C38", checkC38) }

// lockException: accesses outside the lock that were read and found legitimate, keyed "Func/field".
var c38LockExceptions = map[string]string{}

func checkC38(c *Check) {
	c.Explanation = "RPC call/response matching, decided on pkg/rpc as structural clauses: (1) lockset — the client connection's call table and queues (calls, writeQ, inFlight, isShutdown, writeClientWantsFin, writeBuiltin, conn, waitingToReconnect, closeCC) and the server connection's (inFlight, writeQ, writeBuiltin, writeLetsFin, longpolls, connectionStatus) are accessed only with the connection mutex held, in methods and in every other function holding a variable of the type (…Locked helpers are verified to be called only under the lock): the data-race clause; (2) own response — a call is registered under its own query id (calls[cctx.queryID] = cctx, cctx.queryID = req.queryID, ids from an atomic counter), a response packet is dispatched by the query id decoded from its header, finishCall looks up, deletes and delivers the same entry; (3) no lost call — every delete from the call table is followed on every path by delivering that entry to its result channel, appending it to the callbacks to run, or returning it to the caller; (4) close — massCancelRequestsLocked re-queues a pending call only when the connection is not closed (closeCC != nil), is run under closeCC == nil by goConnect, and Close() closes every connection; (5) who-may-write of HandlerContext.queryID and Response.queryID."
	c.NotCovered = "the Go scheduler, network behaviour, the race detector's dynamic judgement; server-side handler/worker logic (C39); UDP transport (C36)"
	c.Trusted = []string{"go/types", "sync.Mutex/sync.Cond, sync/atomic"}
	co, err := loadRepoCorpus("./pkg/rpc")
	if err != nil {
		c.Undecided("load", "pkg/rpc", "", err.Error())
		return
	}
	r := &repoCtx{c: c, co: co, funcs: map[string]*FuncInfo{}}
	for _, fi := range co.allFuncs() {
		r.funcs[strings.TrimPrefix(fi.Pkg.PkgPath, "github.com/VKCOM/tl/")+"."+fi.Name()] = fi
	}
	P := "pkg/rpc."
	// ---- (1) locksets
	type lsSpec struct {
		typ     string
		guarded []string
		floor   int
	}
	for _, sp := range []lsSpec{
		{"clientConn", []string{"calls", "writeQ", "inFlight", "isShutdown", "writeClientWantsFin", "writeBuiltin", "conn", "waitingToReconnect", "closeCC"}, 60},
		{"serverConnTCP", []string{"inFlight", "writeQ", "writeBuiltin", "writeLetsFin", "longpolls", "connectionStatus"}, 20},
		{"serverConnCommon", []string{"longpolls", "connectionStatus"}, 5},
	} {
		g := map[string]bool{}
		for _, f := range sp.guarded {
			g[f] = true
		}
		acc, helpers, problems, nm := locksetForType(r, "pkg/rpc", sp.typ, "mu", g)
		for _, p := range problems {
			c.Undecided("calls/lockset", sp.typ+": "+p, "", p)
		}
		c.Info("%s: %d methods; helpers running under the caller's lock: %v", sp.typ, nm, keysOf(helpers))
		rule := "calls/lockset/" + sp.typ
		for _, a := range acc {
			key := a.Func + "/" + a.Field
			if why, ok := c38LockExceptions[sp.typ+":"+key]; ok && !a.Held {
				c.Info("%s: %s accessed without mu at %s — %s", sp.typ, key, r.pos(a.Pos), why)
				continue
			}
			c.Ob(rule, key, a.Held, r.pos(a.Pos), fmt.Sprintf("access to %s.%s with mu held=%v (write=%v)", sp.typ, a.Field, a.Held, a.Write))
		}
		c.Floor(rule, sp.floor)
	}
	// ---- (2) own response
	if ir := r.ir(P + "clientConn.setupCallLocked"); ir != nil {
		txt := irText(ir)
		c.Ob("calls/registered-under-own-id", "clientConn.setupCallLocked", strings.Contains(txt, "assign item.calls[val2.queryID] = val2\n") && strings.Contains(txt, "lit:writeReqCancel{req:val,queryID:val.queryID}"), r.pos(ir.Info.Decl.Pos()), "calls[cctx.queryID] = cctx and the queued request carries req.queryID")
	}
	if ir := r.ir(P + "ClientImpl.getResponse"); ir != nil {
		txt := irText(ir)
		c.Ob("calls/registered-under-own-id", "ClientImpl.getResponse", regexp.MustCompile(`call Request\.QueryID recv=val\(\) -> \[\$\.queryID\]|assign \$\.queryID = val\.QueryID\(\)`).MatchString(txt) && strings.Contains(txt, "assign $.req = val\n"), r.pos(ir.Info.Decl.Pos()), "the Response created for a Request takes that Request's query id")
	}
	if ir := r.ir(P + "ClientImpl.GetRequest"); ir != nil {
		txt := irText(ir)
		c.Ob("calls/ids-from-atomic-counter", "ClientImpl.GetRequest", strings.Contains(txt, "item.lastQueryID.Add(#1)"), r.pos(ir.Info.Decl.Pos()), "query ids come from lastQueryID.Add(1) (atomic), zero skipped")
	}
	if ir := r.ir(P + "clientConn.handlePacket"); ir != nil {
		n := 0
		walkBlock(ir.Body, nil, func(nd Node, _ []Guard) {
			cn, ok := nd.(*CallN)
			if !ok || cn.Fn == nil || cn.Fn.Name() != "finishCall" || len(cn.Args) < 1 {
				return
			}
			n++
			// the id must be <local>.QueryId where <local> was filled by ReadTL1 from the packet body
			arg := cn.Args[0]
			m := regexp.MustCompile(`^(L\d+:\w+)\.QueryId$`).FindStringSubmatch(arg)
			ok2 := false
			if m != nil {
				walkBlock(ir.Body, nil, func(nd2 Node, _ []Guard) {
					if c2, ok := nd2.(*CallN); ok && c2.Fn != nil && c2.Fn.Name() == "ReadTL1" && c2.Recv == m[1] && len(c2.Args) == 1 && c2.Args[0] == "val3" {
						ok2 = true
					}
				})
			}
			c.Ob("calls/dispatch-by-decoded-id", "clientConn.handlePacket/"+arg, ok2, r.pos(cn.Pos), "finishCall is given the QueryId decoded from this packet's header")
		})
		c.Floor("calls/dispatch-by-decoded-id", 2)
	}
	if ir := r.ir(P + "clientConn.finishCall"); ir != nil {
		txt := irText(ir)
		look := strings.Contains(txt, "assign $,$ := item.calls[val]\n")
		del := strings.Contains(txt, "call delete recv=(item.calls, val)")
		sendSame := strings.Contains(txt, "other send $.result <- lit:callResult{resp:$,err:val5}") && strings.Contains(txt, "assign res1 = lit:callResult{resp:$,err:val5}")
		// all `$` above must be the same local: check on the raw text
		var sb strings.Builder
		dumpBlock(&sb, ir.Body, "")
		raw := sb.String()
		m := regexp.MustCompile(`assign (L\d+:\w+),L\d+:\w+ := item\.calls\[val\]`).FindStringSubmatch(raw)
		same := m != nil && strings.Contains(raw, "other send "+m[1]+".result <- lit:callResult{resp:"+m[1]+",err:val5}") && strings.Contains(raw, "assign res1 = lit:callResult{resp:"+m[1]+",err:val5}") && strings.Contains(raw, "assign "+m[1]+".Body = val3")
		c.Ob("calls/finish-delivers-looked-up-entry", "clientConn.finishCall", look && del && sendSame && same, r.pos(ir.Info.Decl.Pos()), fmt.Sprintf("lookup by the id parameter=%v, delete by the same id=%v, body and result go to the looked-up entry=%v", look, del, same))
	}
	// ---- (3) no lost call: every delete(item.calls, …) is followed by delivery/return of the entry
	for _, fn := range []string{"clientConn.finishCall", "clientConn.cancelCallImpl", "clientConn.massCancelRequestsLocked"} {
		ir := r.ir(P + fn)
		if ir == nil {
			continue
		}
		entries := map[string]bool{"item.calls[*]": true}
		{
			var sb strings.Builder
			dumpBlock(&sb, ir.Body, "")
			for _, m := range regexp.MustCompile(`assign (L\d+:\w+),L\d+:\w+ := item\.calls\[`).FindAllStringSubmatch(sb.String(), -1) {
				entries[m[1]] = true
			}
		}
		var visit func(blk Block, cont []Block)
		visit = func(blk Block, cont []Block) {
			for i, n := range blk {
				switch n := n.(type) {
				case *IfN:
					rest := append([]Block{blk[i+1:]}, cont...)
					visit(n.Then, rest)
					visit(n.Else, rest)
				case *LoopN:
					visit(n.Body, nil) // a loop iteration must deliver within the iteration
				case *SwitchN:
					for _, cs := range n.Cases {
						visit(cs.Body, append([]Block{blk[i+1:]}, cont...))
					}
				case *CallN:
					if n.Builtin == "delete" {
						if len(n.Args) >= 1 && n.Args[0] == "item.calls" {
							ok, why := deliversOnAllPaths(append([]Block{blk[i+1:]}, cont...), entries)
							c.Ob("calls/delete-then-deliver", fn, ok, r.pos(n.Pos), "after removing an entry from the call table every path delivers it (channel send, callbacks list, result variable or return value): "+why)
						}
					}
				}
			}
		}
		visit(ir.Body, nil)
	}
	c.Floor("calls/delete-then-deliver", 3)
	// ---- (3b) a cancelled call's reusable result channel is drained unconditionally
	for _, fn := range []string{"ClientImpl.doWait", "udpClient.doWait"} {
		ir := r.ir(P + fn)
		if ir == nil {
			continue
		}
		found := false
		walkBlock(ir.Body, nil, func(nd Node, _ []Guard) {
			sw, ok := nd.(*SwitchN)
			if !ok || sw.Tag != "select" || found {
				return
			}
			for _, cs := range sw.Cases {
				if len(cs.Vals) != 1 || !strings.HasSuffix(cs.Vals[0], ".Done()") {
					continue
				}
				found = true
				iCancel := topIndex(cs.Body, func(n Node) bool {
					cn, ok := n.(*CallN)
					return ok && cn.Fn != nil && cn.Fn.Name() == "cancelCall"
				})
				iDrain := topIndex(cs.Body, func(n Node) bool {
					in, ok := n.(*SwitchN)
					if !ok || in.Tag != "select" || len(in.Cases) != 2 {
						return false
					}
					recv, def := false, false
					for _, c2 := range in.Cases {
						if c2.Default && len(c2.Body) == 0 {
							def = true
						}
						if len(c2.Vals) == 1 && strings.HasPrefix(c2.Vals[0], "<-") && strings.HasSuffix(c2.Vals[0], ".singleResult") {
							recv = true
						}
					}
					return recv && def
				})
				iRet := topIndex(cs.Body, func(n Node) bool { _, ok := n.(*ReturnN); return ok })
				c.Ob("calls/result-channel-drained-after-cancel", fn, iCancel >= 0 && iDrain > iCancel && iRet > iDrain, r.pos(cs.Pos), fmt.Sprintf("on ctx.Done: cancelCall (stmt %d), then an unconditional non-blocking receive from singleResult (stmt %d), then return (stmt %d) — a result delivered concurrently with the cancellation must not stay in the pooled channel", iCancel, iDrain, iRet))
			}
		})
		if !found {
			c.Undecided("calls/result-channel-drained-after-cancel", fn, r.pos(ir.Info.Decl.Pos()), "no select arm on ctx.Done() found")
		}
	}
	// ---- (4) close
	if ir := r.ir(P + "clientConn.massCancelRequestsLocked"); ir != nil {
		n := 0
		walkBlock(ir.Body, nil, func(nd Node, gs []Guard) {
			b, ok := nd.(*BranchN)
			if !ok || b.Tok.String() != "continue" {
				return
			}
			n++
			okc := false
			for _, g := range gs {
				if g.Kind == "else" && strings.Contains(g.Text, "(item.closeCC != nil)") {
					okc = true
				}
			}
			c.Ob("calls/close-requeues-nothing", "clientConn.massCancelRequestsLocked/continue", okc, r.pos(b.Pos), "a pending call is kept for resending only under closeCC != nil: "+guardStr(gs))
		})
		c.Floor("calls/close-requeues-nothing", 1)
	}
	if ir := r.ir(P + "clientConn.goConnect"); ir != nil {
		found := false
		walkBlock(ir.Body, nil, func(nd Node, gs []Guard) {
			if cn, ok := nd.(*CallN); ok && cn.Fn != nil && cn.Fn.Name() == "massCancelRequestsLocked" {
				for _, g := range gs {
					if g.Kind == "if" && strings.Contains(g.Text, "!(item.closeCC != nil)") {
						found = true
					}
				}
			}
		})
		c.Ob("calls/close-cancels-pending", "clientConn.goConnect", found, r.pos(ir.Info.Decl.Pos()), "the connect loop runs massCancelRequestsLocked when it sees closeCC == nil")
	}
	if ir := r.ir(P + "clientConn.continueRunningImpl"); ir != nil {
		txt := irText(ir)
		c.Ob("calls/close-cancels-pending", "clientConn.continueRunningImpl", strings.Contains(txt, "call clientConn.massCancelRequestsLocked recv=item()"), r.pos(ir.Info.Decl.Pos()), "after every connection run, sent calls are failed and unsent ones re-queued or failed")
	}
	if ir := r.ir(P + "clientConn.close"); ir != nil {
		txt := irText(ir)
		c.Ob("calls/close-cancels-pending", "clientConn.close", strings.Contains(txt, "assign item.closeCC = nil") && strings.Contains(txt, "call clientConn.dropClientConn recv=item()"), r.pos(ir.Info.Decl.Pos()), "close() clears closeCC and drops the connection, which ends run() and reaches massCancelRequestsLocked")
	}
	if ir := r.ir(P + "ClientImpl.Close"); ir != nil {
		txt := irText(ir)
		c.Ob("calls/close-cancels-pending", "ClientImpl.Close", regexp.MustCompile(`loop range over=item\.conns[^\n]*\n\s+call clientConn\.close recv=item\.conns\[\*\]\(\)`).MatchString(txt), r.pos(ir.Info.Decl.Pos()), "Close() closes every connection")
	}
	// ---- (5) who may write the ids
	var fis []*FuncInfo
	for name, fi := range r.funcs {
		if strings.HasPrefix(name, P) {
			fis = append(fis, fi)
		}
	}
	sort.Slice(fis, func(i, j int) bool { return fis[i].Name() < fis[j].Name() })
	for _, w := range fieldWriters(fis, map[string]bool{"HandlerContext.queryID": true, "Response.queryID": true, "Request.queryID": true, "Response.result": true}) {
		key := w.Func + "/" + w.Field + "/" + w.How
		reason, ok := idWriters[key]
		c.Ob("calls/who-may-write-ids", key, ok, r.pos(w.Pos), fmt.Sprintf("%s writes %s (%s): %s", w.Func, w.Field, w.How, orStr(reason, "not in the triaged table: re-labelling a call or redirecting its result channel after registration delivers a response to the wrong call")))
	}
	c.Floor("calls/who-may-write-ids", 4)
	for _, fn := range []string{"ClientImpl.do", "Multi.Start", "udpClient.do"} {
		ir := r.ir(P + fn)
		if ir == nil {
			continue
		}
		a := topIndex(ir.Body, func(n Node) bool {
			as, ok := n.(*AssignN)
			return ok && len(as.LHS) == 1 && strings.HasSuffix(as.LHS[0], ".result")
		})
		b := topIndex(ir.Body, func(n Node) bool {
			cn, ok := n.(*CallN)
			return ok && cn.Fn != nil && cn.Fn.Name() == "setupCall"
		})
		c.Ob("calls/result-channel-set-before-registration", fn, a >= 0 && b > a, r.pos(ir.Info.Decl.Pos()), fmt.Sprintf("the result channel is chosen (stmt %d) before setupCall registers the call (stmt %d)", a, b))
	}
	// (H') a request pointer found in the connection's shared write queue may belong to a call that already finished
	// (timed out / cancelled before sending): the *Request is then back in the pool and owned by another call. Entries of
	// clientConn.writeQ are therefore only compared or copied, never dereferenced; the query id is read from the entry's
	// own copy. (Entries moved to the send loop's local queue were confirmed against the call table.)
	releasedElementsNotHandedOnAgain(c, r)
	{
		nq, bad := 0, token.NoPos
		badFn := ""
		for _, name := range sortedKeys(r.funcs) {
			fi := r.funcs[name]
			if !strings.HasPrefix(name, P) || fi.Decl.Body == nil {
				continue
			}
			info := fi.Pkg.TypesInfo
			isSharedQueue := func(e ast.Expr) bool {
				sel, ok := ast.Unparen(e).(*ast.SelectorExpr)
				if !ok {
					return false
				}
				sl, ok := info.Selections[sel]
				return ok && sl.Kind() == types.FieldVal && sl.Obj().Name() == "writeQ" && namedStructName(info.TypeOf(sel.X)) == "clientConn"
			}
			// does e denote `<entry>.req` with entry an element of the shared queue?
			elemVars := map[types.Object]bool{}
			ast.Inspect(fi.Decl.Body, func(n ast.Node) bool {
				if rs, ok := n.(*ast.RangeStmt); ok && isSharedQueue(rs.X) && rs.Value != nil {
					if id, ok := rs.Value.(*ast.Ident); ok && info.Defs[id] != nil {
						elemVars[info.Defs[id]] = true
						nq++
					}
				}
				return true
			})
			isQueuedReq := func(e ast.Expr) bool {
				sel, ok := ast.Unparen(e).(*ast.SelectorExpr)
				if !ok || sel.Sel.Name != "req" {
					return false
				}
				if sl, ok := info.Selections[sel]; !ok || sl.Kind() != types.FieldVal || namedStructName(info.TypeOf(sel.X)) != "writeReqCancel" {
					return false
				}
				switch x := ast.Unparen(sel.X).(type) {
				case *ast.Ident:
					return elemVars[info.Uses[x]]
				case *ast.IndexExpr:
					return isSharedQueue(x.X)
				}
				return false
			}
			ast.Inspect(fi.Decl.Body, func(n ast.Node) bool {
				switch x := n.(type) {
				case *ast.SelectorExpr:
					if isQueuedReq(x.X) && bad == token.NoPos {
						bad, badFn = x.Pos(), fi.Name()
					}
				case *ast.StarExpr:
					if isQueuedReq(x.X) && bad == token.NoPos {
						bad, badFn = x.Pos(), fi.Name()
					}
				}
				return true
			})
		}
		at := ""
		if bad != token.NoPos {
			at = r.pos(bad)
		}
		c.Ob("calls/queued-request-not-dereferenced", "clientConn.writeQ", nq > 0 && bad == token.NoPos, at, fmt.Sprintf("%d loops over the shared write queue; a queued *Request is dereferenced: %v %s", nq, bad != token.NoPos, badFn))
	}
	// (I) one owner per response buffer: finishCall stores the receive loop's buffer pointer in the call (so that the
	// caller's PutResponse returns it to the pool) — on every such path it must report the buffer as taken, otherwise the
	// receive loop keeps reading into a buffer the pool hands out again
	for _, fn := range []string{"clientConn.finishCall", "udpClientConn.finishCall"} {
		ir := r.ir(P + fn)
		if ir == nil {
			c.Undecided("calls/response-buffer-taken-when-stored", fn, "", "function not found")
			continue
		}
		bufParam := ""
		for _, p := range ir.Params {
			if pt, ok := p.Var.Type().(*types.Pointer); ok {
				if sl, ok := pt.Elem().(*types.Slice); ok {
					if b, ok := sl.Elem().(*types.Basic); ok && b.Kind() == types.Uint8 {
						bufParam = p.Name
					}
				}
			}
		}
		sig := ir.Info.Obj.Type().(*types.Signature)
		ownedRes := ""
		for i := 0; i < sig.Results().Len(); i++ {
			if isBool(sig.Results().At(i).Type()) {
				ownedRes = fmt.Sprintf("res%d", i)
				break
			}
		}
		store := topIndex(ir.Body, func(n Node) bool {
			as, ok := n.(*AssignN)
			return ok && len(as.LHS) == 1 && len(as.RHS) == 1 && as.RHS[0] == bufParam && strings.Contains(as.LHS[0], ".")
		})
		stores, taken, otherAssign, badReturn := 0, -1, 0, ""
		walkBlock(ir.Body, nil, func(n Node, _ []Guard) {
			if as, ok := n.(*AssignN); ok {
				for i, l := range as.LHS {
					if i < len(as.RHS) && as.RHS[i] == bufParam && strings.Contains(l, ".") {
						stores++
					}
					if l == ownedRes {
						otherAssign++
					}
				}
			}
		})
		for i, n := range ir.Body {
			if as, ok := n.(*AssignN); ok && len(as.LHS) == 1 && as.LHS[0] == ownedRes && len(as.RHS) == 1 && as.RHS[0] == "true" && i > store {
				taken = i
				otherAssign--
			}
		}
		walkBlock(ir.Body, nil, func(n Node, _ []Guard) {
			rt, ok := n.(*ReturnN)
			if !ok || len(rt.Vals) == 0 {
				return
			}
			if rt.Pos < ir.Body[max(store, 0)].P() && rt.Vals[0] != "false" {
				badReturn = "a return before the buffer is stored reports it as taken"
			}
			if store >= 0 && rt.Pos > ir.Body[store].P() && rt.Vals[0] != "true" && rt.Vals[0] != ownedRes {
				badReturn = "a return after the buffer is stored does not report it as taken"
			}
		})
		ok := bufParam != "" && ownedRes != "" && store >= 0 && stores == 1 && taken > store && otherAssign == 0 && badReturn == ""
		c.Ob("calls/response-buffer-taken-when-stored", fn, ok, r.pos(ir.Info.Decl.Pos()), fmt.Sprintf("buffer parameter %s stored into the call at top-level statement %d (stores: %d); `%s = true` unconditionally at statement %d; other assignments of the result: %d; %s", bufParam, store, stores, ownedRes, taken, otherAssign, badReturn))
	}
}

// deliversOnAllPaths: walking forward through the continuation blocks, every path reaches a delivery
// (send on X.result, append to a callbacks slice, assignment of a callResult to a result variable,
// or `return <entry>, …`) before falling off the end.
func deliversOnAllPaths(conts []Block, entries map[string]bool) (bool, string) {
	for ci, blk := range conts {
		for i, n := range blk {
			switch n := n.(type) {
			case *OtherN:
				if m := regexp.MustCompile(`^send (.+)\.result <- `).FindStringSubmatch(n.Text); m != nil && entries[m[1]] {
					return true, "channel send"
				}
			case *CallN:
				if n.Builtin == "append" && len(n.Args) == 2 && len(n.ArgExprs) == 2 && isCallResult(n.ArgExprs[1]) {
					return true, "appended to callbacks"
				}
				if n.Builtin == "panic" {
					return true, "panic"
				}
			case *AssignN:
				if len(n.RHS) == 1 && strings.HasPrefix(n.RHS[0], "lit:callResult{resp:") {
					return true, "result variable"
				}
			case *ReturnN:
				if len(n.Vals) >= 1 && entries[n.Vals[0]] {
					return true, "returned to the caller"
				}
				return false, "return without delivering"
			case *IfN:
				rest := append([]Block{blk[i+1:]}, conts[ci+1:]...)
				a, wa := deliversOnAllPaths(append([]Block{n.Then}, rest...), entries)
				b, wb := deliversOnAllPaths(append([]Block{n.Else}, rest...), entries)
				if a && b {
					return true, wa + " / " + wb
				}
				if !a {
					return false, wa
				}
				return false, wb
			case *BranchN:
				return false, n.Tok.String() + " before delivering"
			}
		}
	}
	return false, "falls off the end without delivering"
}

// idWriters: every write of a call-identity field in pkg/rpc, triaged by reading.
var idWriters = map[string]string{
	"ClientImpl.GetRequest/Request.queryID/assign =":                "id allocation from the atomic counter",
	"ClientImpl.do/Response.result/assign =":                        "before registration (checked by calls/result-channel-set-before-registration)",
	"Multi.Start/Response.result/assign =":                          "before registration (checked by calls/result-channel-set-before-registration)",
	"udpClient.do/Response.result/assign =":                         "before registration (checked by calls/result-channel-set-before-registration)",
	"ClientImpl.getResponse/Response.queryID/assign =":              "the Response takes its Request's id at creation",
	"HandlerContext.ForwardAndFlush/Request.queryID/init":           "proxy forwarding keeps the incoming query id",
	"HandlerContext.ParseInvokeReq/HandlerContext.queryID/assign =": "decoded from the request header",
	"HandlerContext.ResetTo/HandlerContext.queryID/assign =":        "exported constructor-like reset for server implementers and mocks",
	"UdpServerConn.finishLongpoll2/HandlerContext.queryID/assign =": "fresh hctx for a finished longpoll takes the longpoll handle's query id",
	"serverConnTCP.finishLongpoll2/HandlerContext.queryID/assign =": "fresh hctx for a finished longpoll takes the longpoll handle's query id",
}

func isCallResult(e ast.Expr) bool {
	switch e := e.(type) {
	case *ast.CompositeLit:
		return types.ExprString(e.Type) == "callResult"
	case *ast.Ident:
		return e.Obj != nil && e.Obj.Decl != nil && strings.Contains(fmt.Sprintf("%T", e.Obj.Decl), "AssignStmt") && strings.Contains(nodeString(e.Obj.Decl), "callResult{")
	}
	return false
}

func nodeString(n any) string {
	if as, ok := n.(*ast.AssignStmt); ok && len(as.Rhs) == 1 {
		return types.ExprString(as.Rhs[0])
	}
	return ""
}

// releasedElementsNotHandedOnAgain: a loop `for i, x := range Q` that releases x (hands it to a release function, which
// returns it to a pool) must not return Q as a whole from inside the loop — the elements before i have been released and
// whoever receives Q releases them again; a context released twice sits twice in the pool and two later requests share
// it (one call's response goes to the other). Returning the rest, Q[i:], is the rule. All functions of pkg/rpc.
func releasedElementsNotHandedOnAgain(c *Check, r *repoCtx) {
	const rule = "calls/released-context-not-handed-on-again"
	for _, name := range sortedKeys(r.funcs) {
		fi := r.funcs[name]
		if !strings.HasPrefix(name, "pkg/rpc.") || fi.Decl.Body == nil {
			continue
		}
		ir := r.ir(name)
		if ir == nil {
			continue
		}
		k := 0
		walkBlock(ir.Body, nil, func(n Node, _ []Guard) {
			lp, ok := n.(*LoopN)
			if !ok || lp.Kind != "range" || lp.Over == "" {
				return
			}
			elem := lp.Over + "[*]"
			releases := false
			var bad []string
			walkBlock(lp.Body, nil, func(m Node, _ []Guard) {
				switch m := m.(type) {
				case *CallN:
					nm := m.Builtin
					if m.Fn != nil {
						nm = m.Fn.Name()
					}
					if strings.Contains(strings.ToLower(nm), "release") {
						if m.Recv == elem {
							releases = true
						}
						for _, a := range m.Args {
							if a == elem {
								releases = true
							}
						}
					}
				case *ReturnN:
					for _, v := range m.Vals {
						if v == lp.Over {
							bad = append(bad, r.pos(m.Pos))
						}
					}
				}
			})
			if !releases {
				return
			}
			k++
			c.Ob(rule, fmt.Sprintf("%s/releasing-loop#%d over %s", strings.TrimPrefix(name, "pkg/rpc."), k, localNameRx.ReplaceAllString(lp.Over, "$$")), len(bad) == 0, r.pos(lp.Pos), fmt.Sprintf("the loop releases its elements one by one; returns of the whole ranged slice from inside the loop: %v", bad))
		})
	}
	c.Floor(rule, 1)
}
