package main

import (
	"fmt"
	"go/token"
	"go/types"
	"regexp"
	"sort"
	"strings"
)

func init() { register("C09", checkC09) }

var itemFieldRx = regexp.MustCompile(`\bitem\.([A-Za-z_][A-Za-z0-9_]*)`)

type defState map[string]bool

func (d defState) clone() defState {
	o := defState{}
	for k := range d {
		o[k] = true
	}
	return o
}

func intersect(a, b defState) defState {
	o := defState{}
	for k := range a {
		if b[k] {
			o[k] = true
		}
	}
	return o
}

type defFlow struct {
	g        *genCtx
	ir       *FuncIR
	fields   []string
	all      defState
	problems []string
	staleOK  bool
	isUnion  bool
}

// isDefiningCall: the call (re)defines its operand entirely: a generated reader / Reset / FillRandom of a
// sibling, a basictl reader, or the clear builtin.
func (f *defFlow) definedByCall(n *CallN) []string {
	var out []string
	if n.Builtin == "clear" && len(n.Args) == 1 {
		if fl := fieldOf(n.Args[0]); fl != "" {
			out = append(out, fl)
		}
		return out
	}
	if n.Fn == nil {
		return nil
	}
	name := n.Fn.Name()
	_, role := familyRole(n.Fn)
	defining := false
	if isBasictl(n.Fn.Pkg()) {
		defining = strings.Contains(name, "Read") || strings.HasPrefix(name, "Random")
	} else if _, gen := f.g.funcs[n.Fn]; gen {
		defining = strings.Contains(role, "Read") || role == "Reset" || strings.HasPrefix(role, "ResetTo") || strings.HasSuffix(name, "Reset") || role == "FillRandom" || strings.HasPrefix(name, "Json2Read")
	}
	if !defining {
		return nil
	}
	if n.Recv == "item" && (role == "Reset" || strings.HasPrefix(role, "ResetTo") || strings.Contains(role, "Read")) {
		return append(out, "*")
	}
	if n.Recv == "val" {
		out = append(out, "@val")
	}
	for _, o := range f.g.operandsOfCall(n) {
		if fl := fieldOf(o); fl != "" && (o == "item."+fl) {
			out = append(out, fl)
		}
		if o == "val" {
			out = append(out, "@val")
		}
	}
	for _, r := range n.Results {
		if fl := fieldOf(r); fl != "" && r == "item."+fl {
			out = append(out, fl)
		}
	}
	return out
}

func (f *defFlow) define(st defState, fl string) {
	if fl == "*" {
		for _, x := range f.fields {
			st[x] = true
		}
		return
	}
	st[fl] = true
}

func isErrorReturn(ir *FuncIR, r *ReturnN) bool {
	if len(r.VE) == 0 {
		return false
	}
	last := r.VE[len(r.VE)-1]
	t := ir.x.typeOf(last)
	if t == nil || !isErrorType(t) {
		return false
	}
	v := r.Vals[len(r.Vals)-1]
	return v != "nil"
}

func (f *defFlow) condUses(c *Cond, st defState, pos token.Pos) {
	if c == nil {
		return
	}
	if c.Kind == "and" || c.Kind == "or" {
		for _, s := range c.Sub {
			f.condUses(s, st, pos)
		}
		return
	}
	// capacity / nil tests are reuse idioms, not reads of a decoded value
	if c.Kind == "cmp" && (c.Y == "nil" || strings.HasPrefix(c.X, "cap(") || strings.HasPrefix(c.Y, "cap(")) {
		return
	}
	for _, m := range itemFieldRx.FindAllStringSubmatch(c.X+" "+c.Y, -1) {
		if !st[m[1]] && f.all[m[1]] {
			f.problems = append(f.problems, fmt.Sprintf("condition `%s` reads item.%s before this call has defined it (stale value of a reused object) at %s", c.String(), m[1], posStr(f.g.co.Fset, pos)))
		}
	}
}

// flow returns the definition state after the block and whether control can fall through.
func (f *defFlow) flow(blk Block, in defState) (defState, bool) {
	st := in.clone()
	for _, n := range blk {
		switch n := n.(type) {
		case *AssignN:
			if n.Tok == token.ASSIGN || n.Tok == token.DEFINE {
				for _, l := range n.LHS {
					if fl := fieldOf(l); fl != "" && l == "item."+fl {
						f.define(st, fl)
					}
					if l == "item" { // *item = T{}
						f.define(st, "*")
					}
					if l == "val" {
						f.define(st, "@val")
					}
				}
			}
		case *CallN:
			for _, fl := range f.definedByCall(n) {
				f.define(st, fl)
			}
			if n.Tail {
				// `return sibling.Read(...)`: the success of the tail call is a success return
				f.atSuccess(st, n.Pos)
			}
		case *IfN:
			f.condUses(n.Cond, st, n.Pos)
			t, tf := f.flow(n.Then, st)
			e, ef := st, true
			if n.Else != nil {
				e, ef = f.flow(n.Else, st)
			}
			// `if item.P != nil { item.P.Reset() }`: a nil recursive pointer is already the fresh state
			if n.Cond.Kind == "cmp" && n.Cond.Y == "nil" {
				if fl := fieldOf(n.Cond.X); fl != "" && n.Cond.X == "item."+fl {
					if t[fl] && !e[fl] {
						e = e.clone()
						e[fl] = true
					} else if e[fl] && !t[fl] {
						t = t.clone()
						t[fl] = true
					}
				}
			}
			switch {
			case tf && ef:
				st = intersect(t, e)
			case tf:
				st = t
			case ef:
				st = e
			default:
				return st, false
			}
		case *SwitchN:
			var outs []defState
			hasDefault := false
			for _, cs := range n.Cases {
				if cs.Default {
					hasDefault = true
				}
				o, falls := f.flow(cs.Body, st)
				if falls {
					outs = append(outs, o)
				}
			}
			if !hasDefault {
				outs = append(outs, st)
			}
			if len(outs) == 0 {
				return st, false
			}
			r := outs[0]
			for _, o := range outs[1:] {
				r = intersect(r, o)
			}
			st = r
		case *LoopN:
			// body may run zero times: its definitions do not count, but its returns are checked
			f.flow(n.Body, st)
			// a full-range loop over a fixed array field defines it
		case *ReturnN:
			if len(n.Vals) == 1 && n.Vals[0] == "<tail>" {
				return st, false
			}
			if !isErrorReturn(f.ir, n) {
				f.atSuccess(st, n.Pos)
			}
			return st, false
		}
	}
	return st, true
}

func (f *defFlow) atSuccess(st defState, pos token.Pos) {
	var missing []string
	for _, fl := range f.fields {
		if !st[fl] {
			missing = append(missing, fl)
		}
	}
	if len(missing) > 0 {
		f.problems = append(f.problems, fmt.Sprintf("success return at %s leaves fields %v untouched (a reused object keeps its previous content there)", posStr(f.g.co.Fset, pos), missing))
	}
}

func isZeroSize(t types.Type) bool {
	switch u := t.Underlying().(type) {
	case *types.Struct:
		for i := 0; i < u.NumFields(); i++ {
			if !isZeroSize(u.Field(i).Type()) {
				return false
			}
		}
		return true
	case *types.Array:
		return u.Len() == 0 || isZeroSize(u.Elem())
	}
	return false
}

func structFieldsOf(fi *FuncInfo) []string {
	sig := fi.Obj.Type().(*types.Signature)
	if sig.Recv() == nil {
		return nil
	}
	n := namedOf(sig.Recv().Type())
	if n == nil {
		return nil
	}
	st, ok := n.Underlying().(*types.Struct)
	if !ok {
		return nil
	}
	var out []string
	for i := 0; i < st.NumFields(); i++ {
		if isZeroSize(st.Field(i).Type()) {
			continue // e.g. fields of the empty struct `True` carry no state
		}
		out = append(out, st.Field(i).Name())
	}
	return out
}

func checkC09(c *Check) {
	c.Explanation = "Must-define / no-stale-read dataflow over every generated TL1 and TL2 reader and Reset of struct-like types: on every path to a success return every field of the receiver (incl. hidden TL2 mask bytes and union index) has been assigned, reset, or handed to a sibling reader/Reset; conditions never read a receiver field before this call defined it (capacity and nil tests excepted); builtin vector/dictionary readers re-slice, reallocate or clear the destination before filling it; decoded temporaries stored into collections are fresh per iteration. For unions only the index and the active variant are required; for Maybe the payload is required only when present, and the TL2 payload read under its block bit has an else branch resetting Value (a present Maybe with a default payload is written without it)."
	c.NotCovered = "JSON readers (their omitted-field resets are decided in C06); equality of error values on failing inputs; fixed-size array remainders"
	c.Trusted = []string{"go/types", "summary: a sibling reader/Reset defines its whole operand (inductive over the same rule)"}
	withCorpora(c, true, func(g *genCtx) {
		for _, fam := range g.families() {
			roles := g.byFam[fam]
			name := g.co.Spec.Name + ":" + shortFam(fam)
			for _, role := range []string{"ReadTL1", "ReadTL1Boxed", "InternalReadTL2", "Reset", "ReadResultTL2"} {
				fi := roles[role]
				if fi == nil {
					continue
				}
				fields := structFieldsOf(fi)
				ir := g.ir(fi)
				if ir.Recv != nil && (len(fields) > 0 || role == "ReadResultTL2") {
					isUnion := containsStr(fields, "index")
					isMaybe := containsStr(fields, "Ok") && containsStr(fields, "Value") && len(fields) == 2
					req := fields
					if isUnion {
						req = []string{"index"}
					}
					if isMaybe {
						req = []string{"Ok"}
					}
					if role == "ReadResultTL2" {
						req = []string{"@val"} // the destination is the `ret` parameter
					}
					if g.isNotGeneratedStub(fi) {
						continue
					}
					// variant readers of unions (take the block byte) are called after the parent set the index
					f := &defFlow{g: g, ir: ir, fields: req, all: defState{}, isUnion: isUnion}
					for _, x := range fields {
						f.all[x] = true
					}
					st, falls := f.flow(ir.Body, defState{})
					if falls {
						f.atSuccess(st, fi.Decl.End())
					}
					sort.Strings(f.problems)
					c.Ob("must-define/"+role, name, len(f.problems) == 0, posStr(g.co.Fset, fi.Decl.Pos()), fmt.Sprintf("%d fields; %s", len(req), strings.Join(uniq(f.problems), " | ")))
					// A present Maybe whose payload is omitted on the wire (it equals the default) must still define Value:
					// the payload read under a block bit has an else branch that resets item.Value (seed C09-4).
					if isMaybe && role == "InternalReadTL2" {
						for _, n := range ir.Body {
							in, ok := n.(*IfN)
							if !ok || in.Cond.Kind != "bit" || !strings.Contains(in.Cond.String(), ":block,") || !strings.Contains(blockText(in.Then), "item.Value") {
								continue
							}
							c.Ob("maybe-reader/omitted-payload-resets-value", name, len(in.Else) > 0 && strings.Contains(blockText(in.Else), "item.Value"), posStr(g.co.Fset, in.Pos), "the payload read under "+in.Cond.String()+" has an else branch that gives item.Value its empty value (a present Maybe with a default payload is written without it)")
						}
					}
				}
				if role != "Reset" {
					g.freshTemporaries(c, "fresh-temporaries", name+"."+role, fi)
				}
			}
			// JSON struct readers: a field whose key is absent is handled in a block `if !<key seen> { … }` after the key
			// loop. Such a block resets the field (default value, or a read from a nil lexer) on every path through it: a
			// path that leaves the field alone keeps the previous object's value
			if fi := roles["ReadJSONGeneral"]; fi != nil && !g.isNotGeneratedStub(fi) {
				ir := g.ir(fi)
				if ir.Recv != nil {
					var defs func(b Block) (must, may map[string]bool)
					defs = func(b Block) (map[string]bool, map[string]bool) {
						must, may := map[string]bool{}, map[string]bool{}
						for _, n := range b {
							switch n := n.(type) {
							case *AssignN:
								for _, l := range n.LHS {
									if fl := fieldOf(l); fl != "" && !strings.HasPrefix(fl, "tl2mask") {
										must[fl], may[fl] = true, true
									}
								}
							case *CallN:
								for _, o := range g.operandsOfCall(n) {
									if fl := fieldOf(o); fl != "" && !strings.HasPrefix(fl, "tl2mask") {
										must[fl], may[fl] = true, true
									}
								}
							case *IfN:
								m1, y1 := defs(n.Then)
								m2, y2 := defs(n.Else)
								// `if item.F != nil { item.F.Reset() }`: a nil pointer already is the empty value
								if n.Cond.Kind == "cmp" && n.Cond.Op == "!=" && n.Cond.Y == "nil" && !n.Cond.Neg && len(n.Else) == 0 {
									if fl := fieldOf(n.Cond.X); fl != "" && m1[fl] {
										m2 = map[string]bool{fl: true}
									}
								}
								for k := range y1 {
									may[k] = true
								}
								for k := range y2 {
									may[k] = true
								}
								for k := range m1 {
									if m2[k] {
										must[k] = true
									}
								}
							}
						}
						return must, may
					}
					for _, n := range ir.Body {
						in, ok := n.(*IfN)
						if !ok || in.Cond.Kind != "bool" || !in.Cond.Neg || !localRx.MatchString(in.Cond.X) || len(in.Else) != 0 {
							continue
						}
						must, may := defs(in.Then)
						for _, fl := range sortedKeys(may) {
							c.Ob("json-reader/absent-field-reset-on-every-path", name+"."+fl, must[fl], posStr(g.co.Fset, in.Pos), "the block for an absent key resets "+fl+" on every path through it (not only when its field-mask bit is set)")
						}
					}
				}
			}
			// builtin collection readers: destination is re-sliced / reallocated / cleared before the fill
			for _, role := range []string{"ReadTL1", "InternalReadTL2", "ReadJSONGeneral"} {
				fi := roles[role]
				if fi == nil {
					continue
				}
				ir := g.ir(fi)
				if ir.Recv != nil || len(ir.Params) == 0 {
					continue
				}
				var vt types.Type
				for _, p := range ir.Params {
					if p.Name == "val" {
						vt = p.Var.Type()
					}
				}
				if vt == nil {
					continue
				}
				if p, ok := vt.(*types.Pointer); ok {
					vt = p.Elem()
				}
				kind := ""
				switch vt.Underlying().(type) {
				case *types.Slice:
					kind = "slice"
				case *types.Map:
					kind = "map"
				default:
					continue
				}
				if g.isNotGeneratedStub(fi) {
					continue
				}
				prepared := false
				firstFill := token.NoPos
				var prepPos token.Pos
				walkBlock(ir.Body, nil, func(n Node, gs []Guard) {
					inLoop := false
					for _, gd := range gs {
						if gd.Kind == "loop" {
							inLoop = true
						}
					}
					switch n := n.(type) {
					case *AssignN:
						if len(n.LHS) == 1 && n.LHS[0] == "val" && !inLoop && !prepared {
							prepared, prepPos = true, n.Pos
						}
						if inLoop && len(n.LHS) == 1 && strings.HasPrefix(n.LHS[0], "val[") && firstFill == token.NoPos {
							firstFill = n.Pos
						}
					case *CallN:
						if n.Builtin == "clear" && len(n.Args) == 1 && n.Args[0] == "val" && !inLoop && !prepared {
							prepared, prepPos = true, n.Pos
						}
						if inLoop && firstFill == token.NoPos {
							for _, o := range g.operandsOfCall(n) {
								if strings.HasPrefix(o, "val[") {
									firstFill = n.Pos
								}
							}
						}
					}
				})
				ok := prepared && (firstFill == token.NoPos || prepPos < firstFill)
				c.Ob("collection-reader-prepares-destination/"+role, name, ok, posStr(g.co.Fset, fi.Decl.Pos()), kind+" destination is re-sliced/reallocated/cleared before elements are decoded into it")
				// … and on every success path: a return without error before the destination was prepared leaves the
				// previous content in place (an empty collection read into a used object)
				early := token.NoPos
				walkBlock(ir.Body, nil, func(n Node, _ []Guard) {
					if rt, isR := n.(*ReturnN); isR && successReturn(ir, rt) && prepared && rt.Pos < prepPos && early == token.NoPos {
						early = rt.Pos
					}
				})
				at := posStr(g.co.Fset, fi.Decl.Pos())
				if early != token.NoPos {
					at = posStr(g.co.Fset, early)
				}
				c.Ob("collection-reader-prepares-destination-on-every-success-path/"+role, name, prepared && early == token.NoPos, at, kind+" destination is re-sliced/reallocated/cleared before any return without error")
			}
		}
	})
	c.Floor("json-reader/absent-field-reset-on-every-path", 300)
	c.Floor("maybe-reader/omitted-payload-resets-value", 50)
	c.Floor("must-define/ReadTL1", 200)
	c.Floor("must-define/InternalReadTL2", 150)
	c.Floor("must-define/Reset", 200)
	c.Floor("collection-reader-prepares-destination/ReadTL1", 50)
	c.Floor("collection-reader-prepares-destination/InternalReadTL2", 40)
}
