package main

// E4: whole-program view of the hand-written part of the repository: go/ssa + CHA refined by VTA.

import (
	"fmt"
	"go/token"
	"go/types"
	"sort"
	"strings"

	"golang.org/x/tools/go/callgraph"
	"golang.org/x/tools/go/callgraph/cha"
	"golang.org/x/tools/go/callgraph/vta"
	"golang.org/x/tools/go/packages"
	"golang.org/x/tools/go/ssa"
	"golang.org/x/tools/go/ssa/ssautil"
)

type Program struct {
	Pkgs   []*packages.Package
	Fset   *token.FileSet
	Prog   *ssa.Program
	SSA    []*ssa.Package
	Graph  *callgraph.Graph
	byPath map[string]*packages.Package
}

// handPatterns: the hand-written packages (generated fixtures under test/gen are analysed as corpora).
var handPatterns = []string{"./cmd/...", "./internal/pure/...", "./internal/puregen/...", "./internal/purelegacy/...", "./internal/tlast/...",
	"./internal/tlcodegen", "./internal/tlcodegen/codecreator/...", "./internal/utils/...", "./internal/tlmodel/...", "./internal/vkgo/...", "./pkg/...", "./internal/build/..."}

func loadProgram(c *Check, patterns ...string) *Program {
	if len(patterns) == 0 {
		patterns = handPatterns
	}
	pkgs, fset, err := loadPackages(repoDir, patterns...)
	if err != nil {
		c.Undecided("load", "repo", "", err.Error())
		return nil
	}
	prog, spkgs := ssautil.AllPackages(pkgs, ssa.InstantiateGenerics)
	prog.Build()
	p := &Program{Pkgs: pkgs, Fset: fset, Prog: prog, SSA: spkgs, byPath: map[string]*packages.Package{}}
	for _, pk := range pkgs {
		p.byPath[pk.PkgPath] = pk
	}
	p.Graph = vta.CallGraph(ssautil.AllFunctions(prog), cha.CallGraph(prog))
	c.Set("packages", len(pkgs))
	c.Set("ssa_functions", len(ssautil.AllFunctions(prog)))
	return p
}

func (p *Program) pos(pos token.Pos) string { return posStr(p.Fset, pos) }

// relPath strips the repository root from a position string.
func relPos(s string) string { return strings.TrimPrefix(s, repoDir+"/") }

// funcByName finds a package-level function or method: "pkgpath.Func" or "pkgpath.(Type).Method" / "pkgpath.(*Type).Method".
func (p *Program) funcByName(pkgPath, recv, name string) *ssa.Function {
	pk := p.byPath[pkgPath]
	if pk == nil {
		return nil
	}
	sp := p.Prog.Package(pk.Types)
	if sp == nil {
		return nil
	}
	if recv == "" {
		return sp.Func(name)
	}
	obj := pk.Types.Scope().Lookup(recv)
	if obj == nil {
		return nil
	}
	for _, t := range []types.Type{obj.Type(), types.NewPointer(obj.Type())} {
		ms := p.Prog.MethodSets.MethodSet(t)
		for i := 0; i < ms.Len(); i++ {
			if ms.At(i).Obj().Name() == name {
				return p.Prog.MethodValue(ms.At(i))
			}
		}
	}
	return nil
}

// reachable returns all functions reachable from the roots over the call graph.
func (p *Program) reachable(roots ...*ssa.Function) map[*ssa.Function]bool {
	seen := map[*ssa.Function]bool{}
	var stack []*ssa.Function
	for _, r := range roots {
		if r != nil && !seen[r] {
			seen[r] = true
			stack = append(stack, r)
		}
	}
	for len(stack) > 0 {
		f := stack[len(stack)-1]
		stack = stack[:len(stack)-1]
		n := p.Graph.Nodes[f]
		if n == nil {
			continue
		}
		for _, e := range n.Out {
			if callee := e.Callee.Func; callee != nil && !seen[callee] {
				seen[callee] = true
				stack = append(stack, callee)
			}
		}
	}
	return seen
}

type callSite struct {
	Caller *ssa.Function
	Callee string // qualified name of the external callee, e.g. "os.WriteFile"
	Pos    token.Pos
}

// sitesCalling lists call sites (in functions of the loaded packages) whose static callee's qualified
// name is in names (e.g. "os.WriteFile", "time.Now").
func (p *Program) sitesCalling(names map[string]bool) []callSite {
	var out []callSite
	for fn := range ssautil.AllFunctions(p.Prog) {
		if fn.Pkg == nil || p.byPath[fn.Pkg.Pkg.Path()] == nil {
			if fn.Parent() == nil || fn.Parent().Pkg == nil {
				continue
			}
		}
		for _, b := range fn.Blocks {
			for _, in := range b.Instrs {
				call, ok := in.(ssa.CallInstruction)
				if !ok {
					continue
				}
				callee := call.Common().StaticCallee()
				if callee == nil {
					continue
				}
				q := qualName(callee)
				if names[q] {
					out = append(out, callSite{Caller: fn, Callee: q, Pos: in.Pos()})
				}
			}
		}
	}
	sort.Slice(out, func(i, j int) bool { return out[i].Pos < out[j].Pos })
	return out
}

func qualName(f *ssa.Function) string {
	if f == nil {
		return "<nil>"
	}
	if f.Pkg != nil {
		if recv := f.Signature.Recv(); recv != nil {
			return f.Pkg.Pkg.Path() + "." + recvName(recv.Type()) + "." + f.Name()
		}
		return f.Pkg.Pkg.Path() + "." + f.Name()
	}
	if f.Object() != nil && f.Object().Pkg() != nil {
		if recv := f.Signature.Recv(); recv != nil {
			return f.Object().Pkg().Path() + "." + recvName(recv.Type()) + "." + f.Name()
		}
		return f.Object().Pkg().Path() + "." + f.Name()
	}
	return f.String()
}

func recvName(t types.Type) string {
	if n := namedOf(t); n != nil {
		return n.Obj().Name()
	}
	return t.String()
}

// ownerName names the source-level function containing fn (closures are attributed to their parent).
func ownerName(fn *ssa.Function) string {
	for fn.Parent() != nil {
		fn = fn.Parent()
	}
	return strings.TrimPrefix(qualName(fn), "github.com/VKCOM/tl/")
}

func describeFuncs(m map[*ssa.Function]bool, limit int) string {
	var names []string
	for f := range m {
		names = append(names, ownerName(f))
	}
	sort.Strings(names)
	names = uniq(names)
	if len(names) > limit {
		names = append(names[:limit], fmt.Sprintf("… %d more", len(names)-limit))
	}
	return strings.Join(names, ", ")
}

// funcOf maps a type-checker function object to its SSA function (nil for interface methods etc.).
func (p *Program) funcOf(fn *types.Func) *ssa.Function {
	if fn == nil {
		return nil
	}
	return p.Prog.FuncValue(fn)
}
