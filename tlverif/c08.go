package main

import (
	"fmt"
	"go/ast"
	"go/constant"
	"go/token"
	"go/types"
	"regexp"
	"strings"
)

func init() { register("C08", checkC08) }

var (
	makeRx     = regexp.MustCompile(`^make\(T:[^,]+, ([^,)]+)(?:, [^)]+)?\)$`)
	sliceToRx  = regexp.MustCompile(`^(\w[\w.:]*)\[:([^\]]+)\]$`)
	sliceFrRx  = regexp.MustCompile(`^(\w[\w.:]*)\[([^\]:]+):\]$`)
	lenLtRx    = regexp.MustCompile(`^\(len\(([^)]+)\) < (.+)\)$`)
	capLtRx    = regexp.MustCompile(`^\(cap\(([^)]+)\) < (.+)\)$`)
	constOpRx  = regexp.MustCompile(`^(#\d+|cap\([^)]*\)|len\([^)]*\))$`)
	readerRole = regexp.MustCompile(`(ReadTL1|ReadTL1Boxed|InternalReadTL2|ReadTL2|ReadJSONGeneral|ReadJSON|ReadResult\w+)$`)
)

// c08Facts: what is known to hold on the path to a statement.
type c08Facts struct {
	sane    map[string]bool   // n: CheckLengthSanity(buf, n, k>0) passed
	lenGE   map[string]string // "X|n": len(X) >= n established by an early return
	capGE   map[string]bool   // "X|n": cap(X) >= n (by make or cap test)
	counted map[string]bool   // locals proven small (loop bounds)
	zero    map[string]bool   // locals currently holding the constant 0
}

func (f *c08Facts) clone() *c08Facts {
	g := &c08Facts{sane: map[string]bool{}, lenGE: map[string]string{}, capGE: map[string]bool{}, counted: map[string]bool{}, zero: map[string]bool{}}
	for k, v := range f.zero {
		g.zero[k] = v
	}
	for k, v := range f.sane {
		g.sane[k] = v
	}
	for k, v := range f.lenGE {
		g.lenGE[k] = v
	}
	for k, v := range f.capGE {
		g.capGE[k] = v
	}
	for k, v := range f.counted {
		g.counted[k] = v
	}
	return g
}

type c08Walker struct {
	c    *Check
	g    *genCtx
	name string
	fn   string
	json bool
	tl2  bool
	n    map[string]int
	// noSanity: the corpus was generated without the length sanity option (no CheckLengthSanity call
	// anywhere): the TL1 allocation bound is outside the property's premise for it
	noSanity bool
}

func endsInExit(b Block) bool {
	if len(b) == 0 {
		return false
	}
	switch t := b[len(b)-1].(type) {
	case *ReturnN:
		return true
	case *CallN:
		return t.Builtin == "panic"
	case *BranchN:
		return true
	}
	return false
}

func (w *c08Walker) ob(rule string, ok bool, n Node, detail string) {
	w.n[rule]++
	w.c.Ob(rule, fmt.Sprintf("%s@%d", w.name, w.n[rule]), ok, posStr(w.g.co.Fset, n.P()), detail)
}

func (w *c08Walker) exprs(n Node, rhs string, lhs string, f *c08Facts) {
	if m := makeRx.FindStringSubmatch(rhs); m != nil {
		size := m[1]
		if constOpRx.MatchString(size) {
			return
		}
		ok := f.sane[size]
		how := "CheckLengthSanity"
		if !ok {
			for k := range f.lenGE {
				if strings.HasSuffix(k, "|"+size) {
					ok, how = true, "len("+strings.SplitN(k, "|", 2)[0]+") >= "+size
				}
			}
		}
		rule := "reader/allocation-bounded-by-input"
		if w.json {
			// one template site produces all instances: key the obligation by the generic shape
			shape := regexp.MustCompile(`^Builtin(Tuple|Vector|Dict)\w*ReadJSONGeneral$`).ReplaceAllString(w.fn, "Builtin$1*ReadJSONGeneral")
			w.c.Ob("reader/json-allocation-bounded-by-input", shape+": make([]T, "+size+")", ok, posStr(w.g.co.Fset, n.P()), fmt.Sprintf("%s: %s = %s — the JSON reader allocates the whole nat-sized tuple before reading any element; the size comes from a sibling JSON number (or nat argument), not from the amount of input", w.name, lhs, rhs))
			f.capGE[lhs+"|"+size] = true
			return
		}
		f.capGE[lhs+"|"+size] = true
		if w.noSanity && !w.tl2 {
			return
		}
		w.ob(rule, ok, n, fmt.Sprintf("%s = %s: the element count must have been bounded against the remaining input before the allocation (%s)", lhs, rhs, map[bool]string{true: how, false: "no bound on " + size + " dominates this allocation"}[ok]))
		if ok || true {
			f.capGE[lhs+"|"+size] = true
		}
		return
	}
	if m := sliceToRx.FindStringSubmatch(rhs); m != nil {
		base, hi := m[1], m[2]
		if constOpRx.MatchString(hi) {
			return
		}
		ok := f.lenGE[base+"|"+hi] != "" || f.capGE[base+"|"+hi] || f.counted[hi]
		w.ob("reader/slice-bound-established", ok, n, fmt.Sprintf("%s = %s needs len/cap(%s) >= %s established on every path to it", lhs, rhs, base, hi))
		return
	}
	if m := sliceFrRx.FindStringSubmatch(rhs); m != nil {
		base, lo := m[1], m[2]
		if constOpRx.MatchString(lo) {
			return
		}
		ok := f.lenGE[base+"|"+lo] != ""
		w.ob("reader/slice-bound-established", ok, n, fmt.Sprintf("%s = %s needs len(%s) >= %s established on every path to it", lhs, rhs, base, lo))
	}
}

func (w *c08Walker) block(b Block, f *c08Facts) {
	for i, n := range b {
		switch n := n.(type) {
		case *CallN:
			if n.Builtin == "panic" {
				w.ob("reader/no-panic", false, n, "panic call in a generated reader")
			}
			if n.Fn != nil && isBasictl(n.Fn.Pkg()) && n.Fn.Name() == "CheckLengthSanity" && len(n.Args) == 3 && n.ErrChecked {
				if strings.HasPrefix(n.Args[2], "#") && n.Args[2] != "#0" {
					f.sane[n.Args[1]] = true
				} else {
					w.ob("reader/length-sanity-min-size-positive", false, n, "CheckLengthSanity is called with minimum element size "+n.Args[2]+": a zero-size element makes the count unbounded by the input")
				}
			}
			// a TL2ParseSize into L redefines it: facts about L die
			for _, r := range n.Results {
				for k := range f.lenGE {
					if strings.HasSuffix(k, "|"+r) || strings.HasPrefix(k, r+"|") {
						delete(f.lenGE, k)
					}
				}
				delete(f.sane, r)
				delete(f.zero, r)
			}
			for _, cl := range n.Closures {
				w.block(cl.Body, f.clone())
			}
		case *AssignN:
			for j, l := range n.LHS {
				if j < len(n.RHS) {
					w.exprs(n, n.RHS[j], l, f)
				}
			}
			// redefinition kills facts about the base, except the slicing idiom buf = buf[n:]
			for j, l := range n.LHS {
				rhs := ""
				if j < len(n.RHS) {
					rhs = n.RHS[j]
				}
				if m := regexp.MustCompile(`^len\((\w[\w.:]*)\)$`).FindStringSubmatch(rhs); m != nil {
					f.lenGE[m[1]+"|"+l] = "remembered length" // x[:l] with l := len(x) only shrinks back
				}
				if rhs == "#0" && (n.Tok.String() == ":=" || n.Tok.String() == "=") {
					f.zero[l] = true
				} else {
					delete(f.zero, l)
				}
				delete(f.sane, l)
				if regexp.MustCompile(`^min\([^,]+, #\d+\)$`).MatchString(rhs) {
					f.sane[l] = true // bounded by a constant
				}
				if n.Tok.String() == ":=" && f.sane[rhs] {
					f.sane[l] = true
				}
				for k := range f.lenGE {
					if strings.HasPrefix(k, l+"|") || strings.HasSuffix(k, "|"+l) {
						delete(f.lenGE, k)
					}
				}
				if !strings.HasPrefix(rhs, "make(") && !strings.HasPrefix(rhs, l+"[:") {
					for k := range f.capGE {
						if strings.HasPrefix(k, l+"|") {
							delete(f.capGE, k)
						}
					}
				}
			}
		case *IfN:
			cond := n.Cond.String()
			thenF, elseF := f.clone(), f.clone()
			if m := lenLtRx.FindStringSubmatch(cond); m != nil {
				elseF.lenGE[m[1]+"|"+m[2]] = cond
			}
			if m := capLtRx.FindStringSubmatch(cond); m != nil {
				elseF.capGE[m[1]+"|"+m[2]] = true
			}
			w.block(n.Then, thenF)
			w.block(n.Else, elseF)
			// facts after the if: if Then exits, the else-facts hold; a `cap < n → make` then-branch establishes cap too
			switch {
			case endsInExit(n.Then) && len(n.Else) == 0:
				*f = *elseF
			case len(n.Else) == 0:
				if m := capLtRx.FindStringSubmatch(cond); m != nil && thenF.capGE[m[1]+"|"+m[2]] {
					f.capGE[m[1]+"|"+m[2]] = true
				}
				// a bound on n established in the branch also holds after it when n was the constant 0 before
				// the branch (len(x) >= 0 and "0 elements" are trivially bounded); kills made in the branch apply
				pre := f.clone()
				*f = *thenF.clone()
				for k := range f.lenGE {
					parts := strings.SplitN(k, "|", 2)
					if _, had := pre.lenGE[k]; !had && !pre.zero[parts[1]] {
						delete(f.lenGE, k)
					}
				}
				for k := range f.sane {
					if !pre.sane[k] && !pre.zero[k] {
						delete(f.sane, k)
					}
				}
				for k := range f.capGE {
					if !pre.capGE[k] {
						if m := capLtRx.FindStringSubmatch(cond); !(m != nil && k == m[1]+"|"+m[2]) {
							delete(f.capGE, k)
						}
					}
				}
				f.zero = map[string]bool{}
				for k := range pre.zero {
					if thenF.zero[k] {
						f.zero[k] = true
					}
				}
				f.counted = map[string]bool{}
				for k := range thenF.counted {
					if pre.counted[k] || pre.zero[k] {
						f.counted[k] = true
					}
				}
			}
		case *SwitchN:
			for _, cs := range n.Cases {
				w.block(cs.Body, f.clone())
			}
		case *LoopN:
			lf := f.clone()
			switch {
			case n.Kind == "range":
				w.ob("reader/loop-terminates", true, n, "range loop over "+n.Over)
			case n.Count:
				w.ob("reader/loop-terminates", true, n, "counted loop over "+n.Over+" (a finite count; every iteration that reads past the end of input returns an error)")
			default:
				cond := ""
				if n.Cond != nil {
					cond = n.Cond.String()
				}
				txt := blockText(n.Body)
				switch {
				case strings.Contains(cond, ".IsDelim("):
					// every iteration must advance the lexer: a top-level consuming call (or leave the function)
					adv := endsInExit(n.Body)
					for _, m := range n.Body {
						if cn, ok := m.(*CallN); ok && cn.Fn != nil {
							switch cn.Fn.Name() {
							case "WantComma", "UnsafeFieldName", "Raw", "Skip", "SkipRecursive":
								adv = true
							}
							if strings.HasPrefix(cn.Fn.Name(), "Json2Read") || strings.Contains(cn.Fn.Name(), "ReadJSON") {
								adv = true
							}
						}
					}
					w.ob("reader/loop-terminates", adv, n, "lexer loop: each iteration consumes a token (easyjson stops at EOF with an error state)")
				case regexp.MustCompile(`^\((L\d+:\w+) < (#\d+|[\w.:()]+)\)$`).MatchString(cond):
					m := regexp.MustCompile(`^\((L\d+:\w+) < `).FindStringSubmatch(cond)
					w.ob("reader/loop-terminates", strings.Contains(txt, "assign "+m[1]+" ++"), n, "index loop "+cond+" increments its index")
					lf.counted[m[1]] = true
				default:
					w.ob("reader/loop-terminates", false, n, "loop form not recognised: "+cond)
				}
			}
			w.block(n.Body, lf)
			// growth idiom: an index that is incremented once per iteration after the element slot was made
			// available (`len(x) <= i → append`, `n <= i → error/grow`, `i == k → error`) never exceeds len(x)
			for _, m := range n.Body {
				as, ok := m.(*AssignN)
				if !ok || as.Tok.String() != "++" || len(as.LHS) != 1 {
					continue
				}
				idx := as.LHS[0]
				for _, g := range n.Body {
					if in, isIf := g.(*IfN); isIf {
						cnd := in.Cond.String()
						if strings.HasSuffix(cnd, " <= "+idx+")") || cnd == "!("+idx+" != "+strings.TrimSuffix(strings.TrimPrefix(cnd, "!("+idx+" != "), ")")+")" {
							f.counted[idx] = true
						}
					}
				}
			}
		case *ClosureN:
			w.block(n.Body, f.clone())
		}
		_ = i
	}
}

func checkC08(c *Check) {
	c.Explanation = "Totality and boundedness of generated readers, decided as absence/dominance rules over every reader function of every corpus (TL1, TL2, JSON, result readers and the Builtin… collection readers): (1) every allocation `make(T, n)` with an input-derived n is dominated on its path by a bound against the remaining input — basictl.CheckLengthSanity(buf, n, minSize>0) with an error return (TL1, corpora generated with the length check on) or `len(r) < n → return error` (TL2); (2) every slicing r[:n] / r[n:] with a non-constant n is dominated by `len(r) < n → return` and every v[:n] by a capacity guard (`cap(v) < n → make`), facts being killed by reassignment; (3) no panic call in a reader; (4) every loop terminates: range loops, counted loops over a bounded count, index loops that increment, lexer loops whose every iteration consumes a token. The basictl primitives' own truncation behaviour is C33."
	c.NotCovered = "heap use as a number; easyjson internals; recursion depth through recursive types (each level consumes input in TL1/TL2; JSON nesting depth is easyjson's); index expressions inside basictl (C33)"
	c.Trusted = []string{"go/types", "basictl.CheckLengthSanity semantics (C33)"}
	fns := 0
	withCorpora(c, true, func(g *genCtx) {
		noSanity := true
		for _, fi := range g.funcs {
			if fi.Decl.Body != nil && strings.Contains(blockText(g.ir(fi).Body), "basictl.CheckLengthSanity") {
				noSanity = false
				break
			}
		}
		if noSanity {
			c.Info("corpus %s is generated without length sanity checks: TL1 allocation bounds are outside the property's premise there (TL2, JSON, slicing, loops and panic rules still apply)", g.co.Spec.Name)
		}
		for fn, fi := range g.funcs {
			if isMetaPkg(fi.Pkg.Name) || fi.Decl.Body == nil {
				continue
			}
			nm := fn.Name()
			if !readerRole.MatchString(nm) {
				continue
			}
			fns++
			w := &c08Walker{c: c, g: g, name: g.co.Spec.Name + ":" + fi.Name(), fn: fi.Name(), json: strings.Contains(nm, "JSON"), tl2: strings.Contains(nm, "TL2"), n: map[string]int{}, noSanity: noSanity}
			f := &c08Facts{sane: map[string]bool{}, lenGE: map[string]string{}, capGE: map[string]bool{}, counted: map[string]bool{}, zero: map[string]bool{}}
			w.block(g.ir(fi).Body, f)
			fixedArrayIndexBounded(c, g, g.co.Spec.Name+":"+fi.Name(), fi)
			lexerNilGuarded(c, g, g.co.Spec.Name+":"+fi.Name(), fi)
		}
	})
	// the bound itself: CheckLengthSanity compares in 64 bits (count*minSize in uint32 wraps at 2^32 and lets huge counts through)
	for _, b := range loadBasictl(c) {
		fi := b.byName["CheckLengthSanity"]
		if fi == nil {
			if b.pkg == "pkg/basictl" {
				c.Undecided("reader/length-sanity-is-overflow-safe", b.pkg, "", "CheckLengthSanity not found")
			}
			continue
		}
		muls, ok64 := 0, true
		detail := ""
		ast.Inspect(fi.Decl.Body, func(n ast.Node) bool {
			be, ok := n.(*ast.BinaryExpr)
			if !ok || be.Op != token.MUL {
				return true
			}
			muls++
			tv := fi.Pkg.TypesInfo.Types[be]
			bt, isB := tv.Type.Underlying().(*types.Basic)
			if !isB || (bt.Kind() != types.Uint64 && bt.Kind() != types.Int64) {
				ok64 = false
			}
			detail += types.ExprString(be) + " has type " + tv.Type.String() + "; "
			return true
		})
		irt := irText(b.ir("CheckLengthSanity"))
		shape := strings.HasPrefix(irt, "if (len(buf) < (val * val2))\n") && strings.Contains(irt, "io.ErrUnexpectedEOF")
		c.Ob("reader/length-sanity-is-overflow-safe", b.pkg+".CheckLengthSanity", muls == 1 && ok64 && shape, b.pos("CheckLengthSanity"), "rejects when len(r) < count*minSize with the product computed in 64 bits: "+detail)
	}
	c.Set("reader_functions", fns)
	c.Floor("reader/allocation-bounded-by-input", 40)
	c.Floor("reader/slice-bound-established", 150)
	c.Floor("reader/loop-terminates", 150)
	c.Floor("reader/fixed-array-index-bounded", 200)
	c.Floor("reader/json-lexer-nil-guarded", 300)
}

// fixedArrayIndexBounded: every non-constant index into a fixed-size array (or a pointer to one) in a reader is bounded
// by the array length: by the condition of the enclosing loop (`i < K`, K a constant ≤ N, len of the array, or a local
// defined only as min(…, constant ≤ N)), by ranging over the array itself, or by a dominating `i == N / i >= N → return`.
func fixedArrayIndexBounded(c *Check, g *genCtx, name string, fi *FuncInfo) {
	info := fi.Pkg.TypesInfo
	arrayLen := func(e ast.Expr) (int64, bool) {
		t := info.TypeOf(e)
		if t == nil {
			return 0, false
		}
		if p, ok := t.Underlying().(*types.Pointer); ok {
			t = p.Elem()
		}
		if a, ok := t.Underlying().(*types.Array); ok {
			return a.Len(), true
		}
		return 0, false
	}
	constLE := func(e ast.Expr, n int64) bool {
		tv, ok := info.Types[e]
		if !ok || tv.Value == nil {
			return false
		}
		v, exact := constant.Int64Val(constant.ToInt(tv.Value))
		return exact && v <= n
	}
	objOf := func(e ast.Expr) types.Object {
		if id, ok := ast.Unparen(e).(*ast.Ident); ok {
			if o := info.Uses[id]; o != nil {
				return o
			}
			return info.Defs[id]
		}
		return nil
	}
	// every definition of a local is min(…, const ≤ n)
	minBounded := func(o types.Object, n int64) bool {
		defs, good := 0, 0
		ast.Inspect(fi.Decl.Body, func(x ast.Node) bool {
			as, ok := x.(*ast.AssignStmt)
			if !ok {
				if inc, ok := x.(*ast.IncDecStmt); ok && objOf(inc.X) == o {
					defs++
				}
				return true
			}
			for i, l := range as.Lhs {
				if objOf(l) != o {
					continue
				}
				defs++
				if len(as.Rhs) != len(as.Lhs) || (as.Tok != token.DEFINE && as.Tok != token.ASSIGN) {
					continue
				}
				call, ok := ast.Unparen(as.Rhs[i]).(*ast.CallExpr)
				if !ok {
					continue
				}
				if id, ok := call.Fun.(*ast.Ident); ok {
					if b, isB := info.Uses[id].(*types.Builtin); isB && b.Name() == "min" {
						for _, a := range call.Args {
							if constLE(a, n) {
								good++
								break
							}
						}
					}
				}
			}
			return true
		})
		return defs > 0 && defs == good
	}
	var stack []ast.Node
	ast.Inspect(fi.Decl.Body, func(nd ast.Node) bool {
		if nd == nil {
			stack = stack[:len(stack)-1]
			return true
		}
		stack = append(stack, nd)
		ix, ok := nd.(*ast.IndexExpr)
		if !ok {
			return true
		}
		n, isArr := arrayLen(ix.X)
		if !isArr {
			return true
		}
		if tv, ok := info.Types[ix.Index]; ok && tv.Value != nil {
			return true // constant index: checked by the compiler
		}
		io := objOf(ix.Index)
		ok, why := false, "the index is not a plain local variable"
		if io != nil {
			why = "no enclosing loop condition, range or dominating guard bounds the index by the array length " + fmt.Sprint(n)
			for i := len(stack) - 2; i >= 0 && !ok; i-- {
				switch p := stack[i].(type) {
				case *ast.ForStmt:
					be, isB := p.Cond.(*ast.BinaryExpr)
					if !isB || be.Op != token.LSS || objOf(be.X) != io {
						continue
					}
					switch {
					case constLE(be.Y, n):
						ok, why = true, "loop condition bounds it by a constant ≤ "+fmt.Sprint(n)
					case func() bool {
						call, isC := ast.Unparen(be.Y).(*ast.CallExpr)
						if !isC || len(call.Args) != 1 {
							return false
						}
						id, isID := call.Fun.(*ast.Ident)
						if !isID || id.Name != "len" {
							return false
						}
						m, isA := arrayLen(call.Args[0])
						return isA && m <= n
					}():
						ok, why = true, "loop condition bounds it by the array's own length"
					case objOf(be.Y) != nil && minBounded(objOf(be.Y), n):
						ok, why = true, "loop condition bounds it by "+types.ExprString(be.Y)+", defined only as min(…, constant ≤ "+fmt.Sprint(n)+")"
					default:
						why = "the loop condition `" + types.ExprString(p.Cond) + "` does not bound the index by the array length " + fmt.Sprint(n) + " (the count comes from the input)"
					}
				case *ast.RangeStmt:
					if objOf(p.Key) == io {
						if m, isA := arrayLen(p.X); isA && m <= n {
							ok, why = true, "ranges over an array of length ≤ "+fmt.Sprint(n)
						}
					}
				case *ast.BlockStmt:
					// a dominating guard earlier in this block: if i == N / i >= N { … return }
					for _, st := range p.List {
						if astContains(st, ix) {
							break
						}
						is, isIf := st.(*ast.IfStmt)
						if !isIf || is.Init != nil || len(is.Body.List) == 0 {
							continue
						}
						if _, isRet := is.Body.List[len(is.Body.List)-1].(*ast.ReturnStmt); !isRet {
							continue
						}
						be, isB := is.Cond.(*ast.BinaryExpr)
						// `==` stops a counter that starts at 0 and steps by 1 only when the constant is the length itself
						if isB && objOf(be.X) == io && (be.Op == token.GEQ && constLE(be.Y, n) || be.Op == token.EQL && constLE(be.Y, n) && !constLE(be.Y, n-1)) {
							ok, why = true, "dominated by `"+types.ExprString(is.Cond)+" → return`"
						}
					}
				}
			}
		}
		c.Ob("reader/fixed-array-index-bounded", name+"/"+types.ExprString(ix.X), ok, posStr(g.co.Fset, ix.Pos()), why)
		return true
	})
}

// lexerNilGuarded: generated JSON readers are handed a nil lexer when the JSON value is absent (a Maybe without
// "value", an omitted nat-dependent field, a union without "value"); every method call on the lexer parameter is
// therefore under `lexer != nil` (or after `lexer == nil → return`).
func lexerNilGuarded(c *Check, g *genCtx, name string, fi *FuncInfo) {
	ir := g.ir(fi)
	lex := ""
	for _, p := range ir.Params {
		if pt, ok := p.Var.Type().(*types.Pointer); ok {
			// basictl.JsonLexer is an alias of easyjson's jlexer.Lexer
			if n := namedOf(pt); n != nil && n.Obj().Pkg() != nil && (n.Obj().Name() == "JsonLexer" && isBasictl(n.Obj().Pkg()) || n.Obj().Name() == "Lexer" && strings.HasSuffix(n.Obj().Pkg().Path(), "/jlexer")) {
				lex = p.Name
			}
		}
	}
	if lex == "" {
		return
	}
	bad := token.NoPos
	n := 0
	var walk func(b Block, guarded bool)
	walk = func(b Block, guarded bool) {
		for _, nd := range b {
			switch nd := nd.(type) {
			case *CallN:
				if nd.Recv == lex {
					n++
					if !guarded && bad == token.NoPos {
						bad = nd.Pos
					}
				}
				for _, cl := range nd.Closures {
					walk(cl.Body, guarded)
				}
			case *IfN:
				isNonNil := func(cd *Cond) bool {
					ok := false
					var rec func(cd *Cond)
					rec = func(cd *Cond) {
						if cd.Kind == "cmp" && cd.X == lex && cd.Y == "nil" && cd.Op == "!=" && !cd.Neg {
							ok = true
						}
						if cd.Kind == "and" {
							for _, s := range cd.Sub {
								rec(s)
							}
						}
					}
					rec(cd)
					return ok
				}
				isNil := nd.Cond.Kind == "cmp" && nd.Cond.X == lex && nd.Cond.Y == "nil" && (nd.Cond.Op == "!=" && nd.Cond.Neg || nd.Cond.Op == "==" && !nd.Cond.Neg)
				// a method call inside the condition itself
				if strings.Contains(nd.Cond.String(), lex+".") && !guarded && !isNonNil(nd.Cond) && bad == token.NoPos {
					bad = nd.Pos
				}
				walk(nd.Then, guarded || isNonNil(nd.Cond))
				walk(nd.Else, guarded || isNil)
				if isNil && len(returnsOf(nd.Then)) > 0 && len(nd.Then) > 0 {
					if _, ends := nd.Then[len(nd.Then)-1].(*ReturnN); ends {
						guarded = true
					}
				}
			case *LoopN:
				if nd.Cond != nil && strings.Contains(nd.Cond.String(), lex+".") && !guarded && bad == token.NoPos {
					bad = nd.Pos
				}
				walk(nd.Body, guarded)
			case *SwitchN:
				for _, cs := range nd.Cases {
					walk(cs.Body, guarded)
				}
			case *ClosureN:
				walk(nd.Body, guarded)
			}
		}
	}
	walk(ir.Body, false)
	if n == 0 {
		return
	}
	at := posStr(g.co.Fset, fi.Decl.Pos())
	if bad != token.NoPos {
		at = posStr(g.co.Fset, bad)
	}
	c.Ob("reader/json-lexer-nil-guarded", name, bad == token.NoPos, at, fmt.Sprintf("%d method calls on the lexer parameter, all under `lexer != nil`: %v (the reader is called with a nil lexer for absent values)", n, bad == token.NoPos))
}
