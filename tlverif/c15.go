package main

import (
	"fmt"
	"go/ast"
	"go/token"
	"go/types"
	"regexp"
	"sort"
	"strings"

	"golang.org/x/tools/go/ssa"
	"golang.org/x/tools/go/types/typeutil"
)

func init() { register("C15", checkC15) }

// mapOrderHelpers return a slice in map iteration order; every call site must sort the result.
var mapOrderHelpers = map[string]bool{
	"internal/utils.Keys": true, "internal/utils.SetToSlice": true, "internal/utils.Values": true, "maps.Keys": true, "maps.Values": true,
	"golang.org/x/exp/maps.Keys": true, "golang.org/x/exp/maps.Values": true, "internal/tlcodegen.mapToPairArray": true,
}

var sortFuncs = map[string]bool{
	"sort.Strings": true, "sort.Ints": true, "sort.Slice": true, "sort.SliceStable": true, "sort.Sort": true, "sort.Stable": true,
	"slices.Sort": true, "slices.SortFunc": true, "slices.SortStableFunc": true, "golang.org/x/exp/slices.Sort": true, "golang.org/x/exp/slices.SortFunc": true,
	"golang.org/x/exp/slices.SortStableFunc": true,
}

func pkgQual(fn *types.Func) string {
	if fn == nil || fn.Pkg() == nil {
		return ""
	}
	return strings.TrimPrefix(fn.Pkg().Path(), "github.com/VKCOM/tl/") + "." + fn.Name()
}

type mapSite struct {
	Owner  string
	Over   string
	Pos    token.Pos
	Class  string // commutative | collect-then-sort | helper-source | unclassified
	Detail string
}

func isStringType(t types.Type) bool {
	if t == nil {
		return false
	}
	b, ok := t.Underlying().(*types.Basic)
	return ok && b.Info()&types.IsString != 0
}

// commutativeBody: the loop body's effect does not depend on iteration order.
func commutativeBody(ir *FuncIR, blk Block, why *string) bool {
	for _, n := range blk {
		switch n := n.(type) {
		case *AssignN:
			for i, l := range n.LHS {
				switch {
				case strings.HasSuffix(l, "]") && n.Tok == token.ASSIGN:
					// map/set insertion or indexed store keyed by the element
				case strings.Contains(l, "[*].") && n.Tok == token.ASSIGN && i < len(n.RHS) && !strings.Contains(n.RHS[i], "[*]") && !strings.HasPrefix(n.RHS[i], "L"+"x"):
					// each iteration stores a loop-invariant value into a field of its own element
				case n.Tok == token.INC || n.Tok == token.DEC:
				case n.Tok == token.ADD_ASSIGN || n.Tok == token.SUB_ASSIGN || n.Tok == token.OR_ASSIGN || n.Tok == token.AND_ASSIGN || n.Tok == token.MUL_ASSIGN:
					if i < len(n.LE) && isStringType(ir.x.typeOf(n.LE[i])) {
						*why = "string concatenation in map order: " + l
						return false
					}
				case n.Tok == token.ASSIGN || n.Tok == token.DEFINE:
					// plain assignment: order independent only for constants/flags and locals of the iteration
					if i < len(n.RHS) {
						r := n.RHS[i]
						isConst := strings.HasPrefix(r, "#") || r == "true" || r == "false" || r == "nil" || strings.HasPrefix(r, `"`)
						isLocalDef := n.Tok == token.DEFINE
						isMinMax := strings.HasPrefix(r, "max(") || strings.HasPrefix(r, "min(")
						if !isConst && !isLocalDef && !isMinMax {
							*why = "assignment of an element-dependent value to an outer variable: " + l + " = " + r
							return false
						}
					}
				default:
					*why = "assignment " + l + " " + n.Tok.String()
					return false
				}
			}
		case *DeclN:
		case *IfN:
			if !commutativeBody(ir, n.Then, why) || !commutativeBody(ir, n.Else, why) {
				return false
			}
		case *SwitchN:
			for _, cs := range n.Cases {
				if !commutativeBody(ir, cs.Body, why) {
					return false
				}
			}
		case *LoopN:
			if !commutativeBody(ir, n.Body, why) {
				return false
			}
		case *BranchN:
		case *ReturnN:
			// existence / error returns: constants and error values only
			for _, v := range n.Vals {
				if v == "<tail>" || v == "<call>" {
					continue
				}
				if !(v == "nil" || v == "true" || v == "false" || strings.HasPrefix(v, "#") || strings.HasPrefix(v, "lit:") || strings.Contains(v, "Errorf(") || strings.Contains(v, "Error") || strings.HasPrefix(v, "err") || localRx.MatchString(v) && strings.Contains(strings.ToLower(v), "err")) {
					*why = "returns an element-dependent value: " + v
					return false
				}
			}
		case *CallN:
			switch {
			case n.Builtin == "delete" || n.Builtin == "panic":
			case n.Builtin == "append":
				*why = "append in map order to " + strings.Join(n.Results, ",")
				return false
			case n.Fn != nil && (strings.Contains(n.Fn.Name(), "Error") || n.Fn.Name() == "Errorf"):
			case n.Fn != nil && pureStdCall(n):
			case n.Fn != nil && sortFuncs[pkgQual(n.Fn)]:
				// sorting an element's own slice in place does not depend on the iteration order
			case n.Fn != nil && (pkgQual(n.Fn) == "os.Remove" || pkgQual(n.Fn) == "os.RemoveAll"):
				// removing a set of files: set semantics
			default:
				*why = "call with unknown effect: " + funcDisplayName(n.Fn) + n.Builtin
				return false
			}
		case *ClosureN, *OtherN:
			*why = "unclassified statement"
			return false
		}
	}
	return true
}

// appendTargets: the slices the body appends to (possibly under conditions), and whether that is all it does.
func appendTargets(ir *FuncIR, blk Block, out map[string]bool, why *string) bool {
	for _, n := range blk {
		switch n := n.(type) {
		case *CallN:
			if n.Builtin == "append" && len(n.Results) == 1 && len(n.Args) >= 1 && n.Results[0] == n.Args[0] {
				out[n.Results[0]] = true
				continue
			}
			if n.Builtin == "delete" || n.Fn != nil && (pureStdCall(n) || sortFuncs[pkgQual(n.Fn)]) {
				continue
			}
			*why = "call with unknown effect: " + funcDisplayName(n.Fn) + n.Builtin
			return false
		case *IfN:
			if !appendTargets(ir, n.Then, out, why) || !appendTargets(ir, n.Else, out, why) {
				return false
			}
		case *LoopN:
			if !appendTargets(ir, n.Body, out, why) {
				return false
			}
		case *BranchN, *DeclN:
		case *AssignN:
			var w string
			if !commutativeBody(ir, Block{n}, &w) {
				*why = w
				return false
			}
		case *ReturnN:
			var w string
			if !commutativeBody(ir, Block{n}, &w) {
				*why = w
				return false
			}
		default:
			*why = "unclassified statement"
			return false
		}
	}
	return true
}

// sortedAfter: a sort call on target occurs in the function after pos.
func sortedAfter(ir *FuncIR, target string, pos token.Pos) bool {
	found := false
	walkBlock(ir.Body, nil, func(n Node, _ []Guard) {
		call, ok := n.(*CallN)
		if !ok || call.Fn == nil || call.Pos < pos {
			return
		}
		q := pkgQual(call.Fn)
		if sortFuncs[q] && len(call.Args) >= 1 && (call.Args[0] == target || strings.Contains(call.Args[0], target)) {
			found = true
		}
	})
	return found
}

// pureStdCall: a call into a side-effect-free standard package.
func pureStdCall(n *CallN) bool {
	if n.Fn == nil || n.Fn.Pkg() == nil {
		return false
	}
	switch n.Fn.Pkg().Path() {
	case "strings", "path/filepath", "strconv", "unicode", "unicode/utf8", "errors", "path", "math", "math/bits":
		return true
	case "fmt":
		return n.Fn.Name() == "Sprintf" || n.Fn.Name() == "Errorf" || n.Fn.Name() == "Sprint"
	}
	return false
}

// frozenMapSites: sites confirmed by reading whose order independence the classifier cannot see.
// key: owner function + "#" + ranged expression (locals without numbering).
var frozenMapSites = map[string]string{
	"cmd/tlgen.runMain#namespaces":                                                        "each iteration writes an independent file '<ns>.tl' ('\"\"'→'__common', which cannot collide with an lc-ident namespace); content comes from 'PHPSplitTLByNamespaces' which is order-independent (see sites below); only the first I/O error returned varies.",
	"internal/pure.Kernel.CompileBoolTL1#tip.instances":                                   "every instance gets the same two values ('tlType[0].Crc32()', 'tlType[1].Crc32()'); no cross-iteration state.",
	"internal/pure.Kernel.Migration#allFiles":                                             "each iteration reads/writes only its own file; the dev-mode rename ('.tl'→'_migr.tl', '.tl2'→'_migr.tl2') is injective so targets never collide; 'written/notTouched' counters are commutative; only the first write error varies.",
	"internal/pure.Kernel.getArgNamespace#argNamespaces":                                  "guarded by 'len(argNamespaces) == 1' – returns the single element of a 1-element map.",
	"internal/pure.Kernel.resolveArgumentImpl#kt.tl1Names":                                "order affects only which error/warning is reported: picks an arbitrary name only to put a \"please use %s instead\" hint into a returned error (kernel_resolve.go:141-143).",
	"internal/pure.Kernel.resolveArgumentImpl#kt.tl2Names":                                "order affects only which error/warning is reported: same as above for the TL2 hint (kernel_resolve.go:153-155); always returns an error.",
	"internal/puregen.OutDir.Write#item.Code":                                             "each map entry is sent over a channel and written to its own file by a worker; counters are atomic/commutative; only which I/O error 'errgroup' returns (and the order of \"will not compile\" internal-error prints) varies.",
	"internal/puregen/gengo.InternalNamespace.FindRecursiveImports#item.DirectImports.ns": "DFS visit order only changes which DFS parent is recorded in 'ri[n][0]'; the sole consumer (gengo.go:188-205) uses it to pick which member of a cycle to merge into, and repeated contraction always ends in the same partition (the SCCs); names are then derive…",
	"internal/puregen/gengo.InternalNamespace.FindRecursiveImports#val2.DirectImports.ns": "'replace' is nil at both call sites (gengo.go:190, ins.go:164), so this loop never executes.",
	"internal/puregen/gengo.InternalNamespace.findRecursiveImports#item.DirectImports.ns": "same DFS as the first FindRecursiveImports row: reachable key set of 'ri' is order-independent, recorded parent only selects a merge partner inside one SCC.",
	"internal/puregen/gengo.genGo.generateCode#item.Namespaces":                           "each iteration sorts its own 'namespace.types' (SortFunc), sorts imports (gengo.go:349) and adds its own files 'tl<ns>/tl<ns>.go', 'tl<ns>/metamini.go' to the 'OutDir.Code' map; shared effects are only set inserts ('rawHandlerWhileList' usage marks).",
	"internal/puregen/genphp.genphp.PhpMarkAllInternalTypes#internalReachable":            "only sets per-wrapper boolean flags to true, each derived from membership in precomputed reachability sets.",
	"internal/puregen/genphp.genphp.PhpMarkAllInternalTypes#nonInternalReachable":         "same: monotone per-wrapper flag sets.",
	"internal/puregen/genrust.genRust.generateCode#item.Namespaces":                       "'generateNamespacesCode' is a stub returning \"\" (genrust_generate.go:339), so every iteration 'continue's after sorting its own 'namespace.types'.",
	"internal/tlcodegen.DirectIncludesCPP.sortedIncludesWithMap#item.ns":                  "'result' is built from 'includeNamesToTypes' (min over component ids – commutative) and sorted by (component, name) at type_rw.go:567; the order-dependent 'mapping' slices are discarded by every caller (type_rw.go:548, tlgen_lang_cpp.go:136).",
	"internal/tlcodegen.Gen2.PHPSplitTLByNamespaces#item.Namespaces":                      "writes only 'result[s]' for its own key; 'typs' sorted (line 105), 'nsResult' deduped by name and sorted by the globally unique 'OriginalOrderIndex' (assigned in main2.go:215-220; synthetic index-0 combinators live in namespace \"\" which is skipped at line…",
	"internal/tlcodegen.Gen2.PHPSplitTLByNamespaces#newNsVisited":                         "BFS level loop only inserts into the sets 'commonPartNsDependencies'/'nextNewNsVisited'; the result is the reachability closure of namespace \"\".",
	"internal/tlcodegen.Gen2.PHPSplitTLByNamespaces#result":                               "per key, replaces each element by a shallow copy with 'Modifiers=[kphp]'; idempotent, so the backing array shared by all common namespaces ('result[ns] = commonPart') ends with the same content in any order.",
	"internal/tlcodegen.Gen2.PhpMarkAllInternalTypes#internalReachable":                   "only sets per-wrapper boolean flags to true (tlgen_lang_php.go:402-410).",
	"internal/tlcodegen.Gen2.PhpMarkAllInternalTypes#nonInternalReachable":                "same: monotone per-wrapper flag sets.",
	"internal/tlcodegen.Gen2.WriteToDir#item.Code":                                        "each iteration writes its own file; 'cppRunLocalLinter' is a pure tab→spaces replace; counters commutative; only the order of '--print-diff' stdout chatter and the first I/O error vary.",
	"internal/tlcodegen.Gen2.buildMapDescriptors#item.typeDescriptors":                    "order affects only which error/warning is reported: body only validates and inserts into map 'gen.singleConstructors'; iteration order decides the order of warnings printed to 'ErrorWriter' and which of several errors is returned first.",
	"internal/tlcodegen.Gen2.createDependencies#val":                                      "per-'ns' DFS fills the set 'deps[ns]'; keys and values are sorted before emission (tlgen_lang_cpp.go:420-428).",
	"internal/tlcodegen.Gen2.createDependencies#val[current]":                             "push order onto 'stack' only changes DFS visit order; the product is the transitive-closure set 'deps[ns]', later sorted.",
	"internal/tlcodegen.Gen2.decideCppCodeDestinations#edges":                             "only mutates roots ('groupName==\"\"' and no incoming edges); 'decideGroupInConflict' reads group names of descendants only, which always have an incoming edge and are therefore never modified in this loop; 'front' is a set.",
	"internal/tlcodegen.Gen2.genTypeTL2#argNamespaces":                                    "guarded by 'len(argNamespaces) == 1' – assigns the single element of a 1-element map.",
	"internal/tlcodegen.Gen2.generateCodeCPP#detailsCpps":                                 "each iteration sorts its 'specs' (line 214), generates into local builders and adds its own file '<detailsFile>.cpp'; shared effects are set inserts ('cppAllInc.ns', 'createdDetailsCpps') and a counter; includes are emitted via 'sortedIncludes'.",
	"internal/tlcodegen.Gen2.generateCodeCPP#detailsHpps":                                 "same structure: per-iteration sort (line 159), own file '<detailsHeader>.h', shared effects only the set 'createdDetailsHpps' (read after the loop) and a counter; no 'CPPGenerateCode' implementation mutates gen/wrapper state.",
	"internal/tlcodegen.Gen2.generateType#argNamespaces":                                  "guarded by 'len(argNamespaces) == 1' – assigns the single element of a 1-element map.",
	"internal/tlcodegen.checkNatUsages#functions":                                         "only set inserts into 'combinatorsNatFieldToAffectedBits'/'typeArgumentToAffectingCombinatorsNatFields' keyed by the function's own name; additionally 'checkNatUsages' feeds only 'CheckBackwardCompatibility' (lint mode, no code generated).",
	"internal/tlcodegen.checkNatUsages#m2":                                                "each 'targetRef' is a distinct map key and every append in one call adds the same 'currentEdge'; the resulting path map is never read (no caller of 'GetArraySizeReferenceForField').",
	"internal/tlcodegen.checkNatUsages#m2[*]":                                             "each 'field' is a distinct key receiving 'path+currentEdge'; path values are never consumed.",
	"internal/tlcodegen.checkNatUsages#typeArgumentToAffectedTypeArgumentsWithPaths[typeName][*][key(typeArgumentToAffectedTypeArguments[typeName][*])]": "one assignment per distinct 'affectedNat' key; the path maps flow only into 'typeArgumentToArraySizeReference', whose accessor 'GetArgumentUsagesAsSize' has no callers.",
	"internal/tlcodegen.checkNatUsages#typeArgumentToAffectedTypeArguments[typeName][*]":                                                                 "set-union copy of 'affectedType→nat' sets (line 468) plus the unread path maps; lint-only consumer reads only the bit/field sets.",
	"internal/tlcodegen.processCombinators#existingTypes":                                                                                                "'reduce' only fills the local maps 'typeReductions'/'visitedTypes', which are discarded ('TypeReductions' field is commented out at tlgen.go:3009).",
	"internal/tlcodegen.processCombinators#val":                                                                                                          "order changes 'Constructor.Id' and the order of 'TypeDefinition.Constructors' for unions, but 'Id' is never read and 'Constructors[0]' (tlgen.go:3228, 3248) is only reached for struct wrappers, i.e. single-constructor types; 'TypeArguments' is content-ident…",
}

func siteKey(owner, over string) string {
	return owner + "#" + localNameRx.ReplaceAllString(over, "$1")
}

func checkC15(c *Check) {
	c.Explanation = "Determinism of generation, decided over the functions reachable (SSA + VTA call graph) from cmd/tl2gen.main and cmd/tlgen.main inside the generator packages: (a) every `range` over a map is classified as commutative (only map/set insertions, counters, flags, constant/error returns), collect-then-sort (appends to slices that are sorted later in the same function), or is listed in a frozen table with a reason; helpers that return slices in map order (utils.Keys, SetToSlice, maps.Keys, …) must have their result sorted at every call site; (b) wall-clock, random and pid sources (time.Now, math/rand globals, os.Getpid) are reachable only at listed sites; (c) goroutines are spawned only by the output-directory writer; (d) input paths are consumed only through WalkDeterministic, whose result is sorted."
	c.NotCovered = "determinism of go/format; data races inside the writer goroutines beyond the who-may-spawn rule"
	c.Trusted = []string{"go/ssa + VTA call graph (x/tools v0.29.0)", "sort/slices package semantics"}
	p := loadProgram(c)
	if p == nil {
		return
	}
	roots := []*ssa.Function{p.funcByName("github.com/VKCOM/tl/cmd/tl2gen", "", "main"), p.funcByName("github.com/VKCOM/tl/cmd/tlgen", "", "main")}
	for i, r := range roots {
		if r == nil {
			c.Undecided("roots", fmt.Sprint(i), "", "generator main not found")
			return
		}
	}
	reach := p.reachable(roots...)
	reachOwner := map[string]bool{}
	for fn := range reach {
		reachOwner[ownerName(fn)] = true
	}
	co := &Corpus{Spec: CorpusSpec{Name: "repo"}, Pkgs: p.Pkgs, Fset: p.Fset, InRepo: true}
	funcs := co.allFuncs()
	var sites []mapSite
	nFuncs := 0
	for _, fi := range funcs {
		owner := strings.TrimPrefix(fi.Pkg.PkgPath, "github.com/VKCOM/tl/") + "." + fi.Name()
		if !isGeneratorPkg(owner) {
			continue
		}
		// generic functions appear instantiated in the SSA owner names ("Keys[string,…]")
		reached := reachOwner[owner]
		if !reached {
			for o := range reachOwner {
				if strings.HasPrefix(o, owner+"[") {
					reached = true
				}
			}
		}
		if !reached || strings.HasSuffix(fi.Pkg.Fset.Position(fi.Decl.Pos()).Filename, "_test.go") {
			continue
		}
		nFuncs++
		ir := buildFuncIR(fi, funcs, p.Fset)
		taintedLocals := orderTaintedLocals(fi)
		var visit func(blk Block)
		visit = func(blk Block) {
			for _, n := range blk {
				switch n := n.(type) {
				case *IfN:
					visit(n.Then)
					visit(n.Else)
				case *SwitchN:
					for _, cs := range n.Cases {
						visit(cs.Body)
					}
				case *ClosureN:
					visit(n.Body)
				case *CallN:
					for _, cl := range n.Closures {
						visit(cl.Body)
					}
					// helper sources
					if n.Fn != nil && mapOrderHelpers[pkgQual(n.Fn)] {
						s := mapSite{Owner: owner, Over: "call " + pkgQual(n.Fn), Pos: n.Pos, Class: "unclassified", Detail: "result of a map-order helper is never sorted in this function"}
						if len(n.Results) == 1 && sortedAfter(ir, n.Results[0], n.Pos) {
							s.Class, s.Detail = "helper-source", "result "+stripLocalNo(n.Results[0])+" is sorted afterwards"
						}
						sites = append(sites, s)
					}
				case *LoopN:
					visit(n.Body)
					rs, ok := n.Stmt.(*ast.RangeStmt)
					if !ok {
						continue
					}
					t := ir.x.typeOf(rs.X)
					if t == nil {
						continue
					}
					if pt, ok := t.Underlying().(*types.Pointer); ok {
						t = pt.Elem()
					}
					over := n.Over
					if _, isMap := t.Underlying().(*types.Map); !isMap {
						// a slice whose element order was produced in map order (declared in orderTaintedFields, or a
						// local filtered from one in this function) is treated like a map
						src := taintedRangeSource(fi, rs.X, taintedLocals)
						if src == "" {
							continue
						}
						over = "tainted:" + src
					}
					s := mapSite{Owner: owner, Over: over, Pos: n.Pos}
					why := ""
					if mapOrderHelpers[owner] {
						s.Class, s.Detail = "helper-source", "definition of a map-order helper: every call site must sort its result (checked at the call sites)"
						sites = append(sites, s)
						continue
					}
					if commutativeBody(ir, n.Body, &why) {
						s.Class, s.Detail = "commutative", "body only inserts/counts/flags/returns constants or errors"
					} else {
						targets := map[string]bool{}
						why2 := ""
						if appendTargets(ir, n.Body, targets, &why2) && len(targets) > 0 {
							all := true
							var ts []string
							for t := range targets {
								ts = append(ts, stripLocalNo(t))
								if !sortedAfter(ir, t, n.Pos) {
									all = false
								}
							}
							sort.Strings(ts)
							if all {
								s.Class, s.Detail = "collect-then-sort", "collected into "+strings.Join(ts, ",")+" and sorted afterwards"
							} else if single := singletonUseOnly(ir, targets); single {
								s.Class, s.Detail = "collect-then-sort", "collected into "+strings.Join(ts, ",")+", which is then used only through len(…) and element 0 under len(…) == 1"
							} else if len(targets) == 1 && strings.HasPrefix(over, "tainted:") && orderTaintedFields[fieldOfTarget(ts[0])] != "" {
								s.Class, s.Detail = "commutative", "appends into the same order-tainted field "+ts[0]+" (propagation; consumers of that field are classified separately)"
							} else {
								s.Class, s.Detail = "unclassified", "collected into "+strings.Join(ts, ",")+" but no sort of it follows in this function"
							}
						} else {
							s.Class, s.Detail = "unclassified", why
							if why2 != "" && len(targets) > 0 {
								s.Detail = why2
							}
						}
					}
					sites = append(sites, s)
				}
			}
		}
		visit(ir.Body)
	}
	sort.Slice(sites, func(i, j int) bool { return sites[i].Pos < sites[j].Pos })
	counts := map[string]int{}
	for _, s := range sites {
		key := siteKey(s.Owner, s.Over)
		ok := s.Class != "unclassified"
		detail := s.Class + ": " + s.Detail
		if !ok {
			if reason, listed := frozenMapSites[key]; listed {
				ok = true
				detail = "listed: " + reason
				s.Class = "listed"
			}
		}
		counts[s.Class]++
		c.Ob("map-order/"+classRule(s.Class), key, ok, relPos(p.pos(s.Pos)), detail)
	}
	determinismSources(c, p, reach)
	c.Set("map_sites_by_class", counts)
	c.Set("functions_analysed", nFuncs)
	c.Floor("map-order/commutative", 20)
}

func classRule(cl string) string {
	if cl == "unclassified" {
		return "classified"
	}
	return cl
}

var ndSources = map[string]bool{
	"time.Now": true, "time.Since": true, "time.Until": true, "os.Getpid": true, "os.Getppid": true, "os.Hostname": true,
	"math/rand.Int": true, "math/rand.Intn": true, "math/rand.Int31": true, "math/rand.Int31n": true, "math/rand.Int63": true, "math/rand.Int63n": true,
	"math/rand.Uint32": true, "math/rand.Uint64": true, "math/rand.Float32": true, "math/rand.Float64": true, "math/rand.Perm": true, "math/rand.Shuffle": true,
	"math/rand.Read": true, "crypto/rand.Read": true, "math/rand/v2.Uint32": true, "math/rand/v2.IntN": true, "math/rand/v2.Uint64": true,
}

// ndAllowed: owner function → why the source cannot reach generated output.
var ndAllowed = map[string]string{
	"internal/puregen.Options.ReplaceStringInDir":       "time is used only to throttle a progress message printed to stdout",
	"internal/tlast.parseTL2FuncDeclarationWithoutName": "random magic is only suggested inside a parse error message",
	"internal/tlast.parseTL2TypeDeclarationWithoutName": "random magic is only suggested inside a parse error message",
	"internal/tlast.parseTL2Combinator":                 "random magic is only suggested inside a parse error message",
	"internal/tlast.TL.GenerateTLO/math/rand/v2.Uint32": "random magic is only suggested inside the 'collision in internal TLO hash' error message",
}

func determinismSources(c *Check, p *Program, reach map[*ssa.Function]bool) {
	n := 0
	for _, s := range p.sitesCalling(ndSources) {
		owner := ownerName(s.Caller)
		if !isGeneratorPkg(owner) || !reach[s.Caller] {
			continue
		}
		n++
		reason, ok := ndAllowed[owner]
		if !ok {
			reason, ok = ndAllowed[owner+"/"+s.Callee]
		}
		c.Ob("nondeterminism-source", owner+"/"+s.Callee, ok, relPos(p.pos(s.Pos)), s.Callee+" reachable from a generator entry point: "+reason)
	}
	c.Ob("nondeterminism-source/positive-example", "sites seen", n >= 2, "", fmt.Sprintf("%d clock/random/pid call sites reachable from the generators", n))
	// goroutine spawns
	spawns := 0
	for fn := range reach {
		owner := ownerName(fn)
		if !isGeneratorPkg(owner) {
			continue
		}
		for _, b := range fn.Blocks {
			for _, in := range b.Instrs {
				switch in := in.(type) {
				case *ssa.Go:
					spawns++
					c.Ob("goroutine-spawn-owner", owner+"/go", false, relPos(p.pos(in.Pos())), "a go statement in generator code (only the output-directory writer's errgroup workers are expected)")
				case ssa.CallInstruction:
					if callee := in.Common().StaticCallee(); callee != nil && qualName(callee) == "golang.org/x/sync/errgroup.Group.Go" {
						spawns++
						ok := owner == "internal/puregen.OutDir.Write"
						c.Ob("goroutine-spawn-owner", owner+"/errgroup.Go", ok, relPos(p.pos(in.Pos())), "worker goroutines: each item's target path and content depend only on the item; the shared set is updated under mu")
					}
				}
			}
		}
	}
	c.Ob("goroutine-spawn-owner/positive-example", "sites seen", spawns >= 1, "", fmt.Sprintf("%d spawn sites", spawns))
	// %p in format strings of reachable generator functions
	co := &Corpus{Spec: CorpusSpec{Name: "repo"}, Pkgs: p.Pkgs, Fset: p.Fset, InRepo: true}
	reachOwner := map[string]bool{}
	for fn := range reach {
		reachOwner[ownerName(fn)] = true
	}
	for _, fi := range co.allFuncs() {
		owner := strings.TrimPrefix(fi.Pkg.PkgPath, "github.com/VKCOM/tl/") + "." + fi.Name()
		if !isGeneratorPkg(owner) || !reachOwner[owner] {
			continue
		}
		ast.Inspect(fi.Decl.Body, func(n ast.Node) bool {
			if bl, ok := n.(*ast.BasicLit); ok && bl.Kind == token.STRING && strings.Contains(bl.Value, "%p") {
				c.Ob("nondeterminism-source", owner+"/%p", false, relPos(posStr(p.Fset, bl.Pos())), "pointer formatting in a function reachable from a generator entry point")
			}
			return true
		})
	}
	// input order: WalkDeterministic sorts before returning; AddFile* only called on its results
	r := &repoCtx{c: c, co: co, funcs: map[string]*FuncInfo{}}
	for _, fi := range co.allFuncs() {
		r.funcs[strings.TrimPrefix(fi.Pkg.PkgPath, "github.com/VKCOM/tl/")+"."+fi.Name()] = fi
	}
	if ir := r.ir("internal/utils.WalkDeterministic"); ir != nil {
		var sortPos, lastLoop, ret token.Pos
		sortedVar := ""
		for _, n := range ir.Body {
			switch n := n.(type) {
			case *CallN:
				if n.Fn != nil && sortFuncs[pkgQual(n.Fn)] && len(n.Args) >= 1 {
					sortPos, sortedVar = n.Pos, n.Args[0]
				}
			case *LoopN:
				lastLoop = n.Pos
				if sortedVar != "" && n.Over == sortedVar && n.Pos > sortPos {
					ret = n.Pos
				}
			}
		}
		// the sort key separates distinct files: it is the walked path itself (through a character replacement), not
		// something that two files under different roots can share (a path relative to its root, a base name) — equal
		// keys keep command-line order
		fi := ir.Info
		info := fi.Pkg.TypesInfo
		keyOK, keyExpr := false, ""
		ast.Inspect(fi.Decl.Body, func(n ast.Node) bool {
			lit, ok := n.(*ast.FuncLit)
			if !ok || len(lit.Type.Params.List) == 0 || len(lit.Type.Params.List[0].Names) == 0 {
				return true
			}
			pathParam := info.Defs[lit.Type.Params.List[0].Names[0]]
			if pathParam == nil || !isStringType(pathParam.Type()) {
				return true
			}
			ast.Inspect(lit.Body, func(x ast.Node) bool {
				cl, ok := x.(*ast.CompositeLit)
				if !ok || namedStructName(info.TypeOf(cl)) != "pair" {
					return true
				}
				for _, el := range cl.Elts {
					kv, ok := el.(*ast.KeyValueExpr)
					if !ok || types.ExprString(kv.Key) != "canonical" {
						continue
					}
					keyExpr = types.ExprString(kv.Value)
					e := ast.Unparen(kv.Value)
					if call, isC := e.(*ast.CallExpr); isC && len(call.Args) == 3 {
						if fn, _ := typeutil.Callee(info, call).(*types.Func); fn != nil && fn.FullName() == "strings.ReplaceAll" {
							e = ast.Unparen(call.Args[0])
						}
					}
					if id, isID := e.(*ast.Ident); isID && info.Uses[id] == pathParam {
						keyOK = true
					}
				}
				return true
			})
			return true
		})
		c.Ob("input-order/sort-key-is-the-file-path", "utils.WalkDeterministic", keyOK, r.pos(ir.Info.Decl.Pos()), "the key the collected files are sorted by is the walked path (modulo separator replacement): "+keyExpr)
		c.Ob("input-order/walk-sorted", "utils.WalkDeterministic", sortPos != 0 && ret != 0 && lastLoop == ret, r.pos(ir.Info.Decl.Pos()), "collected paths are sorted on the canonical path before the result is built from them")
	}
	if ir := r.ir("internal/pure.Kernel.AddFilesFromPaths"); ir != nil {
		okAll := true
		n := 0
		walked := map[string]bool{}
		walkBlock(ir.Body, nil, func(nd Node, gs []Guard) {
			call, ok := nd.(*CallN)
			if !ok || call.Fn == nil {
				return
			}
			if call.Fn.Name() == "WalkDeterministic" && len(call.Results) >= 1 {
				walked[call.Results[0]] = true
			}
			if strings.HasPrefix(call.Fn.Name(), "AddFile") {
				n++
				inLoop := false
				for _, g := range gs {
					if g.Kind == "loop" {
						over := strings.TrimPrefix(g.Text, "loop ")
						if walked[over] {
							inLoop = true
						}
					}
				}
				if !inLoop {
					okAll = false
				}
			}
		})
		c.Ob("input-order/files-added-in-walk-order", "pure.Kernel.AddFilesFromPaths", okAll && n >= 2, r.pos(ir.Info.Decl.Pos()), fmt.Sprintf("%d AddFile* calls, all inside loops over WalkDeterministic results", n))
	}
}

// orderTaintedFields: slice fields whose element order is produced in map-iteration order by a listed site;
// the listing is sound only while every consumer is order-insensitive, so ranges over them are classified like
// ranges over maps.
var orderTaintedFields = map[string]string{
	"InternalNamespace.Types": "merged recursion-cycle namespaces receive their types in the order the DFS of FindRecursiveImports (map iteration) picked merge partners",
}

// taintedRangeSource: the range expression is a tainted field or a local derived from one.
func taintedRangeSource(fi *FuncInfo, e ast.Expr, locals map[string]string) string {
	switch x := ast.Unparen(e).(type) {
	case *ast.SelectorExpr:
		if k := fieldKey(fi.Pkg.TypesInfo, x); orderTaintedFields[k] != "" {
			return k
		}
	case *ast.Ident:
		if src, ok := locals[x.Name]; ok {
			return src + " via " + x.Name
		}
	}
	return ""
}

// orderTaintedLocals: locals appended to inside a range over a tainted field (order-preserving filters) and
// locals assigned a tainted field directly.
func orderTaintedLocals(fi *FuncInfo) map[string]string {
	out := map[string]string{}
	if fi.Decl.Body == nil {
		return out
	}
	info := fi.Pkg.TypesInfo
	ast.Inspect(fi.Decl.Body, func(n ast.Node) bool {
		switch n := n.(type) {
		case *ast.RangeStmt:
			src := ""
			if sel, ok := ast.Unparen(n.X).(*ast.SelectorExpr); ok {
				if k := fieldKey(info, sel); orderTaintedFields[k] != "" {
					src = k
				}
			}
			if src == "" {
				return true
			}
			ast.Inspect(n.Body, func(m ast.Node) bool {
				if as, ok := m.(*ast.AssignStmt); ok && len(as.Lhs) == 1 && len(as.Rhs) == 1 {
					if call, ok := as.Rhs[0].(*ast.CallExpr); ok {
						if id, ok := call.Fun.(*ast.Ident); ok && id.Name == "append" {
							if l, ok := as.Lhs[0].(*ast.Ident); ok {
								out[l.Name] = src
							}
						}
					}
				}
				return true
			})
		case *ast.AssignStmt:
			for i, r := range n.Rhs {
				if sel, ok := ast.Unparen(r).(*ast.SelectorExpr); ok && i < len(n.Lhs) {
					if k := fieldKey(info, sel); orderTaintedFields[k] != "" {
						if l, ok := n.Lhs[i].(*ast.Ident); ok {
							out[l.Name] = k
						}
					}
				}
			}
		}
		return true
	})
	return out
}

// singletonUseOnly: every use of each collected local, other than the collecting append itself, is len(L) or
// L[0], and some len(L) == 1 test exists.
func singletonUseOnly(ir *FuncIR, targets map[string]bool) bool {
	txt := blockText(ir.Body)
	for t := range targets {
		if !strings.HasPrefix(t, "L") {
			return false
		}
		q := regexp.QuoteMeta(t)
		rest := regexp.MustCompile(`call append recv=\(`+q+`, [^)]*\) -> \[`+q+`\]`).ReplaceAllString(txt, "")
		rest = regexp.MustCompile(`decl `+q+`\n`).ReplaceAllString(rest, "")
		rest = regexp.MustCompile(`len\(`+q+`\)`).ReplaceAllString(rest, "")
		rest = regexp.MustCompile(q+`\[#0\]`).ReplaceAllString(rest, "")
		if strings.Contains(rest, t) {
			return false
		}
		if !regexp.MustCompile(`!\(len\(` + q + `\) != #1\)`).MatchString(txt) {
			return false
		}
	}
	return len(targets) > 0
}

func fieldOfTarget(t string) string {
	if i := strings.LastIndex(t, "."); i >= 0 {
		name := t[i+1:]
		for k := range orderTaintedFields {
			if strings.HasSuffix(k, "."+name) {
				return k
			}
		}
	}
	return ""
}
