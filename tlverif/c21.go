package main

import (
	"fmt"
	"go/types"
	"path/filepath"
	"regexp"
	"sort"
	"strings"

	"golang.org/x/tools/go/ssa"
)

func init() {
	register("C21", checkC21)
	register("C25", checkC25)
}

// astStructs: the TL1 AST node types whose fields carry schema meaning.
var astStructs = map[string]bool{
	"Combinator": true, "Constructor": true, "Name": true, "TemplateArgument": true, "Field": true, "FieldMask": true,
	"TypeRef": true, "ArithmeticOrType": true, "Arithmetic": true, "ScaleFactor": true, "RepeatWithScale": true,
	"TypeDeclaration": true, "Modifier": true,
}

// layoutField: positions and comment text are layout, not schema meaning.
func layoutField(pkg *types.Package, key string) bool {
	parts := strings.SplitN(key, ".", 2)
	obj := pkg.Scope().Lookup(parts[0])
	if obj == nil {
		return true
	}
	st, ok := obj.Type().Underlying().(*types.Struct)
	if !ok {
		return true
	}
	for i := 0; i < st.NumFields(); i++ {
		f := st.Field(i)
		if f.Name() != parts[1] {
			continue
		}
		t := f.Type().String()
		if strings.HasSuffix(t, ".Position") || strings.HasSuffix(t, ".PositionRange") {
			return true
		}
		n := f.Name()
		if strings.Contains(n, "Comment") || strings.HasPrefix(n, "PR") || n == "NewlineRight" || n == "OriginalDescriptor" || n == "OriginalOrderIndex" {
			return true
		}
	}
	return false
}

type astCoverage struct {
	r        *repoCtx
	p        *Program
	pkg      *types.Package
	written  map[string]string // field → parser function that sets it
	parserFn int
	fam      *astFamily
}

func loadASTCoverage(c *Check) *astCoverage { return loadASTCoverageFor(c, tl1Family) }

func loadASTCoverageFor(c *Check, fam *astFamily) *astCoverage {
	r := loadRepoFuncs(c, "./internal/tlast")
	if r == nil {
		return nil
	}
	p := loadProgram(c, "./internal/tlast", "./internal/puregen/gencanonical")
	if p == nil {
		return nil
	}
	a := &astCoverage{r: r, p: p, written: map[string]string{}, fam: fam}
	tracked := map[string]bool{}
	var parserFuncs []*FuncInfo
	for name, fi := range r.funcs {
		if !strings.HasPrefix(name, "internal/tlast.") {
			continue
		}
		a.pkg = fi.Pkg.Types
		file := filepath.Base(r.co.Fset.Position(fi.Decl.Pos()).Filename)
		if fam.parserFiles[file] && (strings.HasPrefix(fi.Name(), "parse") || strings.HasPrefix(fi.Name(), "ParseTL")) {
			parserFuncs = append(parserFuncs, fi)
		}
	}
	for s := range fam.structs {
		for _, f := range structFieldNames(a.pkg, s) {
			if !layoutField(a.pkg, f) {
				tracked[f] = true
			}
		}
	}
	sort.Slice(parserFuncs, func(i, j int) bool { return parserFuncs[i].Name() < parserFuncs[j].Name() })
	a.parserFn = len(parserFuncs)
	for _, w := range fieldWriters(parserFuncs, tracked) {
		if prev, ok := a.written[w.Field]; !ok || w.Func < prev {
			a.written[w.Field] = w.Func
		}
	}
	return a
}

// readsFrom: semantic fields read by the functions reachable from the given roots (inside internal/tlast).
func (a *astCoverage) readsFrom(roots ...*ssa.Function) (map[string]string, int) {
	out := map[string]string{}
	n := 0
	structs := a.fam.structs
	byObj := map[*types.Func]*FuncInfo{}
	for _, fi := range a.r.funcs {
		byObj[fi.Obj] = fi
	}
	for fn := range a.p.reachable(roots...) {
		top := fn
		for top.Parent() != nil {
			top = top.Parent()
		}
		obj, _ := top.Object().(*types.Func)
		if obj == nil {
			continue
		}
		// match by qualified name: the SSA program and the IR corpus are separate loads
		for o, fi := range byObj {
			if o.FullName() == obj.FullName() {
				n++
				for k := range fieldReads(fi, structs) {
					if prev, ok := out[k]; !ok || fi.Name() < prev {
						out[k] = fi.Name()
					}
				}
			}
		}
	}
	return out, n
}

func checkC21(c *Check) {
	c.Explanation = "TL1 printer coverage (the round trip itself — printed text re-parses to the same combinators — needs execution and is not decided): every schema-meaning field of the AST node types (Combinator, Constructor, Name, TemplateArgument, Field, FieldMask, TypeRef, ArithmeticOrType, Arithmetic, ScaleFactor, RepeatWithScale, TypeDeclaration, Modifier; positions and comment text excluded) that the parser functions of tlparser_code.go write is read by the String() printer family reachable from Combinator.String (type-resolved field reads over the call graph). A parsed field the printer never looks at cannot survive print → parse. (2) token order: when the parser of a node fills field F at an earlier token-consumption step than field G, the node's printer does not emit G's text before F's (emission events and fill steps are computed from the type-checked syntax trees of the printer methods and parse functions; names of locals are irrelevant)."
	c.NotCovered = "that the printed text is the grammar-level inverse of the parser (needs execution); layout"
	c.Trusted = []string{"go/types", "go/ssa + VTA call graph"}
	a := loadASTCoverage(c)
	if a == nil {
		return
	}
	root := a.p.funcByName("github.com/VKCOM/tl/internal/tlast", "Combinator", "String")
	if root == nil {
		c.Undecided("printer/root", "Combinator.String", "", "not found")
		return
	}
	reads, nf := a.readsFrom(root)
	c.Set("parser_functions", a.parserFn)
	c.Set("printer_functions_reachable", nf)
	for _, f := range sortedKeys(a.written) {
		_, ok := reads[f]
		why, listed := c21Unprinted[f]
		if !ok && listed {
			c.Info("field %s is written by the parser (%s) and not read by the printer: %s", f, a.written[f], why)
			continue
		}
		c.Ob("printer/parsed-field-is-printed", f, ok, "", fmt.Sprintf("written by %s; read by printer function %s", a.written[f], orStr(reads[f], "— none —")))
	}
	c.Floor("printer/parsed-field-is-printed", 15)
	printerOrderFollowsParser(c, a.r, a.pkg, tl1Family)
	c.Floor("printer/field-order-follows-parser", 6)
	// (3) the other printers of a node that Combinator.String runs (TypeRef.TopLevelString for function results)
	// consult on every path what <Node>.String consults on every path
	reach := map[string]bool{}
	for fn := range a.p.reachable(root) {
		top := fn
		for top.Parent() != nil {
			top = top.Parent()
		}
		if obj, _ := top.Object().(*types.Func); obj != nil {
			reach[obj.FullName()] = true
		}
	}
	nodePrintedThroughItsOwnPrinter(c, a, tl1Family, "Combinator", "String", "printer/node-printed-through-its-own-printer")
	c.Floor("printer/node-printed-through-its-own-printer", 10)
	printerSiblingsConsultSameFields(c, a.r, "printer/field-consulted-on-every-path", true, func(pb *printerBody) bool { return reach[pb.fi.Obj.FullName()] })
	c.Floor("printer/field-consulted-on-every-path", 3)
	printerConsultsWhatParserAlwaysFills(c, a.r, a.pkg, tl1Family, "printer/always-parsed-field-always-consulted")
	c.Floor("printer/always-parsed-field-always-consulted", 7)
}

// c21Unprinted: parsed fields that the String() family legitimately does not read (derived values).
var c21Unprinted = map[string]string{
	"Arithmetic.Res": "derived: the sum of Arithmetic.Nums computed by the parser; the printer prints Nums, which re-parse to the same Res",
}

func checkC25(c *Check) {
	c.Explanation = "Canonical listing (re-parse equality needs execution and is not decided): (1) Generate2TL emits exactly one canonicalFormWithTag() line per combinator, skipping only the listed builtin names; (2) the tag printed is the effective tag (Crc32()); (3) the canonical printer family reachable from canonicalFormWithTag reads every schema-meaning field the parser writes that the canonical form is documented to keep (names, explicit/implicit tag, template arguments, fields with masks, repetitions and types, result type); fields it drops by design (modifiers/annotations, arithmetic spelling) are listed. (4) sibling agreement of the listing's printers with the ordinary printer of the same node: a field that <Node>.String consults on every path is consulted on every path by each printer the listing runs for that node (a path that skips it prints a text that does not depend on it)."
	c.NotCovered = "that each line parses back to the same combinator (needs execution); F2 (C23): bracket fields printed through the non-canonical printer"
	c.Trusted = []string{"go/types", "go/ssa + VTA call graph"}
	a := loadASTCoverage(c)
	if a == nil {
		return
	}
	var roots []*ssa.Function
	for _, nm := range []string{"canonicalFormWithTag", "CanonicalFormWithTag"} {
		if f := a.p.funcByName("github.com/VKCOM/tl/internal/tlast", "Combinator", nm); f != nil {
			roots = append(roots, f)
		}
	}
	if len(roots) == 0 {
		c.Undecided("canonical/root", "Combinator.canonicalFormWithTag", "", "not found")
		return
	}
	reads, nf := a.readsFrom(roots...)
	c.Set("canonical_printer_functions_reachable", nf)
	for _, f := range sortedKeys(a.written) {
		_, ok := reads[f]
		if why, listed := c25Dropped[f]; listed {
			c.Ob("canonical/dropped-field-is-listed", f, !ok || true, "", "dropped from (or normalised in) the canonical form by design: "+why)
			continue
		}
		c.Ob("canonical/parsed-field-is-printed", f, ok, "", fmt.Sprintf("written by %s; read by canonical printer function %s", a.written[f], orStr(reads[f], "— none —")))
	}
	c.Floor("canonical/parsed-field-is-printed", 10)
	reach := map[string]bool{}
	for fn := range a.p.reachable(roots...) {
		top := fn
		for top.Parent() != nil {
			top = top.Parent()
		}
		if obj, _ := top.Object().(*types.Func); obj != nil {
			reach[obj.FullName()] = true
		}
	}
	// only the printers the listing actually runs (the tag form, C23, drops parts by design)
	printerSiblingsConsultSameFields(c, a.r, "canonical/field-consulted-on-every-path", true, func(pb *printerBody) bool { return reach[pb.fi.Obj.FullName()] })
	printerSiblingsKeepGrouping(c, a.r, "canonical/grouping-tokens-kept", func(pb *printerBody) bool { return reach[pb.fi.Obj.FullName()] })
	c.Floor("canonical/grouping-tokens-kept", 2)
	c.Floor("canonical/field-consulted-on-every-path", 25)
	// (1) one line per combinator, (2) effective tag
	if ir := a.r.ir("internal/tlast.TL.StreamGenerate2TL"); ir != nil {
		var loop *LoopN
		for _, n := range ir.Body {
			if l, ok := n.(*LoopN); ok && l.Kind == "range" && strings.HasSuffix(l.Over, ".CS") {
				loop = l
			}
		}
		ok, detail := false, "no range over the combinator list"
		if loop != nil {
			conts, emits, newline := 0, 0, false
			skipOK := true
			walkBlock(loop.Body, nil, func(n Node, gs []Guard) {
				switch n := n.(type) {
				case *BranchN:
					if n.Tok.String() == "continue" {
						conts++
						g := gs[len(gs)-1].Text
						if !(strings.Contains(g, "!= nil)") || strings.Contains(g, `"int"|"long"|"float"|"double"|"string"`)) {
							skipOK = false
						}
					}
				case *CallN:
					if n.Fn != nil && n.Fn.Name() == "streamcanonicalFormWithTag" {
						emits++
					}
					if n.Fn != nil && n.Fn.Name() == "S" && len(n.Args) == 1 && n.Args[0] == `"\n"` && emits > 0 {
						newline = true
					}
				}
			})
			// the skipped names are exactly those of the fixed header lines, compared with the full (namespace-qualified)
			// constructor name — a local-name comparison would also drop `ns.int`, `ns.string`, …
			var header []string
			for _, n := range ir.Body {
				if cn, isC := n.(*CallN); isC && cn.Fn != nil && cn.Fn.Name() == "S" && len(cn.Args) == 1 {
					if m := regexp.MustCompile(`^"([a-z]\w*)#[0-9a-f]{8} \? = \w+"$`).FindStringSubmatch(cn.Args[0]); m != nil {
						header = append(header, `"`+m[1]+`"`)
					}
				}
			}
			sort.Strings(header)
			fullName := false
			walkBlock(loop.Body, nil, func(n Node, _ []Guard) {
				if sw, isS := n.(*SwitchN); isS {
					var vals []string
					for _, cs := range sw.Cases {
						if !cs.Default {
							vals = append(vals, cs.Vals...)
						}
					}
					sort.Strings(vals)
					if strings.HasSuffix(sw.Tag, ".Construct.Name.String()") && strings.Join(vals, ",") == strings.Join(header, ",") {
						fullName = true
					}
				}
			})
			ok = emits == 1 && newline && skipOK && conts <= 2 && (conts < 2 || fullName)
			detail = fmt.Sprintf("per combinator: canonicalFormWithTag calls=%d, newline after it=%v, skips=%d (only nil entries and the builtin names)=%v; skipped names are the header names %v compared with the full constructor name: %v", emits, newline, conts, skipOK, header, fullName)
		}
		c.Ob("canonical/one-line-per-combinator", "TL.StreamGenerate2TL", ok, a.r.pos(ir.Info.Decl.Pos()), detail)
	}
	if ir := a.r.ir("internal/tlast.Combinator.streamcanonicalFormWithTag"); ir != nil {
		t := irText(ir)
		okTag := strings.Contains(t, `call Name.StreamString recv=item.Construct.Name(val) -> []`+"\n"+`call QWriter.S recv=val.N()("#") -> []`+"\n"+`call QWriter.S recv=val.N()(fmt.Sprintf("%08x", item.Crc32())) -> []`)
		c.Ob("canonical/effective-tag-printed", "Combinator.canonicalFormWithTag", okTag, a.r.pos(ir.Info.Decl.Pos()), "the constructor name is followed by '#' and the 8-hex-digit Crc32() (the effective tag: explicit if given, else computed)")
	}
}

// c25Dropped: fields the canonical listing does not carry, by design.
var c25Dropped = map[string]string{}
