package main

import (
	"fmt"
	"go/ast"
	"go/token"
	"go/types"
	"regexp"
	"strings"

	"golang.org/x/tools/go/types/typeutil"
)

func init() { register("C39", checkC39) }

// callSitesOf lists (caller function name, position) of static calls to a function/method by name.
func (r *repoCtx) callSitesOf(pkgPrefix, calleeRecv, calleeName string) (out []struct {
	Caller string
	Pos    token.Pos
	IsGo   bool
}) {
	for name, fi := range r.funcs {
		if !strings.HasPrefix(name, pkgPrefix+".") || strings.HasSuffix(r.co.Fset.Position(fi.Decl.Pos()).Filename, "_test.go") {
			continue
		}
		var stack []ast.Node
		ast.Inspect(fi.Decl.Body, func(n ast.Node) bool {
			if n == nil {
				stack = stack[:len(stack)-1]
				return true
			}
			stack = append(stack, n)
			call, ok := n.(*ast.CallExpr)
			if !ok {
				return true
			}
			callee := typeutil.StaticCallee(fi.Pkg.TypesInfo, call)
			if callee == nil || callee.Name() != calleeName {
				return true
			}
			rn := ""
			if sig := callee.Type(); sig != nil {
				rn = strings.TrimSuffix(funcDisplayName(callee), "."+calleeName)
				if rn == calleeName {
					rn = ""
				}
			}
			if rn != calleeRecv {
				return true
			}
			isGo := false
			if len(stack) >= 2 {
				_, isGo = stack[len(stack)-2].(*ast.GoStmt)
			}
			out = append(out, struct {
				Caller string
				Pos    token.Pos
				IsGo   bool
			}{fi.Name(), call.Pos(), isGo})
			return true
		})
	}
	return
}

func checkC39(c *Check) {
	c.Explanation = "RPC server limits, decided on pkg/rpc: workers — callHandler has exactly two call sites, worker.run and the inline fallback in handleRequest, and the fallback is reachable only when MaxWorkers <= 0 or acquireWorker() returned nil; `go w.run` appears only in acquireWorker after workerPool.Get returned (nil, true); in Get, created++ happens after the wait loop whose exit condition includes created < create, with mu held, and the fields created/free/closed are accessed only under mu (lockset, with gcLocked as a helper called under the lock); created-- only where a worker channel is closed. Memory — in receiveLoopImpl the calls acquireRequestBuf and ReadPacketBodyUnlocked come after an error-checked acquireRequestSema for the same amount, which is stored in hctx.reqTaken; acquireRequestSema returns nil only after TryAcquire succeeded or Acquire returned nil; releaseRequestBuf releases exactly its argument and releaseRequest passes hctx.reqTaken once and zeroes it."
	c.NotCovered = "the semaphore's own correctness (C42); the UDP server path (acquireRequestBuf without the request semaphore in udp_server.go is listed); numeric limits under load (schedule property)"
	c.Trusted = []string{"go/types", "sync.Mutex / sync.Cond semantics"}
	r := loadRepoFuncs(c, "./pkg/rpc")
	if r == nil {
		return
	}
	P := "pkg/rpc"
	// workers: who may call callHandler
	sites := r.callSitesOf(P, "Server", "callHandler")
	callers := map[string]int{}
	for _, s := range sites {
		callers[s.Caller]++
		ok := s.Caller == "worker.run" || s.Caller == "Server.handleRequest"
		c.Ob("workers/callHandler-callers", s.Caller, ok, r.pos(s.Pos), "callHandler may only be called from a pool worker or from the inline fallback")
	}
	c.Ob("workers/callHandler-callers/count", "Server.callHandler", callers["worker.run"] == 1 && callers["Server.handleRequest"] == 1 && len(callers) == 2, "", fmt.Sprintf("%v", callers))
	// inline fallback guard
	if ir := r.ir(P + ".Server.handleRequest"); ir != nil {
		txt := irText(ir)
		// shape: if (0 < MaxWorkers) { w := acquireWorker(); if w != nil { return w, ctx } } ; callHandler
		guard := regexp.MustCompile(`if \(#0 < item\.opts\.MaxWorkers\)\n\s+call Server\.acquireWorker recv=item\(\) -> \[\$\]\n\s+if \(\$ != nil\)\n\s+return \$, val`).MatchString(txt)
		idxGuard := topIndex(ir.Body, func(n Node) bool {
			in, ok := n.(*IfN)
			return ok && strings.Contains(in.Cond.String(), "MaxWorkers")
		})
		idxCall := topIndex(ir.Body, func(n Node) bool {
			cn, ok := n.(*CallN)
			return ok && cn.Fn != nil && cn.Fn.Name() == "callHandler"
		})
		c.Ob("workers/inline-fallback-guarded", "Server.handleRequest", guard && idxGuard >= 0 && idxCall > idxGuard, r.pos(ir.Info.Decl.Pos()),
			"the inline callHandler follows `if MaxWorkers > 0 { if w := acquireWorker(); w != nil { return w } }`, so it runs only with the limit disabled or the pool closed")
	}
	// goroutine spawn of worker.run
	for _, s := range r.callSitesOf(P, "worker", "run") {
		ok := s.Caller == "Server.acquireWorker" && s.IsGo
		c.Ob("workers/run-spawned-only-by-acquireWorker", s.Caller, ok, r.pos(s.Pos), "`go w.run(…)` only in acquireWorker")
	}
	if ir := r.ir(P + ".Server.acquireWorker"); ir != nil {
		txt := irText(ir)
		ok := regexp.MustCompile(`call workerPool\.Get recv=item\.workerPool\(item\.workersSem\) -> \[\$,? ?\$\]`).MatchString(strings.ReplaceAll(txt, "[$ $]", "[$, $]")) || strings.Contains(txt, "call workerPool.Get recv=item.workerPool(item.workersSem)")
		notOK := regexp.MustCompile(`if !\$\n\s+return nil`).MatchString(txt)
		reuse := regexp.MustCompile(`if \(\$ != nil\)\n\s+return \$`).MatchString(txt)
		c.Ob("workers/new-worker-only-after-pool-grant", "Server.acquireWorker", ok && notOK && reuse, r.pos(ir.Info.Decl.Pos()), "a new worker goroutine is started only after workerPool.Get returned (nil, true); (nil,false) returns nil, an existing worker is reused")
	}
	// workerPool lockset
	acc, helpers, problems, _ := locksetForType(r, P, "workerPool", "mu", map[string]bool{"created": true, "free": true, "closed": true})
	for _, p := range problems {
		if strings.Contains(p, "acquired while already held") {
			continue // Get unlocks around beforeWait and re-locks; the walker joins conservatively
		}
		c.Undecided("workers/pool-lockset", p, "", p)
	}
	for _, a := range acc {
		c.Ob("workers/pool-lockset", a.Func+"/"+a.Field, a.Held, r.pos(a.Pos), fmt.Sprintf("access to %s with mu held=%v", a.Field, a.Held))
	}
	c.Ob("workers/pool-helpers", "workerPool.gcLocked", helpers["gcLocked"], "", fmt.Sprintf("helpers running under the caller's lock: %v", keysOf(helpers)))
	if ir := r.ir(P + ".workerPool.Get"); ir != nil {
		txt := irText(ir)
		// wait loop with the admission condition, then created++ after it
		loopIdx := topIndex(ir.Body, func(n Node) bool {
			lp, ok := n.(*LoopN)
			return ok && lp.Cond != nil && strings.Contains(lp.Cond.String(), "(item.created < item.create)") && strings.Contains(lp.Cond.String(), "item.closed")
		})
		incIdx := topIndex(ir.Body, func(n Node) bool {
			a, ok := n.(*AssignN)
			return ok && len(a.LHS) == 1 && a.LHS[0] == "item.created" && a.Tok == token.INC
		})
		closedIdx := topIndex(ir.Body, func(n Node) bool {
			in, ok := n.(*IfN)
			return ok && in.Cond.String() == "item.closed" && len(in.Then) == 1
		})
		freeIdx := topIndex(ir.Body, func(n Node) bool {
			in, ok := n.(*IfN)
			return ok && strings.Contains(in.Cond.String(), "#0 <=") && len(returnsOf(in.Then)) == 1
		})
		waits := strings.Contains(txt, "call Cond.Wait recv=item.cond()")
		ok := loopIdx >= 0 && waits && closedIdx > loopIdx && freeIdx > closedIdx && incIdx > freeIdx && strings.Count(txt, "assign item.created ++") == 1
		c.Ob("workers/created-bounded-by-create", "workerPool.Get", ok, r.pos(ir.Info.Decl.Pos()),
			fmt.Sprintf("wait loop `for !(closed || len(free)>0 || created<create) { cond.Wait() }` at #%d, closed test #%d, reuse of a free worker #%d, created++ #%d (only reached when created < create)", loopIdx, closedIdx, freeIdx, incIdx))
	}
	// retiring a worker: closing its channel (the goroutine then exits) and taking it out of `created` go together, once
	// each, in the same block — in every function of the package, not in a fixed list: a decrement elsewhere (for
	// example when the goroutine exits) counts the same worker twice and lets Get start workers beyond the limit
	poolClosedAfterConnectionsFinished(c, r, P)
	isWorkerChanClose := func(cn *CallN) bool {
		if cn.Builtin != "close" || len(cn.ArgExprs) != 1 {
			return false
		}
		return true
	}
	retireSites, decSites := 0, 0
	for _, name := range sortedKeys(r.funcs) {
		fi := r.funcs[name]
		if !strings.HasPrefix(name, P+".") || fi.Decl.Body == nil {
			continue
		}
		ir := buildFuncIR(fi, r.co.allFuncs(), r.co.Fset)
		isDec := func(n Node) bool {
			a, ok := n.(*AssignN)
			if !ok || len(a.LHS) != 1 || !strings.HasSuffix(a.LHS[0], ".created") || (a.Tok != token.DEC && a.Tok != token.SUB_ASSIGN) || len(a.LE) != 1 {
				return false
			}
			sel, ok := a.LE[0].(*ast.SelectorExpr)
			if !ok {
				return false
			}
			return namedStructName(fi.Pkg.TypesInfo.TypeOf(sel.X)) == "workerPool"
		}
		closesWorker := func(cn *CallN) bool {
			if !isWorkerChanClose(cn) {
				return false
			}
			t := fi.Pkg.TypesInfo.TypeOf(cn.ArgExprs[0])
			ch, ok := t.Underlying().(*types.Chan)
			return ok && namedStructName(ch.Elem()) == "workerWork"
		}
		inFunc := 0
		var blocks func(b Block)
		blocks = func(b Block) {
			decs, closes := 0, 0
			var pos token.Pos
			for _, n := range b {
				switch n := n.(type) {
				case *AssignN:
					if isDec(n) {
						decs++
						pos = n.Pos
					}
				case *CallN:
					if closesWorker(n) {
						closes++
						pos = n.Pos
					}
				case *LoopN:
					inLoop := false
					for _, m := range n.Body {
						if cn, ok := m.(*CallN); ok && closesWorker(cn) {
							inLoop = true
						}
					}
					if inLoop {
						closes++
						pos = n.Pos
					} else {
						blocks(n.Body)
					}
				case *IfN:
					blocks(n.Then)
					blocks(n.Else)
				case *SwitchN:
					for _, cs := range n.Cases {
						blocks(cs.Body)
					}
				case *ClosureN:
					blocks(n.Body)
				}
			}
			if decs+closes > 0 {
				retireSites++
				inFunc++
				decSites += decs
				c.Ob("workers/retire-closes-and-uncounts-once", fi.Name()+fmt.Sprintf("#%d", inFunc), decs == closes, r.pos(pos), fmt.Sprintf("%s: in one block, worker channels closed (a loop over the free list counts once): %d, decrements of workerPool.created: %d — they must pair up", fi.Name(), closes, decs))
			}
		}
		blocks(ir.Body)
	}
	c.Floor("workers/retire-closes-and-uncounts-once", 3)
	// memory
	if ir := r.ir(P + ".Server.acquireRequestSema"); ir != nil {
		txt := irText(ir)
		ok := regexp.MustCompile(`call Weighted\.TryAcquire recv=item\.reqMemSem\(val2\) -> \[\$\]\n\s*if !\$\n`).MatchString(txt) &&
			regexp.MustCompile(`call Weighted\.Acquire recv=item\.reqMemSem\(val, val2\) -> \[\$\]\n\s+if err\(\$\)\n\s+return \$`).MatchString(txt)
		succ := 0
		walkBlock(ir.Body, nil, func(n Node, gs []Guard) {
			if rt, isR := n.(*ReturnN); isR && successReturn(ir, rt) {
				succ++
			}
		})
		c.Ob("memory/sema-nil-only-after-acquire", "Server.acquireRequestSema", ok && succ == 1, r.pos(ir.Info.Decl.Pos()), "returns nil only when TryAcquire(taken) succeeded or Acquire(ctx, taken) returned nil; the same amount is used for both")
	}
	if ir := r.ir(P + ".Server.receiveLoopImpl"); ir != nil {
		// inside the receive loop: sema (error-checked) precedes buf and body read, amount stored in reqTaken
		var body Block
		for _, n := range ir.Body {
			if lp, ok := n.(*LoopN); ok {
				body = lp.Body
			}
		}
		iSema := topIndex(body, func(n Node) bool {
			cn, ok := n.(*CallN)
			return ok && cn.Fn != nil && cn.Fn.Name() == "acquireRequestSema" && cn.ErrChecked
		})
		iBuf := topIndex(body, func(n Node) bool {
			cn, ok := n.(*CallN)
			return ok && cn.Fn != nil && cn.Fn.Name() == "acquireRequestBuf"
		})
		iRead := topIndex(body, func(n Node) bool {
			cn, ok := n.(*CallN)
			return ok && cn.Fn != nil && cn.Fn.Name() == "ReadPacketBodyUnlocked"
		})
		iTaken := topIndex(body, func(n Node) bool {
			a, ok := n.(*AssignN)
			return ok && len(a.LHS) == 1 && strings.HasSuffix(a.LHS[0], ".reqTaken")
		})
		same := false
		if iSema >= 0 && iBuf >= 0 && iTaken >= 0 {
			amt := body[iSema].(*CallN).Args[1]
			same = body[iBuf].(*CallN).Args[0] == amt && body[iTaken].(*AssignN).RHS[0] == amt
		}
		c.Ob("memory/body-read-after-sema", "Server.receiveLoopImpl", iSema >= 0 && iTaken > iSema && iBuf > iSema && iRead > iBuf && same, r.pos(ir.Info.Decl.Pos()),
			fmt.Sprintf("per packet: acquireRequestSema (error checked) #%d → hctx.reqTaken #%d → acquireRequestBuf #%d → ReadPacketBodyUnlocked #%d, all with the same amount=%v", iSema, iTaken, iBuf, iRead, same))
	}
	if ir := r.ir(P + ".Server.releaseRequestBuf"); ir != nil {
		txt := irText(ir)
		c.Ob("memory/release-exact-amount", "Server.releaseRequestBuf", regexp.MustCompile(`if nz\(val\)\n\s+call Weighted\.Release recv=item\.reqMemSem\(val\)`).MatchString(txt) && strings.Count(txt, "Weighted.Release") == 1, r.pos(ir.Info.Decl.Pos()), "releases exactly the amount it is given, once")
	}
	if ir := r.ir(P + ".HandlerContext.releaseRequest"); ir != nil {
		txt := irText(ir)
		c.Ob("memory/release-reqTaken-once", "HandlerContext.releaseRequest", regexp.MustCompile(`call Server\.releaseRequestBuf recv=val\(item\.reqTaken, item\.request\) -> \[\]\n(?:\s*assign [^\n]*\n)*?\s*assign item\.reqTaken = #0`).MatchString(txt), r.pos(ir.Info.Decl.Pos()), "passes hctx.reqTaken to releaseRequestBuf and zeroes it, so a second release is a no-op")
	}
	// who may call acquireRequestBuf / reqMemSem.Release
	for _, s := range r.callSitesOf(P, "Server", "acquireRequestBuf") {
		ok := s.Caller == "Server.receiveLoopImpl" || strings.HasPrefix(s.Caller, "Server.") && strings.Contains(r.pos(s.Pos), "udp_server.go")
		c.Ob("memory/request-buffers-owner", s.Caller, ok, r.pos(s.Pos), "request buffers are taken only by the TCP receive loop (after the semaphore) and by the UDP server path (listed, outside the property's TCP accounting)")
	}
	for _, s := range r.callSitesOf(P, "Server", "releaseRequestBuf") {
		ok := s.Caller == "HandlerContext.releaseRequest" || strings.Contains(r.pos(s.Pos), "udp_server.go")
		c.Ob("memory/release-owner", s.Caller, ok, r.pos(s.Pos), "request memory is released only through HandlerContext.releaseRequest (and the UDP path with amount 0)")
	}
	c.Floor("workers/pool-lockset", 15)
	c.Floor("workers/callHandler-callers", 2)
	c.Floor("memory/request-buffers-owner", 1)
}

// poolClosedAfterConnectionsFinished: closing the worker pool makes every request that is waiting for a worker run on
// its connection's goroutine instead (Get returns no worker once the pool is closed), so the pool may be closed only
// when no connection can still dispatch: every call of workerPool.Close is preceded, in the same block, by WaitEmpty on
// the connection semaphore. That semaphore is identified by its role — the one acquired in the function that accepts
// connections — not by its name.
func poolClosedAfterConnectionsFinished(c *Check, r *repoCtx, P string) {
	const rule = "workers/pool-closed-after-connections-finished"
	fieldOf := func(recv string) string {
		if i := strings.LastIndex(recv, "."); i >= 0 {
			return recv[i:]
		}
		return recv
	}
	connSem := map[string]bool{}
	type site struct {
		name string
		ir   *FuncIR
	}
	var closers []site
	for _, name := range sortedKeys(r.funcs) {
		fi := r.funcs[name]
		if !strings.HasPrefix(name, P+".") || fi.Decl.Body == nil {
			continue
		}
		ir := r.ir(name)
		if ir == nil {
			continue
		}
		accepts, closes := false, false
		var acquired []string
		walkBlock(ir.Body, nil, func(n Node, _ []Guard) {
			cn, ok := n.(*CallN)
			if !ok {
				return
			}
			nm := cn.Builtin
			if cn.Fn != nil {
				nm = funcDisplayName(cn.Fn)
			}
			switch {
			case strings.HasSuffix(nm, "Accept") || strings.HasPrefix(nm, "dyn:") && strings.HasSuffix(nm, ".Accept"):
				accepts = true
			case nm == "Weighted.Acquire":
				acquired = append(acquired, fieldOf(cn.Recv))
			case nm == "workerPool.Close":
				closes = true
			}
		})
		if accepts {
			for _, a := range acquired {
				connSem[a] = true
			}
		}
		if closes {
			closers = append(closers, site{name, ir})
		}
	}
	if len(connSem) == 0 {
		c.Undecided(rule, "connection semaphore", "", "no function of pkg/rpc both accepts connections and acquires a Weighted semaphore")
		return
	}
	for _, s := range closers {
		var visit func(b Block)
		visit = func(b Block) {
			waited := false
			for _, n := range b {
				switch n := n.(type) {
				case *CallN:
					if n.Fn == nil {
						continue
					}
					switch funcDisplayName(n.Fn) {
					case "Weighted.WaitEmpty":
						if connSem[fieldOf(n.Recv)] {
							waited = true
						}
					case "workerPool.Close":
						c.Ob(rule, strings.TrimPrefix(s.name, P+"."), waited, r.pos(n.Pos), fmt.Sprintf("workerPool.Close() preceded in its block by WaitEmpty on the connection semaphore %v: %v", sortedKeys(connSem), waited))
					}
				case *IfN:
					visit(n.Then)
					visit(n.Else)
				case *LoopN:
					visit(n.Body)
				}
			}
		}
		visit(s.ir.Body)
	}
	c.Floor(rule, 1)
}
