package main

import (
	"fmt"
	"go/token"
	"go/types"
	"regexp"
	"sort"
	"strconv"
	"strings"
)

func init() {
	register("C04", func(c *Check) { presenceCheck(c, "C04") })
	register("C43", func(c *Check) { presenceCheck(c, "C43") })
}

// bitRef is one presence bit: subject expression + bit number.
type bitRef struct {
	X   string
	Bit int
}

func (b bitRef) String() string { return b.X + "." + strconv.Itoa(b.Bit) }

type maskOp struct {
	Target bitRef
	Set    bool // |= (true) or &^= (false)
	Pos    token.Pos
}

// site: one straight-line block with the bit guards that dominate it.
type site struct {
	Guards []bitRef // positive bit tests that dominate the block
	NegG   []bitRef // negative ones (else branches)
	Other  []string // other guards (canonical strings)
	Fields []string // operand fields touched by wire/JSON/random ops or assignments in the block
	Masks  []maskOp
	Keys   []string // JSON keys appended (writer) in the block
	Pos    token.Pos
	HasOps bool
}

func isTL2MaskField(s string) bool {
	return strings.HasPrefix(s, "item.tl2mask")
}

func fieldOf(s string) string {
	// item.F…  → F
	if !strings.HasPrefix(s, "item.") {
		return ""
	}
	rest := s[len("item."):]
	for i, ch := range rest {
		if !(ch == '_' || ch >= '0' && ch <= '9' || ch >= 'a' && ch <= 'z' || ch >= 'A' && ch <= 'Z') {
			return rest[:i]
		}
	}
	return rest
}

func bitsOfConst(s string) []int {
	if !strings.HasPrefix(s, "#") {
		return nil
	}
	u, err := strconv.ParseUint(s[1:], 10, 64)
	if err != nil {
		return nil
	}
	var out []int
	for i := 0; i < 64; i++ {
		if u&(1<<uint(i)) != 0 {
			out = append(out, i)
		}
	}
	return out
}

// operandsOfCall returns the canonical operand expressions (receiver / value arguments) of a call.
func (g *genCtx) operandsOfCall(n *CallN) []string {
	var out []string
	if n.Fn == nil {
		return nil
	}
	sig := n.Fn.Type().(*types.Signature)
	if sig.Recv() != nil && n.Recv != "" {
		out = append(out, n.Recv)
	}
	if isBasictl(n.Fn.Pkg()) {
		// primitives: second argument is the datum (first is the buffer / rg)
		for i, a := range n.Args {
			if i == 0 {
				continue
			}
			out = append(out, a)
		}
		return out
	}
	nNat, nVal := 0, 0
	for i := 0; i < sig.Params().Len() && i < len(n.Args); i++ {
		r, _ := classifyParam(sig.Params().At(i), i, &nNat, &nVal)
		if r == "val" {
			out = append(out, n.Args[i])
		}
	}
	return out
}

func (g *genCtx) sites(ir *FuncIR) []*site {
	var out []*site
	var rec func(blk Block, pos, neg []bitRef, other []string)
	rec = func(blk Block, pos, neg []bitRef, other []string) {
		s := &site{Guards: pos, NegG: neg, Other: other}
		if len(blk) > 0 {
			s.Pos = blk[0].P()
		}
		for _, n := range blk {
			switch n := n.(type) {
			case *CallN:
				if n.Builtin == "append" && len(n.Args) >= 2 {
					for _, a := range n.Args[1:] {
						if strings.HasPrefix(a, `"`) {
							if uq, err := strconv.Unquote(a); err == nil {
								s.Keys = append(s.Keys, uq)
							}
						}
					}
				}
				for _, o := range g.operandsOfCall(n) {
					if f := fieldOf(o); f != "" && !isTL2MaskField(o) {
						s.Fields = append(s.Fields, f)
						s.HasOps = true
					}
				}
				for _, r := range n.Results {
					if f := fieldOf(r); f != "" && !isTL2MaskField(r) {
						s.Fields = append(s.Fields, f)
					}
				}
			case *AssignN:
				if len(n.LHS) == 1 && (n.Tok == token.OR_ASSIGN || n.Tok == token.AND_NOT_ASSIGN) && len(n.RHS) == 1 {
					for _, b := range bitsOfConst(n.RHS[0]) {
						s.Masks = append(s.Masks, maskOp{Target: bitRef{n.LHS[0], b}, Set: n.Tok == token.OR_ASSIGN, Pos: n.Pos})
					}
					continue
				}
				for _, l := range n.LHS {
					if f := fieldOf(l); f != "" && !isTL2MaskField(l) {
						s.Fields = append(s.Fields, f)
					}
				}
			case *IfN:
				p2, n2, o2 := pos, neg, other
				pe, ne, oe := pos, neg, other
				conds := []*Cond{n.Cond}
				if n.Cond.Kind == "and" && !n.Cond.Neg {
					conds = n.Cond.Sub
				}
				single := len(conds) == 1
				for _, cd := range conds {
					if cd.Kind == "bit" {
						br := bitRef{cd.X, cd.Bit}
						if !cd.Neg {
							p2 = append(p2[:len(p2):len(p2)], br)
							if single {
								ne = append(ne[:len(ne):len(ne)], br)
							}
						} else {
							n2 = append(n2[:len(n2):len(n2)], br)
							if single {
								pe = append(pe[:len(pe):len(pe)], br)
							}
						}
					} else {
						o2 = append(o2[:len(o2):len(o2)], cd.String())
						if single {
							oe = append(oe[:len(oe):len(oe)], cd.Not().String())
						}
					}
				}
				rec(n.Then, p2, n2, o2)
				if n.Else != nil {
					rec(n.Else, pe, ne, oe)
				}
			case *SwitchN:
				for _, cs := range n.Cases {
					o2 := append(other[:len(other):len(other)], "case "+n.Tag+"=="+strings.Join(cs.Vals, "|"))
					rec(cs.Body, pos, neg, o2)
				}
			case *LoopN:
				rec(n.Body, pos, neg, other)
			}
		}
		out = append(out, s)
	}
	rec(ir.Body, nil, nil, nil)
	return out
}

type presenceTable struct {
	maskToTL2  map[string]map[string][]string // (M.k) → (N.k2) → witnesses (role)
	fieldToTL1 map[string]map[string][]string // F → (M.k) → witnesses
	fieldToTL2 map[string]map[string][]string // F → (N.k2) → witnesses
}

func addW(m map[string]map[string][]string, k, v, w string) {
	if m[k] == nil {
		m[k] = map[string][]string{}
	}
	m[k][v] = append(m[k][v], w)
}

func isTL1Mask(b bitRef) bool {
	return !isTL2MaskField(b.X) && !strings.Contains(b.X, "block") && (strings.HasPrefix(b.X, "item.") || strings.HasPrefix(b.X, "nat:"))
}

func describe(m map[string][]string) string {
	var parts []string
	for _, k := range sortedKeys(m) {
		w := m[k]
		sort.Strings(w)
		w = uniq(w)
		parts = append(parts, k+" in "+strings.Join(w, ","))
	}
	return strings.Join(parts, " ; ")
}

func uniq(s []string) []string {
	var out []string
	for i, x := range s {
		if i == 0 || x != s[i-1] {
			out = append(out, x)
		}
	}
	return out
}

func presenceCheck(c *Check, id string) {
	if id == "C04" {
		c.Explanation = "Presence table agreement. For every generated struct, each masked field F is tied to a TL1 mask bit (mask expression, bit) and — when TL2 is generated — to a hidden TL2 presence bit (tl2mask byte, bit). The check extracts these ties from every site that mentions them (ReadTL1, WriteTL1, RepairMasks, FillRandom, ReadJSONGeneral mask inference, CalculateLayout, InternalWriteTL2, InternalReadTL2, WriteJSONOpt, Set/Clear/IsSet) and requires that (TL1 bit → TL2 bit) is one function, injective, identical at every site, and that field→TL1 bit and field→TL2 bit are each single-valued and compose. A TL1→TL2→TL1 conversion can only preserve values if these ties agree."
		c.NotCovered = "JSON equality of decoded values beyond key/presence agreement; arithmetic of sizes"
	} else {
		c.Explanation = "Accessors. For every generated SetF/ClearF/IsSetF: SetF assigns F (unless F is a true-type bit) and sets exactly the presence bits the readers/writers test for F (TL1 mask bit, through the pointer parameter for external masks, and the TL2 presence bit); ClearF resets F and clears exactly those bits; IsSetF tests the same bit; no accessor writes any other field or bit."
		c.NotCovered = "nothing structural; value semantics of the reset expression are C09's subject"
	}
	c.Trusted = []string{"go/types", "shape extractor idiom table"}
	withCorpora(c, true, func(g *genCtx) {
		for _, fam := range g.families() {
			roles := g.byFam[fam]
			name := g.co.Spec.Name + ":" + shortFam(fam)
			pt := &presenceTable{map[string]map[string][]string{}, map[string]map[string][]string{}, map[string]map[string][]string{}}
			if id == "C04" {
				g.tl2BitsSetByProducers(c, name, roles)
			}
			hasAccessors := false
			allGuards := map[string]bool{}
			for _, role := range sortedKeys(roles) {
				fi := roles[role]
				ir := g.ir(fi)
				if ir.Recv == nil {
					continue
				}
				ss := g.sites(ir)
				isAccessor := strings.HasPrefix(role, "Set") || strings.HasPrefix(role, "Clear") || strings.HasPrefix(role, "IsSet")
				if isAccessor {
					hasAccessors = true
					continue
				}
				// a mask that is handed to a callee as a nat argument is "used" for every bit
				walkBlock(ir.Body, nil, func(n Node, _ []Guard) {
					if call, ok := n.(*CallN); ok && call.Fn != nil {
						sig := call.Fn.Type().(*types.Signature)
						nNat, nVal := 0, 0
						for i := 0; i < sig.Params().Len() && i < len(call.Args); i++ {
							if r, _ := classifyParam(sig.Params().At(i), i, &nNat, &nVal); r == "nat" {
								allGuards["natarg:"+call.Args[i]] = true
							}
						}
					}
				})
				for _, s := range ss {
					var tl1, tl2 []bitRef
					for _, gd := range s.Guards {
						allGuards[gd.String()] = true
						if isTL1Mask(gd) {
							tl1 = append(tl1, gd)
						} else if isTL2MaskField(gd.X) {
							tl2 = append(tl2, gd)
						}
					}
					// innermost guard is the relevant one
					var m1, m2 *bitRef
					if len(tl1) > 0 {
						m1 = &tl1[len(tl1)-1]
					}
					if len(tl2) > 0 {
						m2 = &tl2[len(tl2)-1]
					}
					for _, mo := range s.Masks {
						if !mo.Set || !isTL2MaskField(mo.Target.X) {
							continue
						}
						if m1 != nil {
							addW(pt.maskToTL2, mo.Target.String(), m1.String(), role)
						}
						for _, f := range uniq(sortedCopy(s.Fields)) {
							addW(pt.fieldToTL2, f, mo.Target.String(), role)
						}
					}
					for _, f := range uniq(sortedCopy(s.Fields)) {
						if !s.HasOps && role != "Reset" {
							// assignment-only blocks are resets in else branches; skip
						}
						if m1 != nil && s.HasOps && lastGuardIs(s, *m1) {
							addW(pt.fieldToTL1, f, m1.String(), role)
						}
						if m2 != nil && s.HasOps && lastGuardIs(s, *m2) {
							addW(pt.fieldToTL2, f, m2.String(), role)
						}
					}
				}
			}
			if len(pt.maskToTL2) == 0 && len(pt.fieldToTL1) == 0 && len(pt.fieldToTL2) == 0 && !hasAccessors {
				continue
			}
			if id == "C04" && g.co.Spec.TL2 {
				// TL1→TL2 conversion is ReadTL1 followed by WriteTL2: the two TL2 passes and the TL2 reader
				// must agree slot by slot (shared with C03)
				g.tl2Agreement(c, name, roles)
			}
			if id == "C04" {
				// maskToTL2 is keyed by the TL2 presence bit (one per masked field); value: the TL1 bit it mirrors
				for _, tk := range sortedKeys(pt.maskToTL2) {
					m := pt.maskToTL2[tk]
					c.Ob("presence/tl2bit-mirrors-one-tl1bit", name+"/"+tk, len(m) == 1, posStr(g.co.Fset, roles[firstRole(roles)].Decl.Pos()), describe(m))
				}
				for _, f := range sortedKeys(pt.fieldToTL1) {
					m := pt.fieldToTL1[f]
					c.Ob("presence/field→tl1bit-single-valued", name+"."+f, len(m) == 1, "", describe(m))
				}
				for _, f := range sortedKeys(pt.fieldToTL2) {
					m := pt.fieldToTL2[f]
					c.Ob("presence/field→tl2bit-single-valued", name+"."+f, len(m) == 1, "", describe(m))
					if m1, ok := pt.fieldToTL1[f]; ok && len(m1) == 1 && len(m) == 1 {
						mk, tk := sortedKeys(m1)[0], sortedKeys(m)[0]
						if mm, ok := pt.maskToTL2[tk]; ok && len(mm) == 1 {
							c.Ob("presence/composition", name+"."+f, sortedKeys(mm)[0] == mk, "",
								fmt.Sprintf("field %s: TL1 sites use %s; TL2 sites use %s which mirrors %s", f, mk, tk, sortedKeys(mm)[0]))
						}
					}
				}
			} else {
				g.accessorRules(c, name, roles, pt, allGuards)
			}
		}
	})
	if id == "C04" {
		c.Floor("presence/tl2bit-mirrors-one-tl1bit", 100)
		c.Floor("presence/field→tl1bit-single-valued", 100)
		c.Floor("presence/field→tl2bit-single-valued", 100)
		c.Floor("presence/composition", 50)
	} else {
		c.Floor("accessor/set", 100)
		c.Floor("accessor/clear", 60)
		c.Floor("accessor/isset", 100)
		c.Floor("accessor/reset-clears-every-presence-byte", 100)
	}
}

func sortedCopy(s []string) []string {
	o := append([]string(nil), s...)
	sort.Strings(o)
	return o
}

func firstRole(m map[string]*FuncInfo) string { return sortedKeys(m)[0] }

// lastGuardIs: the innermost bit guard of the site is b (so the block is "the field's block").
func lastGuardIs(s *site, b bitRef) bool {
	if len(s.Guards) == 0 {
		return false
	}
	return s.Guards[len(s.Guards)-1] == b
}

// accessorRules decides C43 for one struct.
func (g *genCtx) accessorRules(c *Check, name string, roles map[string]*FuncInfo, pt *presenceTable, allGuards map[string]bool) {
	type acc struct {
		sets, clears map[string]bool
		tested       string
		fieldsSet    map[string]bool
		fieldsClr    map[string]bool
		boolSetter   bool
		has          map[string]*FuncInfo
	}
	if g.unionAccessorRules(c, name, roles) {
		return
	}
	// Reset makes every field absent: each hidden TL2 presence byte of the type is zeroed unconditionally (the TL1 mask
	// fields are ordinary fields and are reset as such). A byte left set makes IsSetX, the TL2 writer and the JSON writer
	// report a field that Reset has just removed, while the TL1 writer (mask 0) omits it.
	if fi := roles["Reset"]; fi != nil {
		if st, ok := derefStruct(fi.Obj.Type().(*types.Signature).Recv().Type()); ok {
			var bytes []string
			for i := 0; i < st.NumFields(); i++ {
				if strings.HasPrefix(st.Field(i).Name(), "tl2mask") {
					bytes = append(bytes, st.Field(i).Name())
				}
			}
			if len(bytes) > 0 {
				ir := buildFuncIR(fi, g.funcs, g.co.Fset)
				zeroed := map[string]bool{}
				whole := false
				for _, n := range ir.Body {
					if a, ok := n.(*AssignN); ok && a.Tok == token.ASSIGN && len(a.LHS) == 1 && len(a.RHS) == 1 {
						if strings.HasPrefix(a.LHS[0], "item.tl2mask") && a.RHS[0] == "#0" {
							zeroed[strings.TrimPrefix(a.LHS[0], "item.")] = true
						}
						if a.LHS[0] == "*item" && strings.HasPrefix(a.RHS[0], "lit:") && strings.HasSuffix(a.RHS[0], "{}") {
							whole = true
						}
					}
				}
				var missing []string
				for _, b := range bytes {
					if !zeroed[b] && !whole {
						missing = append(missing, b)
					}
				}
				c.Ob("accessor/reset-clears-every-presence-byte", name+".Reset", len(missing) == 0, posStr(g.co.Fset, fi.Decl.Pos()), fmt.Sprintf("presence bytes %v; not zeroed unconditionally by Reset: %v", bytes, missing))
			}
		}
	}
	accs := map[string]*acc{}
	get := func(f string) *acc {
		if accs[f] == nil {
			accs[f] = &acc{sets: map[string]bool{}, clears: map[string]bool{}, fieldsSet: map[string]bool{}, fieldsClr: map[string]bool{}, has: map[string]*FuncInfo{}}
		}
		return accs[f]
	}
	for _, role := range sortedKeys(roles) {
		var kind, field string
		switch {
		case strings.HasPrefix(role, "IsSet"):
			kind, field = "isset", strings.TrimPrefix(role, "IsSet")
		case strings.HasPrefix(role, "Set"):
			kind, field = "set", strings.TrimPrefix(role, "Set")
		case strings.HasPrefix(role, "Clear"):
			kind, field = "clear", strings.TrimPrefix(role, "Clear")
		default:
			continue
		}
		fi := roles[role]
		ir := g.ir(fi)
		if ir.Recv == nil {
			continue
		}
		a := get(field)
		a.has[kind] = fi
		ss := g.sites(ir)
		switch kind {
		case "isset":
			var tested *Cond
			walkBlock(ir.Body, nil, func(n Node, _ []Guard) {
				if r, ok := n.(*ReturnN); ok && len(r.VE) == 1 {
					tested = ir.x.cond(r.VE[0])
				}
			})
			if tested == nil || tested.Kind != "bit" || tested.Neg {
				c.Undecided("accessor/isset", name+"."+role, posStr(g.co.Fset, fi.Decl.Pos()), "IsSet does not return a single positive bit test")
				a.tested = "?"
				continue
			}
			a.tested = bitRef{tested.X, tested.Bit}.String()
		case "set":
			sig := fi.Obj.Type().(*types.Signature)
			for _, s := range ss {
				g.maskOpGuards(c, name+"."+role, s)
				for _, mo := range s.Masks {
					if mo.Set {
						a.sets[mo.Target.String()] = true
					} else {
						a.clears[mo.Target.String()] = true
					}
				}
				for _, f := range s.Fields {
					a.fieldsSet[f] = true
				}
			}
			if sig.Params().Len() >= 1 && isBool(sig.Params().At(0).Type()) && !a.fieldsSet[field] {
				a.boolSetter = true
			}
		case "clear":
			for _, s := range ss {
				g.maskOpGuards(c, name+"."+role, s)
				for _, mo := range s.Masks {
					if mo.Set {
						a.sets["!clear-sets:"+mo.Target.String()] = true
					} else {
						a.clears[mo.Target.String()] = true
					}
				}
				for _, f := range s.Fields {
					a.fieldsClr[f] = true
				}
			}
		}
	}
	tl2Owner := map[string]string{}
	for _, field := range sortedKeysAny(accs) {
		a := accs[field]
		construct := name + "." + field
		pos := ""
		for _, k := range []string{"set", "clear", "isset"} {
			if fi := a.has[k]; fi != nil && pos == "" {
				pos = posStr(g.co.Fset, fi.Decl.Pos())
			}
		}
		// expected bits
		var e1, e2 string
		if m, ok := pt.fieldToTL1[field]; ok && len(m) == 1 {
			e1 = sortedKeys(m)[0]
		}
		if m, ok := pt.fieldToTL2[field]; ok && len(m) == 1 {
			e2 = sortedKeys(m)[0]
		}
		derived := false
		if e1 == "" && e2 == "" {
			// true-type bit (no struct field): the bits the setter touches must be a mirror pair
			// known from the readers, or a bit the readers/writers test.
			derived = true
			for b := range a.sets {
				if strings.HasPrefix(b, "item.tl2mask") {
					e2 = b
				} else if !strings.HasPrefix(b, "!") {
					e1 = b
				}
			}
		}
		if e1 == "" && e2 != "" {
			if mm, ok := pt.maskToTL2[e2]; ok && len(mm) == 1 {
				e1 = sortedKeys(mm)[0]
			}
		}
		exp := map[string]bool{}
		if e1 != "" {
			exp[e1] = true
		}
		if e2 != "" {
			exp[e2] = true
		}
		if fi := a.has["set"]; fi != nil {
			var problems []string
			if derived {
				if e1 != "" && e2 != "" {
					if mm, ok := pt.maskToTL2[e2]; !ok || len(mm[e1]) == 0 {
						problems = append(problems, fmt.Sprintf("bits %s and %s are not a presence pair of the readers", e1, e2))
					}
				}
				for b := range exp {
					subject := b
					if i := strings.LastIndex(b, "."); i > 0 {
						subject = b[:i]
					}
					if !allGuards[b] && !allGuards["natarg:"+subject] {
						problems = append(problems, "sets bit "+b+" that no reader/writer tests")
					}
				}
			}
			real := map[string]bool{}
			for b := range a.sets {
				if strings.HasPrefix(b, "!clear-sets:") {
					continue
				}
				real[b] = true
			}
			for b := range exp {
				if !real[b] {
					problems = append(problems, "does not set presence bit "+b)
				}
			}
			for b := range real {
				if !exp[b] {
					problems = append(problems, "sets foreign bit "+b)
				}
			}
			if !a.boolSetter && !a.fieldsSet[field] {
				problems = append(problems, "does not assign field "+field)
			}
			for f := range a.fieldsSet {
				if f != field {
					problems = append(problems, "writes other field "+f)
				}
			}
			sort.Strings(problems)
			c.Ob("accessor/set", construct, len(problems) == 0, pos, fmt.Sprintf("sets %v, expected %v %s", keysOf(real), keysOf(exp), strings.Join(problems, "; ")))
			if e2 != "" {
				prev, dup := tl2Owner[e2]
				c.Ob("accessor/tl2bit-owned-by-one-field", name+"/"+e2, !dup, pos, fmt.Sprintf("fields %s %s", prev, field))
				tl2Owner[e2] = field
			}
		}
		if fi := a.has["clear"]; fi != nil {
			var problems []string
			clr := map[string]bool{}
			for b := range a.clears {
				clr[b] = true
			}
			if a.boolSetter {
				clr = nil
			}
			if clr != nil {
				// clears recorded by the set accessor of a bool setter are mixed in a.clears; for
				// non-bool setters a.clears only holds ClearX's bits
				for b := range exp {
					if !clr[b] {
						problems = append(problems, "does not clear presence bit "+b)
					}
				}
				for b := range clr {
					if !exp[b] {
						problems = append(problems, "clears foreign bit "+b)
					}
				}
			}
			for b := range a.sets {
				if strings.HasPrefix(b, "!clear-sets:") {
					problems = append(problems, "Clear sets bit "+strings.TrimPrefix(b, "!clear-sets:"))
				}
			}
			if !a.fieldsClr[field] {
				problems = append(problems, "does not reset field "+field)
			}
			for f := range a.fieldsClr {
				if f != field {
					problems = append(problems, "writes other field "+f)
				}
			}
			sort.Strings(problems)
			c.Ob("accessor/clear", construct, len(problems) == 0, pos, fmt.Sprintf("clears %v, expected %v %s", keysOf(clr), keysOf(exp), strings.Join(problems, "; ")))
		}
		if a.has["set"] != nil && a.boolSetter {
			// a bool setter sets and clears the same bits
			same := true
			for b := range exp {
				if !a.clears[b] {
					same = false
				}
			}
			for b := range a.clears {
				if !exp[b] {
					same = false
				}
			}
			c.Ob("accessor/bool-setter-symmetric", construct, same, pos, fmt.Sprintf("sets %v clears %v", keysOf(exp), keysOf(a.clears)))
		}
		if fi := a.has["isset"]; fi != nil && a.tested != "?" {
			want := e2
			if !strings.HasPrefix(a.tested, "item.tl2mask") {
				want = e1
			}
			ok := want != "" && want == a.tested
			if a.has["set"] == nil {
				// IsSet without Set (read-only presence): the bit must be one the readers/writers test
				ok = allGuards[a.tested]
				want = "a bit tested by readers/writers"
			}
			c.Ob("accessor/isset", construct, ok, pos, fmt.Sprintf("IsSet tests %s; expected %s", a.tested, want))
		}
	}
}

func sortedKeysAny[V any](m map[string]V) []string { return sortedKeys(m) }

func keysOf(m map[string]bool) []string {
	out := make([]string, 0, len(m))
	for k := range m {
		out = append(out, k)
	}
	sort.Strings(out)
	return out
}

func (g *genCtx) trueTypeExpect(pt *presenceTable, got string) string {
	for tk, m := range pt.maskToTL2 {
		if tk == got {
			return got
		}
		for t := range m {
			if t == got {
				return got
			}
		}
	}
	return ""
}

// unionAccessorRules handles the variant accessors of unions/enums (SetX, IsX, AsX, ResetToX): all of
// them must agree on the variant index, and that index must select the same value field the TL1
// reader fills for that index. Returns false when the family is not a union.
func (g *genCtx) unionAccessorRules(c *Check, name string, roles map[string]*FuncInfo) bool {
	rd := roles["ReadTL1Boxed"]
	if rd == nil {
		return false
	}
	rw, _ := g.wire(rd, tl1ReadCfg, "r")
	var un *WUnion
	findUnions(rw, func(u *WUnion) {
		if un == nil {
			un = u
		}
	})
	isUnion := un != nil
	if !isUnion {
		// TL2-only unions have a stub TL1 reader; recognise them by an index-assigning setter
		for role, fi := range roles {
			if strings.HasPrefix(role, "Set") {
				walkBlock(g.ir(fi).Body, nil, func(n Node, _ []Guard) {
					if a, ok := n.(*AssignN); ok && len(a.LHS) == 1 && a.LHS[0] == "item.index" {
						isUnion = true
					}
				})
			}
		}
	}
	if !isUnion {
		return false
	}
	type va struct {
		idx   map[string]string // accessor kind → index constant
		field map[string]string // accessor kind → value field
		pos   string
	}
	vs := map[string]*va{}
	get := func(v string) *va {
		if vs[v] == nil {
			vs[v] = &va{idx: map[string]string{}, field: map[string]string{}}
		}
		return vs[v]
	}
	for _, role := range sortedKeys(roles) {
		var kind, v string
		switch {
		case strings.HasPrefix(role, "ResetTo"):
			kind, v = "ResetTo", strings.TrimPrefix(role, "ResetTo")
		case strings.HasPrefix(role, "Set"):
			kind, v = "Set", strings.TrimPrefix(role, "Set")
		case strings.HasPrefix(role, "Is") && !strings.HasPrefix(role, "IsSet"):
			kind, v = "Is", strings.TrimPrefix(role, "Is")
		case strings.HasPrefix(role, "As") && role != "AsUnion":
			kind, v = "As", strings.TrimPrefix(role, "As")
		default:
			continue
		}
		fi := roles[role]
		ir := g.ir(fi)
		a := get(v)
		if a.pos == "" {
			a.pos = posStr(g.co.Fset, fi.Decl.Pos())
		}
		note := func(cd *Cond) {
			if cd != nil && cd.Kind == "cmp" && cd.X == "item.index" && strings.HasPrefix(cd.Y, "#") {
				a.idx[kind] = cd.Y
			}
		}
		walkBlock(ir.Body, nil, func(n Node, _ []Guard) {
			switch n := n.(type) {
			case *AssignN:
				for i, l := range n.LHS {
					if l == "item.index" && i < len(n.RHS) {
						a.idx[kind] = n.RHS[i]
					} else if f := fieldOf(l); f != "" && f != "index" {
						a.field[kind] = f
					}
				}
			case *IfN:
				note(n.Cond)
			case *ReturnN:
				for i, e := range n.VE {
					if ir.x.typeOf(e) != nil && isBool(ir.x.typeOf(e)) {
						note(ir.x.cond(e))
					} else if f := fieldOf(n.Vals[i]); f != "" {
						a.field[kind] = f
					}
				}
			case *CallN:
				if f := fieldOf(n.Recv); f != "" {
					a.field[kind] = f
				}
			}
		})
	}
	for _, v := range sortedKeysAny(vs) {
		a := vs[v]
		idxs := map[string]bool{}
		for _, k := range a.idx {
			idxs[k] = true
		}
		flds := map[string]bool{}
		for _, f := range a.field {
			flds[f] = true
		}
		var problems []string
		if len(idxs) != 1 {
			problems = append(problems, fmt.Sprintf("accessors disagree on the variant index: %v", a.idx))
		}
		if len(flds) > 1 {
			problems = append(problems, fmt.Sprintf("accessors disagree on the value field: %v", a.field))
		}
		if un != nil && len(idxs) == 1 && len(flds) == 1 {
			k := keysOf(idxs)[0]
			arm, ok := un.Arms[k]
			if !ok {
				problems = append(problems, "index "+k+" is not a variant of the TL1 reader")
			} else {
				for _, w := range realOps(arm) {
					if cl, ok := w.(*WCall); ok {
						if f := fieldOf(cl.Operand); f != "" && f != keysOf(flds)[0] {
							problems = append(problems, fmt.Sprintf("reader fills %s for index %s, accessors use %s", f, k, keysOf(flds)[0]))
						}
					}
				}
			}
		}
		c.Ob("accessor/union-variant", name+"."+v, len(problems) == 0, a.pos, fmt.Sprintf("index %v field %v %s", keysOf(idxs), keysOf(flds), strings.Join(problems, "; ")))
	}
	return true
}

// maskOpGuards: inside an accessor a presence-bit update may only be conditional on the bool
// argument of a true-type setter, and — for an external TL1 mask reached through a pointer
// parameter — on that pointer being non-nil. Anything else makes Set/Clear/IsSet disagree.
func (g *genCtx) maskOpGuards(c *Check, construct string, s *site) {
	for _, mo := range s.Masks {
		var bad []string
		for _, b := range s.Guards {
			bad = append(bad, "bit("+b.String()+")")
		}
		for _, b := range s.NegG {
			bad = append(bad, "!bit("+b.String()+")")
		}
		for _, o := range s.Other {
			if o == "val" || o == "!val" {
				continue
			}
			if strings.HasPrefix(mo.Target.X, "nat:") && (o == "("+mo.Target.X+" != nil)" || o == "!("+mo.Target.X+" != nil)" && false) {
				continue
			}
			bad = append(bad, o)
		}
		c.Ob("accessor/bit-update-unconditional", construct+"/"+mo.Target.String(), len(bad) == 0, posStr(g.co.Fset, mo.Pos),
			"update of "+mo.Target.String()+" is conditional on "+strings.Join(bad, " && "))
	}
}

var tl2BitUseRx = regexp.MustCompile(`bit\((item\.tl2mask\d+),(\d+)\)`)
var tl2BitSetRx = regexp.MustCompile(`assign (item\.tl2mask\d+) \|= #(\d+)\n`)

// tl2BitsSetByProducers: every hidden presence bit that the TL2/JSON writers test is set somewhere by each
// function that produces a value from another representation (ReadTL1, RepairMasks, ReadJSONGeneral,
// FillRandom) — also when the guarding mask is a constant (specialised types `T 7`), where the guard is
// folded to `if true`. A bit no producer sets makes the field vanish on the way TL1 → TL2.
func (g *genCtx) tl2BitsSetByProducers(c *Check, name string, roles map[string]*FuncInfo) {
	used := map[string]bool{}
	for _, role := range []string{"InternalWriteTL2", "CalculateLayout", "WriteJSONOpt"} {
		if fi := roles[role]; fi != nil {
			for _, m := range tl2BitUseRx.FindAllStringSubmatch(blockText(g.ir(fi).Body), -1) {
				used[m[1]+"|"+m[2]] = true
			}
		}
	}
	if len(used) == 0 {
		return
	}
	for _, role := range []string{"ReadTL1", "RepairMasks", "ReadJSONGeneral", "FillRandom"} {
		fi := roles[role]
		if fi == nil {
			continue
		}
		txt := blockText(g.ir(fi).Body)
		if !strings.Contains(txt, "tl2mask") && (strings.Contains(txt, "call panic") || strings.Contains(txt, "not implemented for tl2 type") || strings.Contains(txt, "ErrorTL2SerializersNotGenerated")) {
			continue // "not generated"/"not implemented" stub of a type that does not exist in this format
		}
		set := map[string]bool{}
		for _, m := range tl2BitSetRx.FindAllStringSubmatch(txt, -1) {
			v, _ := strconv.ParseUint(m[2], 10, 64)
			for j := 0; j < 64; j++ {
				if v == 1<<uint(j) {
					set[m[1]+"|"+strconv.Itoa(j)] = true
				}
			}
		}
		var missing []string
		for u := range used {
			if !set[u] {
				missing = append(missing, strings.Replace(u, "|", " bit ", 1))
			}
		}
		sort.Strings(missing)
		c.Ob("presence/tl2-bit-set-by-every-producer", name+"/"+role, len(missing) == 0, posStr(g.co.Fset, fi.Decl.Pos()), fmt.Sprintf("%d hidden presence bits are tested by the TL2/JSON writers; %s sets all of them somewhere (also under constant guards); never set: %v", len(used), role, missing))
	}
}
