package main

import (
	"fmt"
	"go/token"
	"go/types"
	"regexp"
	"sort"
	"strconv"
	"strings"
)

var tl1ReadCfg = &wireCfg{prims: tl1Prims, callRoles: map[string]string{
	"ReadTL1": "TL1", "ReadTL1Boxed": "TL1Boxed", "ReadResultTL1": "ResultTL1"}}
var tl1WriteCfg = &wireCfg{prims: tl1Prims, callRoles: map[string]string{
	"WriteTL1": "TL1", "WriteTL1Boxed": "TL1Boxed", "WriteTL1General": "TL1", "WriteTL1BoxedGeneral": "TL1Boxed", "WriteResultTL1": "ResultTL1"}}

type genCtx struct {
	c       *Check
	co      *Corpus
	funcs   map[*types.Func]*FuncInfo
	byFam   map[string]map[string]*FuncInfo // family → role → func
	irs     map[*types.Func]*FuncIR
	trivial map[string]*WPrim
}

func newGenCtx(c *Check, co *Corpus) *genCtx {
	g := &genCtx{c: c, co: co, funcs: co.allFuncs(), byFam: map[string]map[string]*FuncInfo{}, irs: map[*types.Func]*FuncIR{}, trivial: map[string]*WPrim{}}
	for fn, fi := range g.funcs {
		fam, role := familyRole(fn)
		if role == "" || isMetaPkg(fi.Pkg.Name) {
			continue
		}
		// families are per package (split-internal corpora have many packages)
		key := fi.Pkg.PkgPath + "." + fam
		if g.byFam[key] == nil {
			g.byFam[key] = map[string]*FuncInfo{}
		}
		g.byFam[key][role] = fi
	}
	return g
}

// isMetaPkg: registry/factory packages of a generated tree (C17's subject, not type families).
func isMetaPkg(name string) bool {
	return name == "metainternal" || name == "meta" || strings.HasPrefix(name, "factory") || name == "constants"
}

func (g *genCtx) ir(fi *FuncInfo) *FuncIR {
	if ir, ok := g.irs[fi.Obj]; ok {
		return ir
	}
	ir := buildFuncIR(fi, g.funcs, g.co.Fset)
	g.irs[fi.Obj] = ir
	return ir
}

func (g *genCtx) wire(fi *FuncInfo, cfg *wireCfg, dir string) ([]W, *wireBuilder) {
	b := &wireBuilder{ir: g.ir(fi), cfg: cfg, co: g.co, funcs: g.funcs, lenOf: map[string]string{}, keysOf: map[string]string{}, locType: map[string]string{}}
	return b.buildFunc(dir), b
}

func (g *genCtx) families() []string {
	out := make([]string, 0, len(g.byFam))
	for k := range g.byFam {
		out = append(out, k)
	}
	sort.Strings(out)
	return out
}

func shortFam(key string) string {
	if i := strings.LastIndex(key, "."); i >= 0 {
		return key[i+1:]
	}
	return key
}

// withCorpora builds the generator from the working tree, emits and loads the corpora and calls f.
func withCorpora(c *Check, inRepo bool, f func(g *genCtx)) {
	ws, err := newWorkspace()
	if err != nil {
		c.Undecided("workspace", "tmp", "", err.Error())
		return
	}
	defer ws.Close()
	corpora, err := ws.BuildCorpora(c, c.Tier, inRepo)
	if err != nil {
		c.Undecided("corpus-build", "tl2gen", "", err.Error())
		return
	}
	nf := 0
	for _, co := range corpora {
		g := newGenCtx(c, co)
		nf += len(g.funcs)
		f(g)
	}
	c.Set("functions_in_corpora", nf)
}

func init() { register("C01", checkC01) }

func checkC01(c *Check) {
	c.Explanation = "For every generated type of every corpus (regenerated from the working tree's generator, plus the checked-in generated packages) the TL1 reader's wire program is extracted from the type-checked AST and compared with the writer's: same primitives in the same order on the same operands, under the same field-mask bit tests, same nat arguments to the same sibling types, same counted loops, same union tag table. Second clause: a reader that sizes a slice by a nat parameter has a writer that returns an error when len != that parameter, and no generated TL1 writer call drops an error result."
	c.NotCovered = "schemas outside the corpus; kernel nat-argument resolution is seen only through reader/writer agreement; primitive byte layouts are C33's subject"
	c.Trusted = []string{"go/types", "tl2gen built from the working tree is run as a compiler only", "basictl primitive duality table (decided in C33)"}
	c.Assumptions = []string{"quantifier 'all schemas' is covered only for the listed corpora; 'all values' is covered because the rule is over all paths of the emitted functions"}
	pairs := [][3]string{{"ReadTL1", "WriteTL1", "tl1-dual/bare"}, {"ReadTL1Boxed", "WriteTL1Boxed", "tl1-dual/boxed"}, {"ReadResultTL1", "WriteResultTL1", "tl1-dual/result"}}
	withCorpora(c, true, func(g *genCtx) {
		for _, fam := range g.families() {
			roles := g.byFam[fam]
			for _, p := range pairs {
				r, w := roles[p[0]], roles[p[1]]
				if r == nil && w == nil {
					continue
				}
				construct := g.co.Spec.Name + ":" + shortFam(fam) + "." + p[0] + "~" + p[1]
				if r == nil || w == nil {
					// bare-only or boxed-only types exist (unions have no bare writer)
					continue
				}
				rw, rb := g.wire(r, tl1ReadCfg, "r")
				ww, wb := g.wire(w, tl1WriteCfg, "w")
				for _, pr := range append(rb.problems, wb.problems...) {
					c.Undecided(p[2], construct, posStr(g.co.Fset, r.Decl.Pos()), pr)
				}
				rs, wsx := wireCanon(rw), wireCanon(ww)
				ok := rs == wsx
				detail := fmt.Sprintf("%d wire ops", strings.Count(rs, "\n"))
				if !ok {
					detail = firstDiff(rs, wsx) + "\n    reader program:\n" + indent(rs, "      ") + "    writer program:\n" + indent(wsx, "      ")
				}
				c.Ob(p[2], construct, ok, posStr(g.co.Fset, r.Decl.Pos()), detail)

				// clause 2: nat-sized reader ⇒ writer guards the length
				for coll, n := range rb.resizes {
					if localRx.MatchString(n) || strings.HasPrefix(n, "#") {
						continue
					}
					found := false
					for _, f := range facts(ww, "guard") {
						if strings.Contains(f.A, "len("+coll+")") && strings.Contains(f.A, n) && strings.Contains(f.A, "!=") {
							found = true
						}
					}
					c.Ob("tl1-write-length-guard", construct, found, posStr(g.co.Fset, w.Decl.Pos()),
						fmt.Sprintf("reader sizes %s by %s; writer must fail when len(%s) != %s", coll, n, coll, n))
				}
			}
		}
		g.arraySizesFromSchema(c)
		// decoded temporaries that are stored into a collection must be fresh per iteration
		for _, fam := range g.families() {
			for _, role := range []string{"ReadTL1", "ReadTL1Boxed"} {
				if fi := g.byFam[fam][role]; fi != nil {
					g.freshTemporaries(c, "tl1-reader-fresh-temporaries", g.co.Spec.Name+":"+shortFam(fam)+"."+role, fi)
				}
			}
		}
		// error discipline: no generated TL1 writer call whose error result is dropped
		for _, fi := range g.funcs {
			_, role := familyRole(fi.Obj)
			if !strings.HasPrefix(role, "WriteTL1") && role != "WriteResultTL1" {
				continue
			}
			ir := g.ir(fi)
			walkBlock(ir.Body, nil, func(n Node, _ []Guard) {
				call, ok := n.(*CallN)
				if !ok || call.Fn == nil {
					return
				}
				if _, gen := g.funcs[call.Fn]; !gen {
					return
				}
				res := call.Fn.Type().(*types.Signature).Results()
				if res.Len() == 0 || !isErrorType(res.At(res.Len()-1).Type()) {
					return
				}
				_, crole := familyRole(call.Fn)
				if !strings.HasPrefix(crole, "Write") {
					return
				}
				ok2 := call.ErrChecked || call.Tail
				c.Ob("tl1-write-error-propagated", g.co.Spec.Name+":"+fi.Name()+"/"+funcDisplayName(call.Fn), ok2,
					posStr(g.co.Fset, call.Pos), "error result of a nested writer must be checked and returned")
			})
		}
	})
	c.Floor("tl1-dual/bare", 300)
	c.Floor("tl1-dual/boxed", 200)
	c.Floor("tl1-dual/result", 20)
	c.Floor("tl1-write-length-guard", 10)
	c.Floor("tl1-write-error-propagated", 50)
	c.Floor("tl1-reader-fresh-temporaries", 10)
	c.Floor("tl1-array-size-from-schema", 20)
}

func indent(s, ind string) string {
	lines := strings.Split(strings.TrimRight(s, "\n"), "\n")
	for i := range lines {
		lines[i] = ind + lines[i]
	}
	return strings.Join(lines, "\n") + "\n"
}

// freshTemporaries: in a reader loop, a local whose content is stored into a map/slice element must be
// declared inside the loop body, so that each iteration decodes into a fresh value (a hoisted
// temporary shares slices/maps between the stored copies).
func (g *genCtx) freshTemporaries(c *Check, rule, construct string, fi *FuncInfo) {
	ir := g.ir(fi)
	var visit func(blk Block)
	visit = func(blk Block) {
		for _, n := range blk {
			switch n := n.(type) {
			case *IfN:
				visit(n.Then)
				visit(n.Else)
			case *SwitchN:
				for _, cs := range n.Cases {
					visit(cs.Body)
				}
			case *LoopN:
				declared := map[string]bool{}
				walkBlock(n.Body, nil, func(m Node, _ []Guard) {
					switch m := m.(type) {
					case *DeclN:
						declared[m.Name] = true
					case *AssignN:
						if m.Tok == token.DEFINE {
							for _, l := range m.LHS {
								declared[l] = true
							}
						}
					case *CallN:
						if m.Expr != nil {
							// `x, err := f()` defines
							for _, r := range m.Results {
								_ = r
							}
						}
					}
				})
				walkBlock(n.Body, nil, func(m Node, _ []Guard) {
					a, ok := m.(*AssignN)
					if !ok || a.Tok != token.ASSIGN || len(a.LHS) != 1 || !strings.Contains(a.LHS[0], "[") || strings.Contains(a.LHS[0], ":") && !strings.Contains(a.LHS[0], "L") {
						return
					}
					if strings.HasSuffix(a.LHS[0], "]") == false {
						return
					}
					for _, loc := range localRx.FindAllString(strings.Join(a.RHS, " "), -1) {
						if strings.Contains(a.LHS[0], "["+loc+"]") {
							continue // the loop index itself
						}
						t := ""
						_ = t
						c.Ob(rule, construct+"/"+stripLocalNo(loc), declared[loc], posStr(g.co.Fset, a.Pos),
							"value stored into "+a.LHS[0]+" comes from local "+loc+", which must be declared inside the loop")
					}
				})
				visit(n.Body)
			}
		}
	}
	visit(ir.Body)
}

func stripLocalNo(l string) string {
	if i := strings.Index(l, ":"); i >= 0 {
		return l[i+1:]
	}
	return l
}

var multiplierRx = regexp.MustCompile(`^(?:[A-Za-z_][A-Za-z0-9_]*\.\d+\?)?([A-Za-z_][A-Za-z0-9_]*)\*\[`)

// jsonKeyFields maps the JSON keys of a struct's ReadJSONGeneral to the receiver fields they fill.
func (g *genCtx) jsonKeyFields(fi *FuncInfo) map[string]string {
	out := map[string]string{}
	if fi == nil {
		return out
	}
	ir := g.ir(fi)
	walkBlock(ir.Body, nil, func(n Node, _ []Guard) {
		sw, ok := n.(*SwitchN)
		if !ok {
			return
		}
		for _, cs := range sw.Cases {
			if cs.Default || len(cs.Vals) != 1 || !strings.HasPrefix(cs.Vals[0], `"`) {
				continue
			}
			key, err := strconv.Unquote(cs.Vals[0])
			if err != nil {
				continue
			}
			// the field is named by a `propXPresented`-style flag only for raw fields; prefer operands
			walkBlock(cs.Body, nil, func(m Node, _ []Guard) {
				if call, ok := m.(*CallN); ok {
					for _, o := range g.operandsOfCall(call) {
						if f := fieldOf(o); f != "" && out[key] == "" {
							out[key] = f
						}
					}
				}
			})
		}
	})
	return out
}

// arraySizesFromSchema: for every field written `name:N*[T]` in the TL1 schema text, the generated TL1
// reader and writer pass N (a sibling field or a template parameter) as the FIRST nat argument of the
// array codec of that field. The schema text is read by the independent scanner (tlscan.go).
func (g *genCtx) arraySizesFromSchema(c *Check) {
	if g.co.InRepo {
		return
	}
	byTLName := map[string]map[string]*FuncInfo{}
	for _, fam := range g.families() {
		roles := g.byFam[fam]
		if m := roles["TLName"]; m != nil {
			if v, ok := g.constReturn(m); ok {
				if n, err := strconv.Unquote(v); err == nil {
					if _, dup := byTLName[n]; !dup || !strings.HasSuffix(fam, "Bytes") {
						byTLName[n] = roles
					}
				}
			}
		}
	}
	for _, sch := range g.co.Spec.Schemas {
		if !strings.HasSuffix(sch, ".tl") {
			continue
		}
		path := sch
		if !strings.HasPrefix(path, "/") {
			path = repoDir + "/" + sch
		}
		decls, err := scanTL1(path)
		if err != nil {
			c.Undecided("tl1-array-size-from-schema", g.co.Spec.Name, path, err.Error())
			continue
		}
		for _, d := range decls {
			roles := byTLName[d.Name]
			if roles == nil {
				continue
			}
			var keys map[string]string
			for _, f := range d.Fields {
				m := multiplierRx.FindStringSubmatch(f.Expr)
				if m == nil {
					continue
				}
				mult := m[1]
				if keys == nil {
					keys = g.jsonKeyFields(roles["ReadJSONGeneral"])
				}
				goField := keys[f.Name]
				if goField == "" {
					continue
				}
				want := "nat:" + mult
				if mf, ok := keys[mult]; ok {
					want = "item." + mf
				} else {
					// a sibling # field has no array operand; find it among struct fields by JSON key
					for _, f2 := range d.Fields {
						if f2.Name == mult {
							want = "item.?" + mult
						}
					}
				}
				for _, r := range []struct {
					role string
					cfg  *wireCfg
					dir  string
				}{{"ReadTL1", tl1ReadCfg, "r"}, {"WriteTL1", tl1WriteCfg, "w"}} {
					fi := roles[r.role]
					if fi == nil {
						continue
					}
					w, _ := g.wire(fi, r.cfg, r.dir)
					var got []string
					found := false
					var scan func(l []W)
					scan = func(l []W) {
						for _, x := range l {
							switch x := x.(type) {
							case *WCall:
								if x.Operand == "item."+goField {
									found, got = true, x.Nat
								}
							case *WIf:
								scan(x.Then)
								scan(x.Else)
							}
						}
					}
					scan(w)
					if !found || len(got) == 0 {
						continue // absent, or instantiated with constant sizes (fixed array)
					}
					ok := len(got) >= 1 && (got[0] == want || strings.HasPrefix(want, "item.?") && strings.EqualFold(strings.ReplaceAll(strings.TrimPrefix(got[0], "item."), "_", ""), strings.ReplaceAll(mult, "_", "")))
					c.Ob("tl1-array-size-from-schema", g.co.Spec.Name+":"+d.Name+"."+f.Name+"/"+r.role, ok, posStr(g.co.Fset, fi.Decl.Pos()),
						fmt.Sprintf("schema: %s:%s — size is %s; generated nat arguments %v", f.Name, f.Expr, mult, got))
				}
			}
		}
	}
}
