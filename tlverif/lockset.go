package main

// E7: lockset over structured code. Walks a function body in program order tracking whether a given
// mutex is held (Lock/Unlock/RLock/RUnlock calls and `defer Unlock`), joining branches conservatively,
// and reports every access to the guarded fields with the lock state at that point.

import (
	"go/ast"
	"go/token"
	"go/types"
	"strings"
)

type lockAccess struct {
	Field string
	Held  bool
	Write bool
	Pos   token.Pos
	Func  string
}

type lockWalker struct {
	info     *types.Info
	mutex    string          // textual mutex expression relative to the receiver, e.g. "s.mu" → matched as "<recv>.mu"
	guarded  map[string]bool // field names
	recvName string
	accesses []lockAccess
	calls    []lockCall // calls of methods on the receiver, with lock state
	fn       string
	problems []string
	deferred bool
}

type lockCall struct {
	Method string
	Held   bool
	Pos    token.Pos
	Func   string
}

type lockState struct {
	held bool
	dead bool // control does not reach here
}

func (w *lockWalker) isMutexCall(call *ast.CallExpr) (op string, ok bool) {
	sel, isSel := call.Fun.(*ast.SelectorExpr)
	if !isSel {
		return "", false
	}
	switch sel.Sel.Name {
	case "Lock", "Unlock", "RLock", "RUnlock":
	default:
		return "", false
	}
	if types.ExprString(sel.X) == w.recvName+"."+w.mutex {
		return sel.Sel.Name, true
	}
	return "", false
}

func (w *lockWalker) scanExpr(e ast.Node, st lockState, write bool) {
	if e == nil {
		return
	}
	ast.Inspect(e, func(n ast.Node) bool {
		switch n := n.(type) {
		case *ast.FuncLit:
			return false // closures run later; analysed separately by callers if needed
		case *ast.SelectorExpr:
			if id, ok := n.X.(*ast.Ident); ok && id.Name == w.recvName && w.guarded[n.Sel.Name] {
				w.accesses = append(w.accesses, lockAccess{Field: n.Sel.Name, Held: st.held, Write: write, Pos: n.Pos(), Func: w.fn})
			}
		case *ast.CallExpr:
			if sel, ok := n.Fun.(*ast.SelectorExpr); ok {
				if id, ok := sel.X.(*ast.Ident); ok && id.Name == w.recvName {
					if _, isM := w.isMutexCall(n); !isM {
						w.calls = append(w.calls, lockCall{Method: sel.Sel.Name, Held: st.held, Pos: n.Pos(), Func: w.fn})
					}
				}
			}
		}
		return true
	})
}

func join(a, b lockState) lockState {
	if a.dead {
		return b
	}
	if b.dead {
		return a
	}
	return lockState{held: a.held && b.held}
}

func (w *lockWalker) block(list []ast.Stmt, st lockState) lockState {
	for _, s := range list {
		st = w.stmt(s, st)
	}
	return st
}

func (w *lockWalker) stmt(s ast.Stmt, st lockState) lockState {
	if st.dead {
		return st
	}
	switch s := s.(type) {
	case *ast.ExprStmt:
		if call, ok := s.X.(*ast.CallExpr); ok {
			if op, isM := w.isMutexCall(call); isM {
				switch op {
				case "Lock", "RLock":
					if st.held {
						w.problems = append(w.problems, "lock acquired while already held")
					}
					st.held = true
				default:
					st.held = false
				}
				return st
			}
			if id, ok := call.Fun.(*ast.Ident); ok && id.Name == "panic" {
				w.scanExpr(call, st, false)
				st.dead = true
				return st
			}
		}
		w.scanExpr(s.X, st, false)
	case *ast.DeferStmt:
		if op, isM := w.isMutexCall(s.Call); isM && (op == "Unlock" || op == "RUnlock") {
			w.deferred = true // held until return
			return st
		}
		w.scanExpr(s.Call, st, false)
	case *ast.AssignStmt:
		for _, r := range s.Rhs {
			w.scanExpr(r, st, false)
		}
		for _, l := range s.Lhs {
			w.scanExpr(l, st, true)
		}
	case *ast.IncDecStmt:
		w.scanExpr(s.X, st, true)
	case *ast.DeclStmt:
		w.scanExpr(s, st, false)
	case *ast.ReturnStmt:
		for _, r := range s.Results {
			w.scanExpr(r, st, false)
		}
		st.dead = true
	case *ast.BranchStmt:
		// break/continue: approximated as leaving the current block with the same state
		if s.Tok == token.GOTO {
			w.problems = append(w.problems, "goto not supported by the lockset walker")
		}
	case *ast.BlockStmt:
		return w.block(s.List, st)
	case *ast.IfStmt:
		if s.Init != nil {
			st = w.stmt(s.Init, st)
		}
		w.scanExpr(s.Cond, st, false)
		a := w.block(s.Body.List, st)
		b := st
		if s.Else != nil {
			b = w.stmt(s.Else, st)
		}
		return join(a, b)
	case *ast.ForStmt:
		if s.Init != nil {
			st = w.stmt(s.Init, st)
		}
		w.scanExpr(s.Cond, st, false)
		out := w.block(s.Body.List, st)
		if !out.dead && out.held != st.held {
			w.problems = append(w.problems, "loop body changes the lock state")
		}
		if s.Post != nil {
			w.stmt(s.Post, st)
		}
		return st
	case *ast.RangeStmt:
		w.scanExpr(s.X, st, false)
		out := w.block(s.Body.List, st)
		if !out.dead && out.held != st.held {
			w.problems = append(w.problems, "loop body changes the lock state")
		}
		return st
	case *ast.SwitchStmt:
		if s.Init != nil {
			st = w.stmt(s.Init, st)
		}
		w.scanExpr(s.Tag, st, false)
		res := lockState{dead: true}
		hasDefault := false
		for _, cc := range s.Body.List {
			cl := cc.(*ast.CaseClause)
			if cl.List == nil {
				hasDefault = true
			}
			for _, e := range cl.List {
				w.scanExpr(e, st, false)
			}
			res = join(res, w.block(cl.Body, st))
		}
		if !hasDefault {
			res = join(res, st)
		}
		return res
	case *ast.TypeSwitchStmt:
		res := lockState{dead: true}
		for _, cc := range s.Body.List {
			cl := cc.(*ast.CaseClause)
			res = join(res, w.block(cl.Body, st))
		}
		return join(res, st)
	case *ast.SelectStmt:
		res := lockState{dead: true}
		for _, cc := range s.Body.List {
			cl := cc.(*ast.CommClause)
			s2 := st
			if cl.Comm != nil {
				s2 = w.stmt(cl.Comm, st)
			}
			res = join(res, w.block(cl.Body, s2))
		}
		return res
	case *ast.GoStmt:
		// the goroutine body runs without the caller's lock
		w.scanExpr(s.Call.Fun, lockState{}, false)
	case *ast.LabeledStmt:
		return w.stmt(s.Stmt, st)
	case *ast.SendStmt:
		w.scanExpr(s.Chan, st, false)
		w.scanExpr(s.Value, st, false)
	}
	return st
}

// walkLockset analyses one method. entryHeld: the lock is held on entry (…Locked helpers).
func walkLockset(fi *FuncInfo, mutex string, guarded map[string]bool, entryHeld bool) *lockWalker {
	w := &lockWalker{info: fi.Pkg.TypesInfo, mutex: mutex, guarded: guarded, fn: fi.Name()}
	if fi.Decl.Recv != nil && len(fi.Decl.Recv.List) == 1 && len(fi.Decl.Recv.List[0].Names) == 1 {
		w.recvName = fi.Decl.Recv.List[0].Names[0].Name
	}
	if w.recvName == "" {
		return w
	}
	w.block(fi.Decl.Body.List, lockState{held: entryHeld})
	if w.deferred {
		// with `defer mu.Unlock()` directly after Lock the lock is held to the end: accesses after the Lock are held
		_ = strings.TrimSpace
	}
	return w
}

// varsOfType returns the names of parameters and locals of fi (other than the receiver) whose type is
// *typeName or typeName (same package as fi).
func varsOfType(fi *FuncInfo, typeName string) []string {
	seen := map[string]bool{}
	var out []string
	recv := ""
	if fi.Decl.Recv != nil && len(fi.Decl.Recv.List) == 1 && len(fi.Decl.Recv.List[0].Names) == 1 {
		recv = fi.Decl.Recv.List[0].Names[0].Name
	}
	ast.Inspect(fi.Decl, func(n ast.Node) bool {
		id, ok := n.(*ast.Ident)
		if !ok {
			return true
		}
		v, ok := fi.Pkg.TypesInfo.Defs[id].(*types.Var)
		if !ok || v.IsField() || id.Name == recv || id.Name == "_" {
			return true
		}
		t := v.Type()
		if p, ok := t.(*types.Pointer); ok {
			t = p.Elem()
		}
		if n, ok := t.(*types.Named); ok && n.Obj().Name() == typeName && n.Obj().Pkg() == fi.Pkg.Types && !seen[id.Name] {
			seen[id.Name] = true
			out = append(out, id.Name)
		}
		return true
	})
	return out
}

// walkLocksetVar analyses accesses through a named variable (not the receiver) of the guarded type.
func walkLocksetVar(fi *FuncInfo, varName, mutex string, guarded map[string]bool) *lockWalker {
	w := &lockWalker{info: fi.Pkg.TypesInfo, mutex: mutex, guarded: guarded, fn: fi.Name(), recvName: varName}
	if fi.Decl.Body != nil {
		w.block(fi.Decl.Body.List, lockState{})
	}
	return w
}
