package main

// E7: lockset over structured code. Walks a function body in program order tracking, per base
// expression of the guarded struct type (the receiver, a parameter, `c.incoming.transport`, …), whether
// that object's mutex is held (Lock/Unlock/RLock/RUnlock calls and deferred unlocks), joining branches
// conservatively, and reports every access to the guarded fields with the lock state at that point.
// Bases are compared textually, resolved through go/types to the guarded type.

import (
	"go/ast"
	"go/token"
	"go/types"
	"sort"
	"strings"
)

type lockAccess struct {
	Field string
	Held  bool
	Write bool
	Pos   token.Pos
	Func  string
	Base  string
}

type lockWalker struct {
	info     *types.Info
	typeName string // guarded struct type
	typePkg  *types.Package
	mutex    string          // mutex field name
	guarded  map[string]bool // field names
	recvName string
	accesses []lockAccess
	calls    []lockCall // calls of methods on a base of the guarded type, with lock state
	fn       string
	problems []string
	deferred map[string]bool // bases with a deferred unlock
	// exits: lock state (of the receiver) at every function exit together with the first returned expression
	exits []lockExit
	// summaries: methods of the guarded type whose exit lock state differs from their entry state in
	// the correlated form "still held iff first result is nil" (value "condNil")
	summaries map[string]string
}

type lockExit struct {
	Held    bool
	Res0Nil bool // first result is the literal nil
	HasRes  bool
	Pos     token.Pos
}

type lockCall struct {
	Method string
	Held   bool
	Pos    token.Pos
	Func   string
}

// lockState: the set of bases whose mutex is held, encoded as a sorted "\x00"-joined string so that the
// state is a value.
type lockState struct {
	held string
	dead bool // control does not reach here
	// cond != "": the lock of condBase is held iff the local variable cond is nil (set by a call to a
	// condNil method); until a test on that variable resolves it, the lock counts as not held.
	cond     string
	condBase string
}

func (s lockState) has(base string) bool {
	if base == "" {
		return false
	}
	for _, b := range strings.Split(s.held, "\x00") {
		if b == base {
			return true
		}
	}
	return false
}

func (s lockState) with(base string, on bool) lockState {
	set := map[string]bool{}
	for _, b := range strings.Split(s.held, "\x00") {
		if b != "" {
			set[b] = true
		}
	}
	if on {
		set[base] = true
	} else {
		delete(set, base)
	}
	keys := make([]string, 0, len(set))
	for k := range set {
		keys = append(keys, k)
	}
	sort.Strings(keys)
	s.held = strings.Join(keys, "\x00")
	return s
}

func join(a, b lockState) lockState {
	if a.dead {
		return b
	}
	if b.dead {
		return a
	}
	out := lockState{}
	for _, x := range strings.Split(a.held, "\x00") {
		if x != "" && b.has(x) {
			out = out.with(x, true)
		}
	}
	if a.cond != "" && a.cond == b.cond && a.condBase == b.condBase {
		out.cond, out.condBase = a.cond, a.condBase
	}
	return out
}

func (w *lockWalker) isGuardedType(t types.Type) bool {
	if p, isP := t.(*types.Pointer); isP {
		t = p.Elem()
	}
	n, isN := t.(*types.Named)
	return isN && n.Obj().Name() == w.typeName && n.Obj().Pkg() == w.typePkg
}

// baseOf: if e denotes an object of the guarded type (value or pointer), or of a struct that embeds it,
// its textual form.
func (w *lockWalker) baseOf(e ast.Expr) (string, bool) {
	e = ast.Unparen(e)
	var t types.Type
	if tv, ok := w.info.Types[e]; ok {
		t = tv.Type
	} else if id, isId := e.(*ast.Ident); isId {
		if obj := w.info.Uses[id]; obj != nil {
			t = obj.Type()
		}
	}
	if t == nil {
		return "", false
	}
	if w.isGuardedType(t) {
		return types.ExprString(e), true
	}
	if p, isP := t.(*types.Pointer); isP {
		t = p.Elem()
	}
	if n, isN := t.(*types.Named); isN {
		if st, isS := n.Underlying().(*types.Struct); isS {
			for i := 0; i < st.NumFields(); i++ {
				if f := st.Field(i); f.Embedded() && w.isGuardedType(f.Type()) {
					return types.ExprString(e), true
				}
			}
		}
	}
	return "", false
}

func (w *lockWalker) isMutexCall(call *ast.CallExpr) (op, base string, ok bool) {
	sel, isSel := call.Fun.(*ast.SelectorExpr)
	if !isSel {
		return "", "", false
	}
	switch sel.Sel.Name {
	case "Lock", "Unlock", "RLock", "RUnlock":
	default:
		return "", "", false
	}
	msel, isSel := ast.Unparen(sel.X).(*ast.SelectorExpr)
	if !isSel || msel.Sel.Name != w.mutex {
		return "", "", false
	}
	if b, isBase := w.baseOf(msel.X); isBase {
		return sel.Sel.Name, b, true
	}
	return "", "", false
}

func (w *lockWalker) scanExpr(e ast.Node, st lockState, write bool) {
	if e == nil {
		return
	}
	ast.Inspect(e, func(n ast.Node) bool {
		switch n := n.(type) {
		case *ast.FuncLit:
			return false // closures run later; analysed separately by callers if needed
		case *ast.SelectorExpr:
			if w.guarded[n.Sel.Name] {
				if b, ok := w.baseOf(n.X); ok {
					if s := w.info.Selections[n]; s == nil || s.Kind() == types.FieldVal {
						w.accesses = append(w.accesses, lockAccess{Field: n.Sel.Name, Held: st.has(b), Write: write, Pos: n.Pos(), Func: w.fn, Base: b})
					}
				}
			}
		case *ast.CallExpr:
			if sel, ok := n.Fun.(*ast.SelectorExpr); ok {
				if b, ok := w.baseOf(sel.X); ok {
					if s := w.info.Selections[sel]; s != nil && s.Kind() == types.MethodVal {
						w.calls = append(w.calls, lockCall{Method: sel.Sel.Name, Held: st.has(b), Pos: n.Pos(), Func: w.fn})
					}
				}
			}
		}
		return true
	})
}

// nilTest recognises `x != nil` / `x == nil` on a plain identifier.
func nilTest(e ast.Expr) (name string, isNotNil bool, ok bool) {
	be, isB := ast.Unparen(e).(*ast.BinaryExpr)
	if !isB || (be.Op != token.NEQ && be.Op != token.EQL) {
		return "", false, false
	}
	x, y := ast.Unparen(be.X), ast.Unparen(be.Y)
	if id, isId := y.(*ast.Ident); !isId || id.Name != "nil" {
		return "", false, false
	}
	id, isId := x.(*ast.Ident)
	if !isId {
		return "", false, false
	}
	return id.Name, be.Op == token.NEQ, true
}

// summarisedCall: `base.m(...)` where m has a conditional lock summary.
func (w *lockWalker) summarisedCall(e ast.Expr) (kind, base string, ok bool) {
	call, isCall := ast.Unparen(e).(*ast.CallExpr)
	if !isCall {
		return "", "", false
	}
	sel, isSel := call.Fun.(*ast.SelectorExpr)
	if !isSel {
		return "", "", false
	}
	b, isBase := w.baseOf(sel.X)
	if !isBase {
		return "", "", false
	}
	s, has := w.summaries[sel.Sel.Name]
	return s, b, has
}

func (w *lockWalker) block(list []ast.Stmt, st lockState) lockState {
	for _, s := range list {
		st = w.stmt(s, st)
	}
	return st
}

func (w *lockWalker) stmt(s ast.Stmt, st lockState) lockState {
	if st.dead {
		return st
	}
	switch s := s.(type) {
	case *ast.ExprStmt:
		if call, ok := s.X.(*ast.CallExpr); ok {
			if op, base, isM := w.isMutexCall(call); isM {
				switch op {
				case "Lock", "RLock":
					if st.has(base) {
						w.problems = append(w.problems, "lock of "+base+" acquired while already held")
					}
					st = st.with(base, true)
				default:
					st = st.with(base, false)
				}
				if st.condBase == base {
					st.cond, st.condBase = "", ""
				}
				return st
			}
			if id, ok := call.Fun.(*ast.Ident); ok && id.Name == "panic" {
				w.scanExpr(call, st, false)
				st.dead = true
				return st
			}
		}
		if _, _, ok := w.summarisedCall(s.X); ok {
			w.problems = append(w.problems, "result of a method with a conditional lock summary is discarded")
		}
		w.scanExpr(s.X, st, false)
	case *ast.DeferStmt:
		if op, base, isM := w.isMutexCall(s.Call); isM && (op == "Unlock" || op == "RUnlock") {
			w.deferred[base] = true // held until return
			return st
		}
		if fl, ok := s.Call.Fun.(*ast.FuncLit); ok {
			found := false
			ast.Inspect(fl.Body, func(n ast.Node) bool {
				if c, ok := n.(*ast.CallExpr); ok {
					if op, base, isM := w.isMutexCall(c); isM && (op == "Unlock" || op == "RUnlock") {
						w.deferred[base] = true
						found = true
					}
				}
				return true
			})
			if found {
				return st
			}
		}
		w.scanExpr(s.Call, st, false)
	case *ast.AssignStmt:
		for _, r := range s.Rhs {
			w.scanExpr(r, st, false)
		}
		for _, l := range s.Lhs {
			w.scanExpr(l, st, true)
		}
		if len(s.Rhs) == 1 {
			if kind, base, ok := w.summarisedCall(s.Rhs[0]); ok && kind == "condNil" {
				if id, isId := s.Lhs[0].(*ast.Ident); isId && st.has(base) {
					st = st.with(base, false)
					st.cond, st.condBase = id.Name, base
				} else {
					w.problems = append(w.problems, "call of a method with a conditional lock summary in an unsupported form")
				}
			}
		}
	case *ast.IncDecStmt:
		w.scanExpr(s.X, st, true)
	case *ast.DeclStmt:
		w.scanExpr(s, st, false)
	case *ast.ReturnStmt:
		for _, r := range s.Results {
			w.scanExpr(r, st, false)
		}
		ex := lockExit{Held: st.has(w.recvName), Pos: s.Pos()}
		if len(s.Results) > 0 {
			ex.HasRes = true
			if id, ok := ast.Unparen(s.Results[0]).(*ast.Ident); ok && id.Name == "nil" {
				ex.Res0Nil = true
			}
		}
		w.exits = append(w.exits, ex)
		st.dead = true
	case *ast.BranchStmt:
		// break/continue: approximated as leaving the current block with the same state
		if s.Tok == token.GOTO {
			w.problems = append(w.problems, "goto not supported by the lockset walker")
		}
	case *ast.BlockStmt:
		return w.block(s.List, st)
	case *ast.IfStmt:
		if s.Init != nil {
			st = w.stmt(s.Init, st)
		}
		w.scanExpr(s.Cond, st, false)
		sa, sb := st, st
		if st.cond != "" {
			if name, notNil, ok := nilTest(s.Cond); ok && name == st.cond {
				base := st.condBase
				sa, sb = st.with(base, !notNil), st.with(base, notNil)
				sa.cond, sa.condBase, sb.cond, sb.condBase = "", "", "", ""
			}
		}
		a := w.block(s.Body.List, sa)
		b := sb
		if s.Else != nil {
			b = w.stmt(s.Else, sb)
		}
		return join(a, b)
	case *ast.ForStmt:
		if s.Init != nil {
			st = w.stmt(s.Init, st)
		}
		w.scanExpr(s.Cond, st, false)
		out := w.block(s.Body.List, st)
		if !out.dead && out.held != st.held {
			w.problems = append(w.problems, "loop body changes the lock state")
		}
		if s.Post != nil {
			w.stmt(s.Post, st)
		}
		if s.Cond == nil && !hasBreakOut(s.Body) {
			st.dead = true // `for { … }` without a break never falls through
		}
		return st
	case *ast.RangeStmt:
		w.scanExpr(s.X, st, false)
		out := w.block(s.Body.List, st)
		if !out.dead && out.held != st.held {
			w.problems = append(w.problems, "loop body changes the lock state")
		}
		return st
	case *ast.SwitchStmt:
		if s.Init != nil {
			st = w.stmt(s.Init, st)
		}
		w.scanExpr(s.Tag, st, false)
		res := lockState{dead: true}
		hasDefault := false
		for _, cc := range s.Body.List {
			cl := cc.(*ast.CaseClause)
			if cl.List == nil {
				hasDefault = true
			}
			for _, e := range cl.List {
				w.scanExpr(e, st, false)
			}
			res = join(res, w.block(cl.Body, st))
		}
		if !hasDefault {
			res = join(res, st)
		}
		return res
	case *ast.TypeSwitchStmt:
		res := lockState{dead: true}
		for _, cc := range s.Body.List {
			cl := cc.(*ast.CaseClause)
			res = join(res, w.block(cl.Body, st))
		}
		return join(res, st)
	case *ast.SelectStmt:
		res := lockState{dead: true}
		for _, cc := range s.Body.List {
			cl := cc.(*ast.CommClause)
			s2 := st
			if cl.Comm != nil {
				s2 = w.stmt(cl.Comm, st)
			}
			res = join(res, w.block(cl.Body, s2))
		}
		return res
	case *ast.GoStmt:
		// the goroutine body runs without the caller's lock
		w.scanExpr(s.Call.Fun, lockState{}, false)
		if fl, ok := s.Call.Fun.(*ast.FuncLit); ok {
			saved := w.exits
			w.block(fl.Body.List, lockState{})
			w.exits = saved
		}
	case *ast.LabeledStmt:
		return w.stmt(s.Stmt, st)
	case *ast.SendStmt:
		w.scanExpr(s.Chan, st, false)
		w.scanExpr(s.Value, st, false)
	}
	return st
}

// walkLockset analyses one function. typeName names the guarded struct type (in fi's package);
// entryHeld: the receiver's lock is held on entry (…Locked helpers).
func walkLockset(fi *FuncInfo, typeName, mutex string, guarded map[string]bool, entryHeld bool, summaries map[string]string) *lockWalker {
	w := &lockWalker{info: fi.Pkg.TypesInfo, typeName: typeName, typePkg: fi.Pkg.Types, mutex: mutex, guarded: guarded, fn: fi.Name(), summaries: summaries, deferred: map[string]bool{}}
	if fi.Decl.Recv != nil && len(fi.Decl.Recv.List) == 1 && len(fi.Decl.Recv.List[0].Names) == 1 {
		w.recvName = fi.Decl.Recv.List[0].Names[0].Name
	}
	if fi.Decl.Body == nil {
		return w
	}
	st := lockState{}
	if entryHeld && w.recvName != "" {
		st = st.with(w.recvName, true)
	}
	end := w.block(fi.Decl.Body.List, st)
	if !end.dead {
		w.exits = append(w.exits, lockExit{Held: end.has(w.recvName), Pos: fi.Decl.Body.Rbrace})
	}
	if w.deferred[w.recvName] {
		// the deferred Unlock runs at every exit
		for i := range w.exits {
			w.exits[i].Held = false
		}
	}
	return w
}

// exitSummary classifies the exits of a method analysed with the given entry state:
// "preserve" (every exit has the entry state), "condNil" (entered held; exits that released the lock
// return a non-nil first result and exits that kept it return nil), or "changes" (anything else).
func exitSummary(w *lockWalker, entryHeld bool) string {
	same := true
	for _, e := range w.exits {
		if e.Held != entryHeld {
			same = false
		}
	}
	if same {
		return "preserve"
	}
	if entryHeld {
		ok := true
		for _, e := range w.exits {
			if !e.HasRes || e.Held != e.Res0Nil {
				ok = false
			}
		}
		if ok {
			return "condNil"
		}
	}
	return "changes"
}

// hasBreakOut: the loop body contains a break that can leave this loop (an unlabelled break not nested
// in an inner for/switch/select, or any labelled break or goto).
func hasBreakOut(body *ast.BlockStmt) bool {
	found := false
	var visit func(n ast.Node, nested bool)
	visit = func(n ast.Node, nested bool) {
		ast.Inspect(n, func(m ast.Node) bool {
			if m == n {
				return true
			}
			switch m := m.(type) {
			case *ast.FuncLit:
				return false
			case *ast.ForStmt:
				visit(m.Body, true)
				return false
			case *ast.RangeStmt:
				visit(m.Body, true)
				return false
			case *ast.SwitchStmt:
				visit(m.Body, true)
				return false
			case *ast.TypeSwitchStmt:
				visit(m.Body, true)
				return false
			case *ast.SelectStmt:
				visit(m.Body, true)
				return false
			case *ast.BranchStmt:
				if m.Tok == token.GOTO || (m.Tok == token.BREAK && (m.Label != nil || !nested)) {
					found = true
				}
			}
			return true
		})
	}
	visit(body, false)
	return found
}
