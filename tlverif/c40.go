package main

import (
	"fmt"
	"go/token"
	"go/types"
	"regexp"
	"sort"
	"strings"
)

func init() { register("C40", checkC40) }

var tagLitRx = regexp.MustCompile(`lit:(\w+)\{\}\.TLTag\(\)`)

// inlinedWrapper: one hand-inlined wrapper occurrence: the wrapper type and the ops that follow its tag.
type inlinedWrapper struct {
	Type string
	Ops  []string // "long", "call Family/TL1" …
	Pos  string
}

func opKindsOfCalls(calls []*CallN) []string {
	var out []string
	for _, cl := range calls {
		if cl.Fn == nil {
			continue
		}
		name := cl.Fn.Name()
		if isBasictl(cl.Fn.Pkg()) {
			if ps, ok := tl1Prims[name]; ok {
				out = append(out, ps.Kind)
			}
			continue
		}
		fam, role := familyRole(cl.Fn)
		switch role {
		case "ReadTL1", "WriteTL1":
			out = append(out, "call "+fam+"/TL1")
		case "ReadTL1Boxed", "WriteTL1Boxed":
			out = append(out, "call "+fam+"/TL1Boxed")
		}
	}
	return out
}

func checkC40(c *Check) {
	c.Explanation = "RPC header extras, decided on pkg/rpc/rpc_format.go together with the generated types it inlines (pkg/rpc/internal/gen): (1) each hand-inlined wrapper — write side NatWrite(T tag) followed by field writes, read side `case T tag:` followed by field reads — has exactly the wire program of the generated T.WriteTL1 / T.ReadTL1 (same primitives in the same order, same nested type), so the optimisation did not change the format; (2) the set of wrapper tags the writers can emit is contained in the set the opposite reader handles, for requests (preparePacket → ParseInvokeReq) and responses (prepareResponseBody → parseResponseExtra); (3) the TL2 marker is written after every other wrapper and the readers require it last; (4) field mapping is one-to-one: ActorID↔hctx.actorID, Extra↔hctx.RequestExtra, hctx.ResponseExtra↔extra, error code/description ↔ RpcReqResultError{ErrorCode,Error} ↔ Error{Code,Description}."
	c.NotCovered = "`ResponseExtra.Flags &= requestExtraFieldsmask` is documented masking (returns only fields the client understands), not a violation; transport; the generated Extra codecs themselves (C01)"
	c.Trusted = []string{"go/types", "C01 for the generated codecs"}
	co, err := loadRepoCorpus("./pkg/rpc", "./pkg/rpc/internal/gen/...")
	if err != nil {
		c.Undecided("load", "pkg/rpc", "", err.Error())
		return
	}
	g := newGenCtx(c, co)
	r := &repoCtx{c: c, co: co, funcs: map[string]*FuncInfo{}}
	for _, fi := range g.funcs {
		r.funcs[strings.TrimPrefix(fi.Pkg.PkgPath, "github.com/VKCOM/tl/")+"."+fi.Name()] = fi
	}
	// generated wrapper programs: family → ops of WriteTL1 / ReadTL1, and tag constant
	genOps := func(fam, role string, cfg *wireCfg, dir string) ([]string, bool) {
		for key, roles := range g.byFam {
			if shortFam(key) != fam {
				continue
			}
			fi := roles[role]
			if fi == nil {
				return nil, false
			}
			w, _ := g.wire(fi, cfg, dir)
			var out []string
			for _, op := range realOps(w) {
				switch op := op.(type) {
				case *WPrim:
					out = append(out, op.Kind)
				case *WCall:
					out = append(out, "call "+op.Family+"/"+op.Role)
				default:
					out = append(out, "?")
				}
			}
			return out, true
		}
		return nil, false
	}
	P := "pkg/rpc."
	// ---- write side: collect inlined wrappers and emitted tags
	emitted := map[string]map[string]bool{"request": {}, "response": {}}
	collectWrite := func(fn, side string) {
		ir := r.ir(P + fn)
		if ir == nil {
			return
		}
		var visit func(blk Block)
		visit = func(blk Block) {
			for i := 0; i < len(blk); i++ {
				switch n := blk[i].(type) {
				case *IfN:
					visit(n.Then)
					visit(n.Else)
				case *SwitchN:
					for _, cs := range n.Cases {
						visit(cs.Body)
					}
				case *CallN:
					if n.Fn == nil {
						continue
					}
					if n.Fn.Name() == "NatWrite" && len(n.Args) == 2 {
						m := tagLitRx.FindStringSubmatch(n.Args[1])
						if m == nil {
							continue
						}
						emitted[side][m[1]] = true
						// following calls in the same block belong to the inlined wrapper
						var follow []*CallN
						for _, nx := range blk[i+1:] {
							if cn, ok := nx.(*CallN); ok && cn.Fn != nil && (isBasictl(cn.Fn.Pkg()) || g.funcs[cn.Fn] != nil) && cn.Fn.Name() != "NatWrite" {
								follow = append(follow, cn)
							} else {
								break
							}
						}
						got := opKindsOfCalls(follow)
						want, ok := genOps(m[1], "WriteTL1", tl1WriteCfg, "w")
						if !ok {
							c.Undecided("extras/inlined-writer-equals-generated", fn+"/"+m[1], r.pos(n.Pos), "generated type "+m[1]+" not found")
							continue
						}
						c.Ob("extras/inlined-writer-equals-generated", fn+"/"+m[1], strings.Join(got, ",") == strings.Join(want, ","), r.pos(n.Pos),
							fmt.Sprintf("hand-inlined after the tag: %v; generated %s.WriteTL1: %v", got, m[1], want))
					}
					if fam, role := familyRole(n.Fn); role == "WriteTL1Boxed" && g.funcs[n.Fn] != nil {
						emitted[side][fam] = true
					}
				}
			}
		}
		visit(ir.Body)
	}
	collectWrite("preparePacket", "request")
	collectWrite("HandlerContext.prepareResponseBody", "response")
	// ---- read side
	handled := map[string]map[string]bool{"request": {}, "response": {}}
	collectRead := func(fn, side string) {
		ir := r.ir(P + fn)
		if ir == nil {
			return
		}
		walkBlock(ir.Body, nil, func(n Node, _ []Guard) {
			switch n := n.(type) {
			case *SwitchN:
				for _, cs := range n.Cases {
					for _, v := range cs.Vals {
						m := tagLitRx.FindStringSubmatch(v)
						if m == nil {
							continue
						}
						handled[side][m[1]] = true
						var calls []*CallN
						for _, nx := range cs.Body {
							if cn, ok := nx.(*CallN); ok && cn.Fn != nil && (isBasictl(cn.Fn.Pkg()) || g.funcs[cn.Fn] != nil) {
								calls = append(calls, cn)
							}
						}
						got := opKindsOfCalls(calls)
						want, ok := genOps(m[1], "ReadTL1", tl1ReadCfg, "r")
						if !ok {
							c.Undecided("extras/inlined-reader-equals-generated", fn+"/"+m[1], r.pos(cs.Pos), "generated type "+m[1]+" not found")
							continue
						}
						// a reader may delegate to the generated reader of the wrapper itself
						deleg := len(got) == 1 && got[0] == "call "+m[1]+"/TL1"
						c.Ob("extras/inlined-reader-equals-generated", fn+"/"+m[1], deleg || strings.Join(got, ",") == strings.Join(want, ","), r.pos(cs.Pos),
							fmt.Sprintf("after the tag the reader does %v; generated %s.ReadTL1: %v", got, m[1], want))
					}
				}
			case *IfN:
				if m := tagLitRx.FindStringSubmatch(n.Cond.String()); m != nil {
					handled[side][m[1]] = true
				}
			}
		})
	}
	collectRead("HandlerContext.ParseInvokeReq", "request")
	collectRead("parseResponseExtra", "response")
	for _, side := range []string{"request", "response"} {
		var em, hd []string
		for t := range emitted[side] {
			em = append(em, t)
		}
		for t := range handled[side] {
			hd = append(hd, t)
		}
		sort.Strings(em)
		sort.Strings(hd)
		for _, t := range em {
			if t == "RpcInvokeReqHeader" || t == "RpcReqResultHeader" {
				continue
			}
			c.Ob("extras/emitted-tags-are-handled", side+"/"+t, handled[side][t], "", fmt.Sprintf("%s writers can emit %v; the %s reader handles %v", side, em, side, hd))
		}
	}
	// ---- TL2 marker last
	if ir := r.ir(P + "preparePacket"); ir != nil {
		last := -1
		marker := -1
		for i, n := range ir.Body {
			walkBlock(Block{n}, nil, func(m Node, _ []Guard) {
				if cn, ok := m.(*CallN); ok && cn.Fn != nil && cn.Fn.Name() == "NatWrite" || ok && cn.Fn != nil && strings.HasPrefix(cn.Fn.Name(), "WriteTL1") {
					last = i
					if strings.Contains(strings.Join(cn.Args, ","), "RpcTL2Marker") {
						marker = i
					}
				}
			})
		}
		c.Ob("extras/tl2-marker-written-last", "preparePacket", marker >= 0 && marker == last, r.pos(ir.Info.Decl.Pos()), "the TL2 marker is the last wrapper written to the request header")
	}
	if ir := r.ir(P + "HandlerContext.prepareResponseBody"); ir != nil {
		last, marker := -1, -1
		for i, n := range ir.Body {
			walkBlock(Block{n}, nil, func(m Node, _ []Guard) {
				if cn, ok := m.(*CallN); ok && cn.Fn != nil && (cn.Fn.Name() == "NatWrite" || strings.HasPrefix(cn.Fn.Name(), "WriteTL1")) {
					last = i
					if strings.Contains(strings.Join(cn.Args, ","), "RpcTL2Marker") {
						marker = i
					}
				}
			})
		}
		c.Ob("extras/tl2-marker-written-last", "prepareResponseBody", marker >= 0 && marker == last, r.pos(ir.Info.Decl.Pos()), "the TL2 marker is the last wrapper written to the response header")
	}
	if ir := r.ir(P + "HandlerContext.ParseInvokeReq"); ir != nil {
		txt := irText(ir)
		ok := strings.Count(txt, "assign $ = true") >= 3 && regexp.MustCompile(`if \$\n\s+call Errorf recv=\("rpc: TL2 marker is not last`).MatchString(txt)
		c.Ob("extras/tl2-marker-required-last", "ParseInvokeReq", ok, r.pos(ir.Info.Decl.Pos()), "every other wrapper seen after the TL2 marker sets the flag that makes the request fail")
		dup := regexp.MustCompile(`if or\(\(#1 < \$\),\(#1 < \$\)\)`).MatchString(txt) && regexp.MustCompile(`if \(#1 < \$\)`).MatchString(txt)
		c.Ob("extras/duplicate-wrappers-rejected", "ParseInvokeReq", dup, r.pos(ir.Info.Decl.Pos()), "actor id, extra or TL2 marker given twice is an error")
		mapping := strings.Contains(txt, "call basictl.LongRead recv=($, item.actorID)") && strings.Contains(txt, "call RpcInvokeReqExtra.ReadTL1 recv=item.RequestExtra($)") && strings.Contains(txt, "assign item.actorID = $.ActorId") && strings.Contains(txt, "assign item.queryID = $.QueryId")
		c.Ob("extras/request-field-mapping", "ParseInvokeReq", mapping, r.pos(ir.Info.Decl.Pos()), "actor id → hctx.actorID, extra → hctx.RequestExtra, query id → hctx.queryID")
	}
	// the server writes the TL2 marker only in front of a successful result (an error is written without it), so the
	// client may insist on the marker only after it has tried the error forms: the error decoding switch comes before
	// the marker test in parseResponseExtra
	if ir := r.ir(P + "parseResponseExtra"); ir != nil {
		errSwitch, markerTest := -1, -1
		for i, n := range ir.Body {
			switch n := n.(type) {
			case *SwitchN:
				errs := 0
				for _, cs := range n.Cases {
					for _, m := range cs.Body {
						if rt, ok := m.(*ReturnN); ok && len(rt.Vals) == 2 && strings.HasPrefix(rt.Vals[1], "lit:Error{") {
							errs++
						}
					}
				}
				if errs >= 3 && errSwitch < 0 {
					errSwitch = i
				}
			case *IfN:
				if strings.Contains(blockText(n.Then), "RpcTL2Marker{}.TLTag()") && markerTest < 0 {
					markerTest = i
				}
			}
		}
		c.Ob("extras/errors-decoded-before-tl2-marker-is-required", "parseResponseExtra", errSwitch >= 0 && markerTest > errSwitch, r.pos(ir.Info.Decl.Pos()), fmt.Sprintf("switch decoding the three error forms at top-level statement %d, TL2 marker requirement at %d", errSwitch, markerTest))
	}
	if ir := r.ir(P + "preparePacket"); ir != nil {
		txt := irText(ir)
		mapping := strings.Contains(txt, "call basictl.LongWrite recv=($, val.ActorID)") && strings.Count(txt, "call RpcInvokeReqExtra.WriteTL1 recv=val.Extra($)") == 2 && strings.Contains(txt, "lit:RpcDestActor{ActorId:val.ActorID}") && strings.Contains(txt, "lit:RpcInvokeReqHeader{QueryId:val.queryID}")
		c.Ob("extras/request-field-mapping", "preparePacket", mapping, r.pos(ir.Info.Decl.Pos()), "req.ActorID and req.Extra are what is written; query id is req.queryID")
		guards := strings.Contains(txt, "case and(nz(val.ActorID),nz(val.Extra.Flags)):") && strings.Contains(txt, "case nz(val.Extra.Flags):") && strings.Contains(txt, "case nz(val.ActorID):")
		c.Ob("extras/request-wrapper-selection", "preparePacket", guards, r.pos(ir.Info.Decl.Pos()), "actor+flags, flags only, actor only: every non-empty combination is written")
	}
	if ir := r.ir(P + "HandlerContext.prepareResponseBody"); ir != nil {
		txt := irText(ir)
		mapping := strings.Contains(txt, "call RpcReqResultExtra.WriteTL1 recv=item.ResponseExtra($)") && strings.Contains(txt, "ErrorCode:$.Code") && strings.Contains(txt, "Error:$.Description") && strings.Contains(txt, "QueryId:item.queryID")
		c.Ob("extras/response-field-mapping", "prepareResponseBody", mapping, r.pos(ir.Info.Decl.Pos()), "hctx.ResponseExtra is written; error code/description go to RpcReqResultError.ErrorCode/Error")
	}
	if ir := r.ir(P + "parseResponseExtra"); ir != nil {
		txt := irText(ir)
		mapping := strings.Contains(txt, "call RpcReqResultExtra.ReadTL1 recv=val2($)") && strings.Count(txt, "lit:Error{Code:$.ErrorCode,Description:$.Error}") == 3
		c.Ob("extras/response-field-mapping", "parseResponseExtra", mapping, r.pos(ir.Info.Decl.Pos()), "extra is read into the caller's ResponseExtra; ErrorCode/Error come back as Error{Code,Description}")
		tl2 := regexp.MustCompile(`if val\n\s+if \(\$ != lit:RpcTL2Marker\{\}\.TLTag\(\)\)\n\s+return val3, fmt\.Errorf`).MatchString(txt)
		c.Ob("extras/tl2-marker-required-last", "parseResponseExtra", tl2, r.pos(ir.Info.Decl.Pos()), "a TL2 request requires the TL2 marker right before the body")
	}
	// ---- who may write the extras between the user's code and the wire
	var rpcFuncs []*FuncInfo
	for name, fi := range r.funcs {
		if strings.HasPrefix(name, "pkg/rpc.") {
			rpcFuncs = append(rpcFuncs, fi)
		}
	}
	sort.Slice(rpcFuncs, func(i, j int) bool { return rpcFuncs[i].Name() < rpcFuncs[j].Name() })
	tracked := map[string]bool{"Request.Extra": true, "Request.ActorID": true, "HandlerContext.RequestExtra": true, "HandlerContext.ResponseExtra": true, "handlerContextFields.actorID": true, "Response.Extra": true}
	seenW := map[string]int{}
	for _, w := range fieldWriters(rpcFuncs, tracked) {
		key := w.Func + "/" + w.Field + "/" + w.How
		seenW[key]++
		reason, ok := extrasWriters[key]
		c.Ob("extras/who-may-write", key, ok, r.pos(w.Pos), fmt.Sprintf("%s writes %s (%s): %s", w.Func, w.Field, w.How, orStr(reason, "not in the table of triaged writers: a write between the user's value and the wire (or between the wire and the user's view) changes what arrives")))
	}
	for key := range extrasWriters {
		if seenW[key] == 0 {
			c.Info("table entry %s no longer matches any write (code moved)", key)
		}
	}
	// the client's context injection must not overwrite what the caller set
	if ir := r.ir(P + "ClientImpl.prepareCall"); ir != nil {
		walkBlock(ir.Body, nil, func(n Node, gs []Guard) {
			cn, ok := n.(*CallN)
			if !ok || cn.Fn == nil || !strings.HasPrefix(cn.Fn.Name(), "Set") || !strings.HasSuffix(cn.Recv, ".Extra") {
				return
			}
			want := "!" + cn.Recv + ".IsSet" + strings.TrimPrefix(cn.Fn.Name(), "Set") + "()"
			found := false
			for _, g := range gs {
				if g.Kind == "if" && strings.Contains(g.Text, want) {
					found = true
				}
			}
			c.Ob("extras/client-injection-keeps-caller-value", "ClientImpl.prepareCall/"+cn.Fn.Name(), found, r.pos(cn.Pos), "context-derived "+cn.Fn.Name()+" only under "+want)
		})
	}
	if ir := r.ir(P + "UpdateExtraTimeout"); ir != nil {
		txt := irText(ir)
		ok := strings.HasPrefix(txt, "if val.IsSetCustomTimeoutMs()\n  return \n")
		c.Ob("extras/default-timeout-only-when-unset", "UpdateExtraTimeout", ok, r.pos(ir.Info.Decl.Pos()), "a timeout the caller set (even 0) makes UpdateExtraTimeout return before any write")
	}
	if ir := r.ir(P + "ClientImpl.fillRequestTimeout"); ir != nil {
		walkBlock(ir.Body, nil, func(n Node, gs []Guard) {
			cn, ok := n.(*CallN)
			if !ok || cn.Fn == nil || cn.Fn.Name() != "SetCustomTimeoutMs" || len(cn.Args) != 1 {
				return
			}
			arg := localNameRx.ReplaceAllString(cn.Args[0], "$$")
			want := "or(!nz(" + cn.Recv + ".CustomTimeoutMs),(" + arg + " <= " + cn.Recv + ".CustomTimeoutMs))"
			found := false
			for _, g := range gs {
				if g.Kind == "if" && localNameRx.ReplaceAllString(g.Text, "$$") == want {
					found = true
				}
			}
			c.Ob("extras/timeout-only-lowered", "ClientImpl.fillRequestTimeout/SetCustomTimeoutMs", found, r.pos(cn.Pos), "the context-derived timeout replaces the caller's only under "+want)
		})
		c.Floor("extras/timeout-only-lowered", 1)
	}
	// ---- longpoll: what the request phase stores and the response phase needs must survive StartLongpoll → FinishLongpoll
	{
		structs := map[string]bool{"HandlerContext": true, "handlerContextFields": true}
		named := func(names ...string) []*FuncInfo {
			var out []*FuncInfo
			for _, n := range names {
				if fi := r.funcs[P+n]; fi != nil {
					out = append(out, fi)
				} else {
					c.Undecided("anchor", P+n, "", "anchor function not found (renamed or removed)")
				}
			}
			return out
		}
		reqPhase := named("HandlerContext.ParseInvokeReq", "HandlerContext.fillInvokeReqInternals")
		respPhase := named("HandlerContext.prepareResponseBody", "HandlerContext.PrepareResponse", "HandlerContext.writeReponse", "writeResponseUnlocked", "serverConnTCP.SendResponse")
		restore := named("serverConnTCP.finishLongpoll2", "UdpServerConn.finishLongpoll2")
		written := map[string]bool{}
		all := map[string]bool{}
		var pkgTypes *types.Package
		for _, fi := range reqPhase {
			pkgTypes = fi.Pkg.Types
		}
		if pkgTypes != nil {
			for _, f := range structFieldNames(pkgTypes, "HandlerContext") {
				all[f] = true
			}
		}
		for _, w := range fieldWriters(reqPhase, all) {
			written[w.Field] = true
		}
		needed := map[string]token.Pos{}
		for _, fi := range respPhase {
			for k, p := range fieldReads(fi, structs) {
				if _, ok := needed[k]; !ok {
					needed[k] = p
				}
			}
		}
		embedded := map[string]bool{}
		if pkgTypes != nil {
			for _, f := range structFieldNames(pkgTypes, "handlerContextFields") {
				embedded[f] = true
			}
		}
		for _, fi := range restore {
			restored := map[string]bool{}
			for _, w := range fieldWriters([]*FuncInfo{fi}, map[string]bool{"HandlerContext.handlerContextFields": true}) {
				_ = w
				for f := range embedded {
					restored[f] = true
				}
			}
			for _, w := range fieldWriters([]*FuncInfo{fi}, all) {
				restored[w.Field] = true
			}
			n := 0
			for _, f := range sortedKeys(needed) {
				if !written[f] {
					continue
				}
				n++
				c.Ob("extras/longpoll-carries-response-inputs", fi.Name()+"/"+f, restored[f], r.pos(fi.Decl.Pos()), fmt.Sprintf("%s is stored while parsing the request and read when the response is built (%s); the hctx handed out by FinishLongpoll must get it back (restored here: %v)", f, r.pos(needed[f]), restored[f]))
			}
			if n < 4 {
				c.Ob("floor", "extras/longpoll-carries-response-inputs@"+fi.Name(), false, "", fmt.Sprintf("only %d fields are both written by the request phase and read by the response phase", n))
			}
		}
	}
	c.Floor("extras/who-may-write", 10)
	c.Floor("extras/client-injection-keeps-caller-value", 2)
	c.Floor("extras/inlined-writer-equals-generated", 3)
	c.Floor("extras/inlined-reader-equals-generated", 5)
	c.Floor("extras/emitted-tags-are-handled", 5)
}

func orStr(a, b string) string {
	if a != "" {
		return a
	}
	return b
}

// extrasWriters: every write of a tracked extras field in pkg/rpc, triaged by reading.
var extrasWriters = map[string]string{
	"ClientImpl.fillRequestTimeout/Request.Extra/address taken":                 "UpdateExtraTimeout(&req.Extra, DefaultTimeout): documented — the client's default timeout is applied only when the caller set none (checked by extras/default-timeout-only-when-unset)",
	"ClientImpl.fillRequestTimeout/Request.Extra/method ClearCustomTimeoutMs":   "documented normalisation: a zero (infinite) timeout is not sent",
	"ClientImpl.fillRequestTimeout/Request.Extra/method SetCustomTimeoutMs":     "documented: the timeout sent is min(caller's timeout, context deadline); the branch condition is checked by extras/timeout-only-lowered",
	"ClientImpl.prepareCall/Request.Extra/address taken":                        "TracingInject(ctx, &req.Extra.TraceContext): the user-supplied injector option",
	"ClientImpl.prepareCall/Request.Extra/assign |=":                            "sets the trace-context bit after the injector filled a non-empty trace context",
	"ClientImpl.prepareCall/Request.Extra/method SetExecutionContext":           "context-derived value, only when the caller did not set one (extras/client-injection-keeps-caller-value)",
	"ClientImpl.prepareCall/Request.Extra/method SetTraceContext":               "context-derived value, only when the caller did not set one (extras/client-injection-keeps-caller-value)",
	"HandlerContext.ForwardAndFlush/Request.Extra/init":                         "proxy forwarding builds a new Request from the parsed hctx.RequestExtra verbatim",
	"HandlerContext.ParseInvokeReq/HandlerContext.RequestExtra/method ReadTL1":  "the decode itself",
	"HandlerContext.ParseInvokeReq/handlerContextFields.actorID/address taken":  "the decode itself (LongRead into hctx.actorID)",
	"HandlerContext.ParseInvokeReq/handlerContextFields.actorID/assign =":       "the decode itself (from RpcDestActor.ActorId)",
	"HandlerContext.prepareResponseBody/HandlerContext.ResponseExtra/assign &=": "documented: only the fields the client asked for (request extra flags) are returned",
	"clientConn.finishCall/Response.Extra/address taken":                        "the decode itself: parseResponseExtra(&cctx.Extra)",
	"udpClientConn.finishCall/Response.Extra/address taken":                     "the decode itself: parseResponseExtra(&cctx.Extra)",
}
