package main

import (
	"bufio"
	"encoding/json"
	"fmt"
	"os"
	"os/exec"
	"path/filepath"
	"sort"
	"strconv"
	"strings"
	"time"
)

// ---------------------------------------------------------------------------------------------
// configuration

var (
	repoDir  = envOr("TLVERIF_REPO", "/repo")
	verifDir = envOr("TLVERIF_HOME", "/verif")
	outDir   = envOr("TLVERIF_OUT", verifDir) // reports/ and evidence/ are written here
)

func envOr(k, d string) string {
	if v := os.Getenv(k); v != "" {
		return v
	}
	return d
}

// goEnv is the environment every go invocation needs in this sandbox (see DESIGN.md §2).
func goEnv() []string {
	env := []string{}
	for _, kv := range os.Environ() {
		k := kv[:strings.IndexByte(kv+"=", '=')]
		switch k {
		case "GOFLAGS", "GOPROXY", "GOWORK", "GOTOOLCHAIN", "GOSUMDB", "GONOSUMDB", "GONOSUMCHECK", "GOINSECURE":
			continue
		}
		env = append(env, kv)
	}
	// GOTOOLCHAIN=auto lets the default go pick go1.24.0 (needed by /repo's go.mod) from the module
	// cache; GOSUMDB must stay at its default or the cached toolchain is refused.
	env = append(env, "GOFLAGS=-mod=mod", "GOPROXY=off", "GOWORK=off", "GOTOOLCHAIN=auto")
	return env
}

func run(dir string, name string, args ...string) (string, error) {
	cmd := exec.Command(name, args...)
	cmd.Dir = dir
	cmd.Env = goEnv()
	out, err := cmd.CombinedOutput()
	return string(out), err
}

// ---------------------------------------------------------------------------------------------
// obligations, violations, evidence

type Violation struct {
	Rule      string `json:"rule"`
	Construct string `json:"construct"`
	Pos       string `json:"pos"`
	Detail    string `json:"detail"`
	Known     bool   `json:"known,omitempty"`
}

type Check struct {
	ID    string
	Tier  string
	Seed  int
	Level string
	start time.Time

	Explanation string
	NotCovered  string
	Assumptions []string
	Trusted     []string

	obligations int
	discharged  int
	ruleCount   map[string]int
	ruleFail    map[string]int
	viols       []Violation
	samples     []string
	sampleSeen  map[string]int
	extra       map[string]any
	seenOblig   map[string]bool
	info        []string
}

func newCheck(id, tier string) *Check {
	seed, _ := strconv.Atoi(os.Getenv("VERIF_SEED"))
	return &Check{ID: id, Tier: tier, Seed: seed, Level: "other", start: time.Now(),
		ruleCount: map[string]int{}, ruleFail: map[string]int{}, sampleSeen: map[string]int{},
		extra: map[string]any{}, seenOblig: map[string]bool{}}
}

// Ob records one obligation (rule instance). ok=false makes it a violation keyed by rule+construct.
func (c *Check) Ob(rule, construct string, ok bool, pos, detail string) {
	c.obligations++
	c.ruleCount[rule]++
	c.seenOblig[rule+"\x00"+construct] = true
	if ok {
		c.discharged++
		if os.Getenv("TLVERIF_VERBOSE") != "" {
			fmt.Fprintf(os.Stderr, "ok   %s: %s [%s] — %s\n", rule, construct, pos, detail)
		}
		if c.sampleSeen[rule] < 2 {
			c.sampleSeen[rule]++
			c.samples = append(c.samples, fmt.Sprintf("%s: %s — %s", rule, construct, detail))
		}
		return
	}
	c.ruleFail[rule]++
	c.viols = append(c.viols, Violation{Rule: rule, Construct: construct, Pos: pos, Detail: detail})
}

// Undecided: the checker could not decide; always a failure (never vacuous pass).
func (c *Check) Undecided(rule, construct, pos, detail string) {
	c.Ob("UNDECIDED/"+rule, construct, false, pos, detail)
}

// Floor asserts that a rule matched at least n sites.
func (c *Check) Floor(rule string, n int) {
	got := c.ruleCount[rule]
	c.Ob("floor", rule, got >= n, "", fmt.Sprintf("rule %s matched %d sites, floor %d", rule, got, n))
}

func (c *Check) Info(format string, a ...any) {
	c.info = append(c.info, fmt.Sprintf(format, a...))
}

func (c *Check) Set(k string, v any) { c.extra[k] = v }

type knownFinding struct {
	Property, Rule, Construct, Text string
}

func loadKnownFindings() []knownFinding {
	f, err := os.Open(filepath.Join(verifDir, "known_findings.txt"))
	if err != nil {
		return nil
	}
	defer f.Close()
	var out []knownFinding
	sc := bufio.NewScanner(f)
	sc.Buffer(make([]byte, 1<<20), 1<<20)
	for sc.Scan() {
		line := strings.TrimSpace(sc.Text())
		if !strings.HasPrefix(line, "finding:") {
			continue // "fixed:" lines and comments suppress nothing
		}
		kf := knownFinding{Text: line}
		rest := strings.TrimSpace(strings.TrimPrefix(line, "finding:"))
		// property=<id> rule=<rule> construct=<...up to " :: "> :: text
		if i := strings.Index(rest, " :: "); i >= 0 {
			kf.Text = strings.TrimSpace(rest[i+4:])
			rest = rest[:i]
		}
		for _, key := range []string{"property=", "rule=", "construct="} {
			i := strings.Index(rest, key)
			if i < 0 {
				continue
			}
			v := rest[i+len(key):]
			if key != "construct=" {
				if j := strings.IndexByte(v, ' '); j >= 0 {
					v = v[:j]
				}
			}
			switch key {
			case "property=":
				kf.Property = v
			case "rule=":
				kf.Rule = v
			case "construct=":
				kf.Construct = strings.TrimSpace(v)
			}
		}
		out = append(out, kf)
	}
	return out
}

// Finish writes report + evidence and returns the process exit code.
func (c *Check) Finish() int {
	known := loadKnownFindings()
	sort.SliceStable(c.viols, func(i, j int) bool {
		a, b := c.viols[i], c.viols[j]
		if a.Rule != b.Rule {
			return a.Rule < b.Rule
		}
		return a.Construct < b.Construct
	})
	nNew := 0
	knownPrinted := map[string]int{}
	for i := range c.viols {
		v := &c.viols[i]
		for _, k := range known {
			if k.Property == c.ID && k.Rule == v.Rule && k.Construct == v.Construct {
				v.Known = true
				knownPrinted[k.Rule+" "+k.Construct+" :: "+k.Text]++
			}
		}
		if !v.Known {
			nNew++
		}
	}
	os.MkdirAll(filepath.Join(outDir, "reports"), 0o755)
	os.MkdirAll(filepath.Join(outDir, "evidence"), 0o755)
	reportPath := filepath.Join(outDir, "reports", c.ID+".txt")
	var sb strings.Builder
	fmt.Fprintf(&sb, "property %s tier=%s repo=%s\n", c.ID, c.Tier, repoDir)
	fmt.Fprintf(&sb, "obligations=%d discharged=%d violations(new)=%d known=%d\n", c.obligations, c.discharged, nNew, len(c.viols)-nNew)
	rules := make([]string, 0, len(c.ruleCount))
	for r := range c.ruleCount {
		rules = append(rules, r)
	}
	sort.Strings(rules)
	for _, r := range rules {
		fmt.Fprintf(&sb, "  rule %-48s instances=%-6d failed=%d\n", r, c.ruleCount[r], c.ruleFail[r])
	}
	for _, v := range c.viols {
		tag := "VIOLATION"
		if v.Known {
			tag = "KNOWN-FINDING"
		}
		fmt.Fprintf(&sb, "%s rule=%s construct=%s\n    at %s\n    %s\n", tag, v.Rule, v.Construct, v.Pos, v.Detail)
	}
	for _, s := range c.info {
		fmt.Fprintf(&sb, "info: %s\n", s)
	}
	os.WriteFile(reportPath, []byte(sb.String()), 0o644)

	// stdout
	fmt.Printf("%s tier=%s obligations=%d discharged=%d rules=%d wall=%.1fs\n", c.ID, c.Tier, c.obligations, c.discharged, len(rules), time.Since(c.start).Seconds())
	kk := make([]string, 0, len(knownPrinted))
	for k := range knownPrinted {
		kk = append(kk, k)
	}
	sort.Strings(kk)
	for _, k := range kk {
		fmt.Printf("KNOWN-FINDING: property=%s %s (%d instance(s))\n", c.ID, k, knownPrinted[k])
	}
	shown := 0
	for _, v := range c.viols {
		if v.Known {
			continue
		}
		if shown < 25 {
			fmt.Printf("  %s: rule=%s construct=%s: %s\n", v.Pos, v.Rule, v.Construct, v.Detail)
		}
		shown++
	}
	if shown > 25 {
		fmt.Printf("  ... %d more in %s\n", shown-25, reportPath)
	}
	if nNew > 0 {
		fmt.Printf("VIOLATION property=%s replay=%s\n", c.ID, reportPath)
	}

	// evidence
	samples := make([]any, 0, len(c.samples))
	for i, s := range c.samples {
		if i >= 40 {
			break
		}
		samples = append(samples, s)
	}
	if len(samples) == 0 {
		samples = append(samples, "no obligation discharged")
	}
	perRule := map[string]int{}
	for r, n := range c.ruleCount {
		perRule[r] = n
	}
	if c.Trusted == nil {
		c.Trusted = []string{"go/types"}
	}
	cov := map[string]any{
		"explanation":         c.Explanation,
		"not_covered":         c.NotCovered,
		"obligations":         c.obligations,
		"discharged":          c.discharged,
		"evaluations":         c.obligations,
		"distinct_nontrivial": len(c.seenObligKeys()),
		"rule":                "one obligation per (rule, construct) instance found in the analysed source; distinct = distinct (rule,construct) keys",
		"rule_instances":      perRule,
		"samples":             samples,
		"checker_cmd":         strings.Join(os.Args, " "),
		"trusted_base":        c.Trusted,
		"known_findings":      len(c.viols) - nNew,
	}
	for k, v := range c.extra {
		cov[k] = v
	}
	if c.Level == "translation_validation" {
		if _, ok := cov["programs"]; !ok {
			cov["programs"] = c.obligations
		}
		if _, ok := cov["disagreements_checked"]; !ok {
			cov["disagreements_checked"] = len(c.viols)
		}
	}
	if c.Assumptions == nil {
		c.Assumptions = []string{"go/types and x/tools v0.29.0 are sound; the corpus bounds the schema quantifier where generated code is analysed"}
	}
	ev := map[string]any{
		"property_id": c.ID,
		"tier":        c.Tier,
		"seed":        c.Seed,
		"level":       c.Level,
		"coverage":    cov,
		"assumptions": c.Assumptions,
		"wall_s":      time.Since(c.start).Seconds(),
		"violations":  nNew,
	}
	b, _ := json.MarshalIndent(ev, "", " ")
	os.WriteFile(filepath.Join(outDir, "evidence", c.ID+".json"), b, 0o644)
	if nNew > 0 {
		return 1
	}
	return 0
}

func (c *Check) seenObligKeys() map[string]bool { return c.seenOblig }

func fatalf(format string, a ...any) {
	fmt.Fprintf(os.Stderr, format+"\n", a...)
	os.Exit(2)
}
