package main

import (
	"fmt"
	"regexp"
	"sort"
	"strings"
)

func init() { register("C05", checkC05) }

var keyLiteralRx = regexp.MustCompile(`"([^"]+)":(true|false|null|-?\d+)$`)

func checkC05(c *Check) {
	c.Explanation = "JSON validity and key agreement of generated code, decided per generated type over every corpus (not by writing any JSON): (1) well-formedness — each WriteJSONOpt is interpreted over an abstract JSON automaton (stack of open containers × grammar phase): constant fragments are tokenised, basictl.JSONWrite*/nested WriteJSON* calls count as one value, JSONAddCommaIfNeeded adds a comma unless the previous byte opens a container, and the backup/rollback idiom restores the saved state; on every path no token is out of place and every success return leaves exactly one complete value; (2) data discipline — the only non-constant bytes reaching the buffer come from basictl.JSONWrite* or a nested writer; (3) key tables — the set of keys the writer can emit equals the set of `case` labels of the type's ReadJSONGeneral, and for each key the writer's operand (field) is the field the reader's case fills, with dual codecs (JSONWriteX ↔ Json2ReadX, nested writer ↔ nested reader of the same family). String escaping, base64 fallback and number spelling are C34's tables."
	c.NotCovered = "equality of TL1/TL2 encodings after a JSON round trip for all values (needs execution); strconv/easyjson behaviour (trusted)"
	c.Trusted = []string{"go/types", "strconv / easyjson escaping behaviour", "basictl JSON helper bodies (token tables read from their source)"}
	c.Assumptions = []string{"union index is within range (set only by generated accessors and readers: C43, C02)", "JSONWriteContext.Short is a write-only migration mode (a …Long union is written under its non-Long sibling's type names; readers have no such mode): names emitted under it are outside the round trip"}
	writers, keysChecked, unions, dictKeys := 0, 0, 0, 0
	withCorpora(c, true, func(g *genCtx) {
		natArgAgreement(c, g, "json-nat-arguments-as-in-tl1", "WriteTL1", []string{"ReadJSONGeneral", "WriteJSONOpt"})
		for _, fam := range g.families() {
			roles := g.byFam[fam]
			name := g.co.Spec.Name + ":" + shortFam(fam)
			w := roles["WriteJSONOpt"]
			if w == nil {
				continue
			}
			writers++
			e := g.jsonEmit(w)
			if len(e.problems) == 0 {
				c.Ob("json-writer-well-formed", name, e.exits > 0, posStr(g.co.Fset, w.Decl.Pos()), fmt.Sprintf("%d success exits, %d value events, %d keys: every path emits exactly one JSON value", e.exits, e.values, len(e.keys)))
			} else {
				p := e.problems[0]
				c.Ob("json-writer-well-formed", name, false, p.Pos, fmt.Sprintf("%s (%d problem(s) in this writer)", p.Text, len(e.problems)))
			}
			// (2b) a value writer in key position must always produce a JSON string
			for _, kw := range e.keyWriters {
				dictKeys++
				c.Ob("json-dict-key/key-writer-always-a-string", "Builtin Dict*WriteJSONOpt: "+kw.Text+" as object key", false, kw.Pos, name+": "+kw.Text+" stands in object-key position, but for input that is not valid UTF-8 it writes the object {\"base64\":…}, which is not a legal key: the text is not valid JSON")
			}
			// (3) key tables
			rd := roles["ReadJSONGeneral"]
			if rd == nil {
				continue
			}
			// (3a) a key read without unescaping may only select a case (struct field names); as stored data it must be unescaped
			g.rawKeyUses(c, name, rd)
			if wn := g.jsonUnionWriterNames(w); wn != nil {
				rn := g.jsonUnionReaderNames(rd)
				for _, idx := range sortedKeys(wn) {
					var missing []string
					for _, nm := range wn[idx] {
						if !rn[idx][nm] {
							missing = append(missing, nm)
						}
					}
					unions++
					c.Ob("json-union-type-names", name+"/variant"+idx, len(wn[idx]) > 0 && len(missing) == 0, posStr(g.co.Fset, rd.Decl.Pos()), fmt.Sprintf("writer can emit type names %v for variant %s; reader maps %v to that variant; not accepted: %v", wn[idx], idx, keysOf(rn[idx]), missing))
				}
				continue
			}
			if len(e.keys) == 0 {
				continue
			}
			rkeys := g.jsonReaderKeys(rd)
			if rkeys == nil {
				continue
			}
			var wk, rk []string
			for k := range e.keys {
				wk = append(wk, k)
			}
			for k := range rkeys {
				rk = append(rk, k)
			}
			sort.Strings(wk)
			sort.Strings(rk)
			keysChecked++
			var missing, extra []string
			for _, k := range wk {
				if _, ok := rkeys[k]; !ok {
					missing = append(missing, k)
				}
			}
			for _, k := range rk {
				if _, ok := e.keys[k]; ok {
					continue
				}
				// a key the writer never emits is fine only for a field without content (True and friends)
				if f := strings.Fields(rkeys[k]); len(f) >= 2 && f[0] == "nested" && g.zeroSizeFamily(rd, f[1]) {
					continue
				}
				extra = append(extra, k)
			}
			c.Ob("json-key-table/same-keys", name, len(missing) == 0 && len(extra) == 0, posStr(g.co.Fset, rd.Decl.Pos()), fmt.Sprintf("writer keys %v; reader case labels %v; written but not read: %v; read, never written and not an empty type: %v", wk, rk, missing, extra))
			for _, k := range wk {
				rv, ok := rkeys[k]
				if !ok {
					continue
				}
				wv := e.keys[k]
				c.Ob("json-key-table/same-field-and-codec", name+"/"+k, jsonDual(wv, rv), posStr(g.co.Fset, rd.Decl.Pos()), fmt.Sprintf("writer: %s; reader: %s", wv, rv))
			}
		}
	})
	c.Set("json_writers", writers)
	c.Floor("json-nat-arguments-as-in-tl1", 50)
	c.Set("json_dict_key_writers", dictKeys)
	c.Set("json_union_variants", unions)
	c.Floor("json-union-type-names", 20)
	c.Floor("json-writer-well-formed", 100)
	c.Floor("json-key-table/same-keys", 50)
	c.Floor("json-key-table/same-field-and-codec", 150)
}

// jsonReaderKeys: case label → "codec operand" of the first value-reading call in that arm.
func (g *genCtx) jsonReaderKeys(fi *FuncInfo) map[string]string {
	ir := g.ir(fi)
	var out map[string]string
	walkBlock(ir.Body, nil, func(n Node, _ []Guard) {
		sw, ok := n.(*SwitchN)
		if !ok || out != nil {
			return
		}
		if !strings.HasPrefix(sw.Tag, "L") { // switch key
			return
		}
		res := map[string]string{}
		for _, cs := range sw.Cases {
			if cs.Default {
				continue
			}
			for _, v := range cs.Vals {
				k, ok := constFragment(v)
				if !ok {
					return
				}
				desc := ""
				walkBlock(cs.Body, nil, func(m Node, _ []Guard) {
					if desc != "" {
						return
					}
					switch m := m.(type) {
					case *CallN:
						if m.Fn == nil {
							return
						}
						nm := m.Fn.Name()
						switch {
						case strings.HasPrefix(nm, "Json2Read"):
							desc = nm + " " + lastArg(m)
						case strings.Contains(nm, "ReadJSON"):
							fam, _ := familyRole(m.Fn)
							if fam == "" {
								fam = nm
							}
							desc = "nested " + fam + " " + operandOfReader(m)
						case nm == "Raw" || nm == "Skip":
							desc = "raw"
						}
					case *AssignN:
						if len(m.LHS) == 1 && strings.HasPrefix(m.LHS[0], "L") && strings.Contains(strings.Join(m.RHS, ""), ".Raw()") {
							desc = "raw " + m.LHS[0]
						}
					}
				})
				res[k] = desc
			}
		}
		if len(res) > 0 {
			out = res
		}
	})
	return out
}

func lastArg(n *CallN) string {
	if len(n.Args) == 0 {
		return ""
	}
	return n.Args[len(n.Args)-1]
}

func operandOfReader(n *CallN) string {
	if n.Recv != "" && !strings.HasPrefix(n.Recv, "(") {
		return n.Recv
	}
	for _, a := range n.Args {
		if strings.HasPrefix(a, "ctx:") || a == "p:in" || strings.HasPrefix(a, "val") && !strings.Contains(a, ".") && false {
			continue
		}
		if strings.HasPrefix(a, "item.") {
			return a
		}
	}
	return ""
}

// jsonDual: writer value description vs reader arm description.
func jsonDual(w, r string) bool {
	wf := strings.Fields(w)
	rf := strings.Fields(r)
	if len(wf) == 0 || len(rf) == 0 {
		return false
	}
	switch {
	case wf[0] == "literal":
		return true // `"k":true` members: the reader arm is checked by C06's truth-table rules
	case strings.HasPrefix(wf[0], "JSONWrite"):
		t := strings.TrimPrefix(wf[0], "JSONWrite")
		t = strings.TrimSuffix(t, "Bytes")
		if !strings.HasPrefix(rf[0], "Json2Read") {
			return false
		}
		rt := strings.TrimSuffix(strings.TrimPrefix(rf[0], "Json2Read"), "Bytes")
		return t == rt && len(wf) > 1 && len(rf) > 1 && wf[1] == rf[1]
	case wf[0] == "nested":
		if rf[0] == "raw" {
			return true // value kept raw and decoded after the mask is known (same family checked by name below)
		}
		if rf[0] != "nested" || len(wf) < 3 || len(rf) < 3 {
			return false
		}
		return wf[1] == rf[1] && wf[2] == rf[2]
	}
	return false
}

var unionTypeFragRx = regexp.MustCompile(`^\{"type":"([^"]*)"$`)

// jsonUnionWriterNames: variant index → type names the writer can emit; nil when the writer is not a union writer.
func (g *genCtx) jsonUnionWriterNames(fi *FuncInfo) map[string][]string {
	ir := g.ir(fi)
	var out map[string][]string
	for _, n := range ir.Body {
		sw, ok := n.(*SwitchN)
		if !ok || sw.Tag != "item.index" {
			continue
		}
		for _, cs := range sw.Cases {
			if cs.Default || len(cs.Vals) != 1 || !strings.HasPrefix(cs.Vals[0], "#") {
				continue
			}
			idx := cs.Vals[0][1:]
			walkBlock(cs.Body, nil, func(m Node, gs []Guard) {
				cn, ok := m.(*CallN)
				if !ok || cn.Builtin != "append" || len(cn.Args) != 2 {
					return
				}
				for _, g := range gs {
					if g.Kind == "if" && strings.Contains(g.Text, "JSONWriteContext.Short") {
						return // write-only migration mode (names of the non-Long sibling type); see assumptions
					}
				}
				if frag, ok := constFragment(cn.Args[1]); ok {
					if mm := unionTypeFragRx.FindStringSubmatch(frag); mm != nil {
						if out == nil {
							out = map[string][]string{}
						}
						out[idx] = append(out[idx], mm[1])
					}
				}
			})
		}
	}
	return out
}

// jsonUnionReaderNames: variant index → accepted type-name labels.
func (g *genCtx) jsonUnionReaderNames(fi *FuncInfo) map[string]map[string]bool {
	out := map[string]map[string]bool{}
	ir := g.ir(fi)
	walkBlock(ir.Body, nil, func(n Node, _ []Guard) {
		sw, ok := n.(*SwitchN)
		if !ok {
			return
		}
		for _, cs := range sw.Cases {
			idx := ""
			for _, m := range cs.Body {
				if as, ok := m.(*AssignN); ok && len(as.LHS) == 1 && as.LHS[0] == "item.index" && strings.HasPrefix(as.RHS[0], "#") {
					idx = as.RHS[0][1:]
				}
			}
			if idx == "" {
				continue
			}
			if out[idx] == nil {
				out[idx] = map[string]bool{}
			}
			for _, v := range cs.Vals {
				if k, ok := constFragment(v); ok {
					out[idx][k] = true
				}
			}
		}
	})
	return out
}

// zeroSizeFamily: the named family (in the package of `from`) has a TL1 writer that writes nothing.
func (g *genCtx) zeroSizeFamily(from *FuncInfo, fam string) bool {
	if g.zeroSizeJSON(from, fam) {
		return true
	}
	return g.zeroSizeTL1(from, fam)
}

// zeroSizeJSON: the family's JSON writer emits constants only (no key, no value event).
func (g *genCtx) zeroSizeJSON(from *FuncInfo, fam string) bool {
	roles := g.byFam[from.Pkg.PkgPath+"."+fam]
	if roles == nil {
		// per-namespace layout: the field's type lives in another package
		for _, key := range sortedKeys(g.byFam) {
			if shortFam(key) == fam {
				roles = g.byFam[key]
				break
			}
		}
	}
	if roles == nil || roles["WriteJSONOpt"] == nil {
		return false
	}
	e := g.jsonEmit(roles["WriteJSONOpt"])
	return len(e.problems) == 0 && e.values == 0 && len(e.keys) == 0 && e.exits > 0
}

func (g *genCtx) zeroSizeTL1(from *FuncInfo, fam string) bool {
	roles := g.byFam[from.Pkg.PkgPath+"."+fam]
	if roles == nil {
		for _, key := range sortedKeys(g.byFam) {
			if shortFam(key) == fam {
				roles = g.byFam[key]
				break
			}
		}
	}
	if roles == nil || roles["WriteTL1"] == nil {
		return false
	}
	w, _ := g.wire(roles["WriteTL1"], tl1WriteCfg, "w")
	return len(realOps(w)) == 0
}

// rawKeyUses: results of Lexer.UnsafeFieldName(true) (no unescaping) are used only as a switch tag or in
// error messages; any other use (stored as a dictionary key) needs the unescaping form.
func (g *genCtx) rawKeyUses(c *Check, name string, fi *FuncInfo) {
	ir := g.ir(fi)
	txt := blockText(ir.Body)
	// nested use inside another expression: data use
	if strings.Contains(txt, ".UnsafeFieldName(true)") {
		c.Ob("json-dict-key/stored-key-is-unescaped", name, false, posStr(g.co.Fset, fi.Decl.Pos()), "a key read with UnsafeFieldName(true) (escape sequences kept) is stored as data; the writer escapes keys with JSONWriteString, so the reader must unescape")
		return
	}
	walkBlock(ir.Body, nil, func(n Node, _ []Guard) {
		cn, ok := n.(*CallN)
		if !ok || cn.Fn == nil || cn.Fn.Name() != "UnsafeFieldName" || len(cn.Args) != 1 || len(cn.Results) != 1 {
			return
		}
		l := cn.Results[0]
		raw := cn.Args[0] == "true"
		dataUse := false
		walkBlock(ir.Body, nil, func(m Node, _ []Guard) {
			switch m := m.(type) {
			case *AssignN:
				if strings.Contains(strings.Join(m.LHS, ","), "["+l+"]") || strings.Contains(strings.Join(m.RHS, ","), l) {
					dataUse = true
				}
			case *CallN:
				if m == cn || m.Fn != nil && strings.HasPrefix(m.Fn.Name(), "Error") {
					return
				}
				for _, a := range m.Args {
					if strings.Contains(a, l) {
						dataUse = true
					}
				}
			}
		})
		if dataUse {
			c.Ob("json-dict-key/stored-key-is-unescaped", name, !raw, posStr(g.co.Fset, cn.Pos), fmt.Sprintf("the key read by UnsafeFieldName(%s) is stored as data: it must be the unescaping form (false), dual to the escaping key writer", cn.Args[0]))
		}
	})
}
