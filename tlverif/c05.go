package main

import (
	"fmt"
	"regexp"
	"sort"
	"strings"
)

func init() { register("C05", checkC05) }

var keyLiteralRx = regexp.MustCompile(`"([^"]+)":(true|false|null|-?\d+)$`)

func checkC05(c *Check) {
	c.Explanation = "JSON validity and key agreement of generated code, decided per generated type over every corpus (not by writing any JSON): (1) well-formedness — each WriteJSONOpt is interpreted over an abstract JSON automaton (stack of open containers × grammar phase): constant fragments are tokenised, basictl.JSONWrite*/nested WriteJSON* calls count as one value, JSONAddCommaIfNeeded adds a comma unless the previous byte opens a container, and the backup/rollback idiom restores the saved state; on every path no token is out of place and every success return leaves exactly one complete value; (2) data discipline — the only non-constant bytes reaching the buffer come from basictl.JSONWrite* or a nested writer; (3) key tables — the set of keys the writer can emit equals the set of `case` labels of the type's ReadJSONGeneral, and for each key the writer's operand (field) is the field the reader's case fills, with dual codecs (JSONWriteX ↔ Json2ReadX, nested writer ↔ nested reader of the same family). String escaping, base64 fallback and number spelling are C34's tables."
	c.NotCovered = "equality of TL1/TL2 encodings after a JSON round trip for all values (needs execution); strconv/easyjson behaviour (trusted)"
	c.Assumptions = []string{"union index is within range (set only by generated accessors and readers: C43, C02)"}
	writers, keysChecked := 0, 0
	withCorpora(c, true, func(g *genCtx) {
		for _, fam := range g.families() {
			roles := g.byFam[fam]
			name := g.co.Spec.Name + ":" + shortFam(fam)
			w := roles["WriteJSONOpt"]
			if w == nil {
				continue
			}
			writers++
			e := g.jsonEmit(w)
			if len(e.problems) == 0 {
				c.Ob("json-writer-well-formed", name, e.exits > 0, posStr(g.co.Fset, w.Decl.Pos()), fmt.Sprintf("%d success exits, %d value events, %d keys: every path emits exactly one JSON value", e.exits, e.values, len(e.keys)))
			} else {
				p := e.problems[0]
				c.Ob("json-writer-well-formed", name, false, p.Pos, fmt.Sprintf("%s (%d problem(s) in this writer)", p.Text, len(e.problems)))
			}
			// (3) key tables
			rd := roles["ReadJSONGeneral"]
			if rd == nil || len(e.keys) == 0 {
				continue
			}
			rkeys := g.jsonReaderKeys(rd)
			if rkeys == nil {
				continue
			}
			var wk, rk []string
			for k := range e.keys {
				wk = append(wk, k)
			}
			for k := range rkeys {
				rk = append(rk, k)
			}
			sort.Strings(wk)
			sort.Strings(rk)
			keysChecked++
			c.Ob("json-key-table/same-keys", name, strings.Join(wk, ",") == strings.Join(rk, ","), posStr(g.co.Fset, rd.Decl.Pos()), fmt.Sprintf("writer keys %v; reader case labels %v", wk, rk))
			for _, k := range wk {
				rv, ok := rkeys[k]
				if !ok {
					continue
				}
				wv := e.keys[k]
				c.Ob("json-key-table/same-field-and-codec", name+"/"+k, jsonDual(wv, rv), posStr(g.co.Fset, rd.Decl.Pos()), fmt.Sprintf("writer: %s; reader: %s", wv, rv))
			}
		}
	})
	c.Set("json_writers", writers)
	c.Floor("json-writer-well-formed", 100)
	c.Floor("json-key-table/same-keys", 50)
	c.Floor("json-key-table/same-field-and-codec", 150)
}

// jsonReaderKeys: case label → "codec operand" of the first value-reading call in that arm.
func (g *genCtx) jsonReaderKeys(fi *FuncInfo) map[string]string {
	ir := g.ir(fi)
	var out map[string]string
	walkBlock(ir.Body, nil, func(n Node, _ []Guard) {
		sw, ok := n.(*SwitchN)
		if !ok || out != nil {
			return
		}
		if !strings.HasPrefix(sw.Tag, "L") { // switch key
			return
		}
		res := map[string]string{}
		for _, cs := range sw.Cases {
			if cs.Default {
				continue
			}
			for _, v := range cs.Vals {
				k, ok := constFragment(v)
				if !ok {
					return
				}
				desc := ""
				walkBlock(cs.Body, nil, func(m Node, _ []Guard) {
					if desc != "" {
						return
					}
					switch m := m.(type) {
					case *CallN:
						if m.Fn == nil {
							return
						}
						nm := m.Fn.Name()
						switch {
						case strings.HasPrefix(nm, "Json2Read"):
							desc = nm + " " + lastArg(m)
						case strings.Contains(nm, "ReadJSON"):
							fam, _ := familyRole(m.Fn)
							if fam == "" {
								fam = nm
							}
							desc = "nested " + fam + " " + operandOfReader(m)
						case nm == "Raw" || nm == "Skip":
							desc = "raw"
						}
					case *AssignN:
						if len(m.LHS) == 1 && strings.Contains(m.LHS[0], "raw") && strings.Contains(strings.Join(m.RHS, ""), ".Raw()") {
							desc = "raw " + m.LHS[0]
						}
					}
				})
				res[k] = desc
			}
		}
		if len(res) > 0 {
			out = res
		}
	})
	return out
}

func lastArg(n *CallN) string {
	if len(n.Args) == 0 {
		return ""
	}
	return n.Args[len(n.Args)-1]
}

func operandOfReader(n *CallN) string {
	if n.Recv != "" && !strings.HasPrefix(n.Recv, "(") {
		return n.Recv
	}
	for _, a := range n.Args {
		if strings.HasPrefix(a, "ctx:") || a == "p:in" || strings.HasPrefix(a, "val") && !strings.Contains(a, ".") && false {
			continue
		}
		if strings.HasPrefix(a, "item.") {
			return a
		}
	}
	return ""
}

// jsonDual: writer value description vs reader arm description.
func jsonDual(w, r string) bool {
	wf := strings.Fields(w)
	rf := strings.Fields(r)
	if len(wf) == 0 || len(rf) == 0 {
		return false
	}
	switch {
	case wf[0] == "literal":
		return true // `"k":true` members: the reader arm is checked by C06's truth-table rules
	case strings.HasPrefix(wf[0], "JSONWrite"):
		t := strings.TrimPrefix(wf[0], "JSONWrite")
		t = strings.TrimSuffix(t, "Bytes")
		if !strings.HasPrefix(rf[0], "Json2Read") {
			return false
		}
		rt := strings.TrimSuffix(strings.TrimPrefix(rf[0], "Json2Read"), "Bytes")
		return t == rt && len(wf) > 1 && len(rf) > 1 && wf[1] == rf[1]
	case wf[0] == "nested":
		if rf[0] == "raw" {
			return true // value kept raw and decoded after the mask is known (same family checked by name below)
		}
		if rf[0] != "nested" || len(wf) < 3 || len(rf) < 3 {
			return false
		}
		return wf[1] == rf[1] && wf[2] == rf[2]
	}
	return false
}
