package main

import (
	"fmt"
	"go/types"
	"strings"
)

func init() { register("C22", checkC22) }

// tl2Structs: the TL2 AST node types.
var tl2Structs = map[string]bool{
	"TL2TypeName": true, "TL2Annotation": true, "TL2TypeArgument": true, "TL2TypeApplication": true, "TL2BracketType": true,
	"TL2TypeRef": true, "TL2Field": true, "TL2TypeDefinition": true, "TL2StructTypeDefinition": true, "TL2UnionConstructor": true,
	"TL2UnionType": true, "TL2TypeCategory": true, "TL2TypeTemplate": true, "TL2TypeDeclaration": true, "TL2FuncDeclaration": true,
	"TL2Combinator": true, "TL2File": true,
}

var tl2Family = &astFamily{
	structs:      tl2Structs,
	parserFiles:  map[string]bool{"tlparser_tl2_code.go": true},
	printerFiles: map[string]bool{"tlast_tl2_view.go": true},
	isPrinter:    func(fn *types.Func) bool { return strings.HasPrefix(strings.ToLower(fn.Name()), "print") },
	isReference:  func(fn *types.Func) bool { return true },
}

// c22Unprinted: fields the TL2 parser fills that the formatter legitimately does not read.
var c22Unprinted = map[string]string{}

func checkC22(c *Check) {
	c.Explanation = "TL2 formatter — structural clauses only (that formatted text re-parses to the same declarations and that formatting is idempotent both need execution and are not decided): (1) coverage: every schema-meaning field of the TL2 AST node types that the TL2 parser fills is read by a printer reachable from TL2File.Print (a field the formatter never reads cannot survive the round trip); (2) token order: when the parser of a node fills field F at an earlier token-consumption step than field G, no printer of that node emits G's text before F's. Both are computed from the type-checked syntax trees / SSA call graph; names of locals are irrelevant."
	c.NotCovered = "re-parse equality and idempotence for all files (line-width driven layout, comments, separators are value-dependent); the canonical-options ordering of declarations"
	c.Trusted = []string{"go/types", "go/ssa + VTA call graph"}
	a := loadASTCoverageFor(c, tl2Family)
	if a == nil {
		return
	}
	root := a.p.funcByName("github.com/VKCOM/tl/internal/tlast", "TL2File", "Print")
	if root == nil {
		c.Undecided("tl2-printer/root", "TL2File.Print", "", "not found")
		return
	}
	reads, nf := a.readsFrom(root)
	c.Set("tl2_parser_functions", a.parserFn)
	c.Set("tl2_printer_functions_reachable", nf)
	for _, f := range sortedKeys(a.written) {
		_, ok := reads[f]
		if why, listed := c22Unprinted[f]; !ok && listed {
			c.Info("field %s is written by the parser (%s) and not read by the formatter: %s", f, a.written[f], why)
			continue
		}
		c.Ob("tl2-printer/parsed-field-is-printed", f, ok, "", fmt.Sprintf("written by %s; read by formatter function %s", a.written[f], orStr(reads[f], "— none —")))
	}
	c.Floor("tl2-printer/parsed-field-is-printed", 20)
	printerOrderFollowsParserRule(c, a.r, a.pkg, tl2Family, "tl2-printer/field-order-follows-parser")
	c.Floor("tl2-printer/field-order-follows-parser", 5)
}
