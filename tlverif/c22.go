package main

import (
	"fmt"
	"go/ast"
	"go/constant"
	"go/token"
	"go/types"
	"path/filepath"
	"sort"
	"strings"
)

func init() { register("C22", checkC22) }

// tl2Structs: the TL2 AST node types.
var tl2Structs = map[string]bool{
	"TL2TypeName": true, "TL2Annotation": true, "TL2TypeArgument": true, "TL2TypeApplication": true, "TL2BracketType": true,
	"TL2TypeRef": true, "TL2Field": true, "TL2TypeDefinition": true, "TL2StructTypeDefinition": true, "TL2UnionConstructor": true,
	"TL2UnionType": true, "TL2TypeCategory": true, "TL2TypeTemplate": true, "TL2TypeDeclaration": true, "TL2FuncDeclaration": true,
	"TL2Combinator": true, "TL2File": true,
}

var tl2Family = &astFamily{
	structs:      tl2Structs,
	parserFiles:  map[string]bool{"tlparser_tl2_code.go": true},
	printerFiles: map[string]bool{"tlast_tl2_view.go": true},
	isPrinter:    func(fn *types.Func) bool { return strings.HasPrefix(strings.ToLower(fn.Name()), "print") },
	isReference:  func(fn *types.Func) bool { return true },
}

// c22Unprinted: fields the TL2 parser fills that the formatter legitimately does not read.
var c22Unprinted = map[string]string{}

func checkC22(c *Check) {
	c.Explanation = "TL2 formatter — structural clauses only (that formatted text re-parses to the same declarations and that formatting is idempotent both need execution and are not decided): (1) coverage: every schema-meaning field of the TL2 AST node types that the TL2 parser fills is read by a printer reachable from TL2File.Print (a field the formatter never reads cannot survive the round trip); (2) token order: when the parser of a node fills field F at an earlier token-consumption step than field G, no printer of that node emits G's text before F's. Both are computed from the type-checked syntax trees / SSA call graph; names of locals are irrelevant."
	c.NotCovered = "re-parse equality and idempotence for all files (line-width driven layout, comments, separators are value-dependent); the canonical-options ordering of declarations"
	c.Trusted = []string{"go/types", "go/ssa + VTA call graph"}
	a := loadASTCoverageFor(c, tl2Family)
	if a == nil {
		return
	}
	root := a.p.funcByName("github.com/VKCOM/tl/internal/tlast", "TL2File", "Print")
	if root == nil {
		c.Undecided("tl2-printer/root", "TL2File.Print", "", "not found")
		return
	}
	reads, nf := a.readsFrom(root)
	c.Set("tl2_parser_functions", a.parserFn)
	c.Set("tl2_printer_functions_reachable", nf)
	for _, f := range sortedKeys(a.written) {
		_, ok := reads[f]
		if why, listed := c22Unprinted[f]; !ok && listed {
			c.Info("field %s is written by the parser (%s) and not read by the formatter: %s", f, a.written[f], why)
			continue
		}
		c.Ob("tl2-printer/parsed-field-is-printed", f, ok, "", fmt.Sprintf("written by %s; read by formatter function %s", a.written[f], orStr(reads[f], "— none —")))
	}
	c.Floor("tl2-printer/parsed-field-is-printed", 20)
	// (3) idempotence, necessary condition: comment text the formatter consults survives its own output. A comment field
	// that is read (for a layout decision, say) but never written out is gone after the first pass, so the second pass
	// decides differently and the text changes.
	tl2ConsultedCommentsArePrinted(c, a)
	tl2AliasMarkerPrinted(c, a.r)
	printerOrderFollowsParserRule(c, a.r, a.pkg, tl2Family, "tl2-printer/field-order-follows-parser")
	c.Floor("tl2-printer/field-order-follows-parser", 5)
	tl2SingleVariantUnionKeepsBar(c, a)
	nodePrintedThroughItsOwnPrinter(c, a, tl2Family, "TL2File", "Print", "tl2-printer/node-printed-through-its-own-printer")
	c.Floor("tl2-printer/node-printed-through-its-own-printer", 8)
}

// tl2ConsultedCommentsArePrinted: every comment field of a TL2 AST node that a function reachable from TL2File.Print reads
// also reaches a strings.Builder write in such a function (directly or through locals: Split, TrimSpace, range).
func tl2ConsultedCommentsArePrinted(c *Check, a *astCoverage) {
	root := a.p.funcByName("github.com/VKCOM/tl/internal/tlast", "TL2File", "Print")
	reach := map[string]bool{}
	for fn := range a.p.reachable(root) {
		top := fn
		for top.Parent() != nil {
			top = top.Parent()
		}
		if obj, _ := top.Object().(*types.Func); obj != nil {
			reach[obj.FullName()] = true
		}
	}
	readBy := map[string]string{}
	printed := map[string]bool{}
	for _, name := range sortedKeys(a.r.funcs) {
		fi := a.r.funcs[name]
		if fi.Decl.Body == nil || !reach[fi.Obj.FullName()] {
			continue
		}
		info := fi.Pkg.TypesInfo
		commentField := func(n ast.Node) string {
			sel, ok := n.(*ast.SelectorExpr)
			if !ok {
				return ""
			}
			sl, ok := info.Selections[sel]
			if !ok || sl.Kind() != types.FieldVal || !strings.Contains(sel.Sel.Name, "Comment") || !isStringType(sl.Type()) {
				return ""
			}
			st := namedStructName(info.TypeOf(sel.X))
			if !tl2Structs[st] {
				return ""
			}
			return st + "." + sel.Sel.Name
		}
		taint := map[types.Object]map[string]bool{}
		labels := func(e ast.Node) map[string]bool {
			out := map[string]bool{}
			if e == nil {
				return out
			}
			ast.Inspect(e, func(n ast.Node) bool {
				if f := commentField(n); f != "" {
					out[f] = true
					if _, seen := readBy[f]; !seen || fi.Name() < readBy[f] {
						readBy[f] = fi.Name()
					}
				}
				if id, ok := n.(*ast.Ident); ok {
					for l := range taint[info.Uses[id]] {
						out[l] = true
					}
				}
				return true
			})
			return out
		}
		add := func(lhs ast.Expr, ls map[string]bool) bool {
			id, ok := lhs.(*ast.Ident)
			if !ok || len(ls) == 0 {
				return false
			}
			obj := info.Defs[id]
			if obj == nil {
				obj = info.Uses[id]
			}
			if obj == nil {
				return false
			}
			changed := false
			if taint[obj] == nil {
				taint[obj] = map[string]bool{}
			}
			for l := range ls {
				if !taint[obj][l] {
					taint[obj][l] = true
					changed = true
				}
			}
			return changed
		}
		for changed := true; changed; {
			changed = false
			ast.Inspect(fi.Decl.Body, func(n ast.Node) bool {
				switch st := n.(type) {
				case *ast.AssignStmt:
					for i, l := range st.Lhs {
						r := st.Rhs[min(i, len(st.Rhs)-1)]
						// only text flows: a comparison or a length is a decision, not the comment
						if tv, ok := info.Types[r]; ok && !isStringType(tv.Type) {
							if _, isSl := tv.Type.Underlying().(*types.Slice); !isSl {
								continue
							}
						}
						if add(l, labels(r)) {
							changed = true
						}
					}
				case *ast.RangeStmt:
					if st.Value != nil && add(st.Value, labels(st.X)) {
						changed = true
					}
				}
				return true
			})
		}
		ast.Inspect(fi.Decl.Body, func(n ast.Node) bool {
			labels(n) // records reads
			call, ok := n.(*ast.CallExpr)
			if !ok {
				return true
			}
			sel, ok := call.Fun.(*ast.SelectorExpr)
			if !ok || !strings.HasPrefix(sel.Sel.Name, "Write") {
				return true
			}
			if nm := namedOf(info.TypeOf(sel.X)); nm == nil || nm.Obj().Name() != "Builder" || nm.Obj().Pkg() == nil || nm.Obj().Pkg().Path() != "strings" {
				return true
			}
			for _, arg := range call.Args {
				for l := range labels(arg) {
					printed[l] = true
				}
			}
			return false
		})
	}
	for _, f := range sortedKeys(readBy) {
		c.Ob("tl2-printer/consulted-comment-is-printed", f, printed[f], "", fmt.Sprintf("read by %s (a function reachable from TL2File.Print); written to the output somewhere: %v", readBy[f], printed[f]))
	}
	c.Floor("tl2-printer/consulted-comment-is-printed", 3)
}

// tl2AliasMarkerPrinted: the TL2 parser sets TL2TypeDefinition.IsTypeAlias exactly when it consumed `<=>`; the formatter
// must therefore have written that token on every path on which it prints the alias target of a type definition
// (declarations and function results alike). Conditions on IsAlias()/IsTypeAlias are taken as true on those paths;
// all other conditions are explored both ways.
func tl2AliasMarkerPrinted(c *Check, r *repoCtx) {
	n := 0
	for _, name := range sortedKeys(r.funcs) {
		fi := r.funcs[name]
		if fi.Decl.Body == nil || fi.Decl.Recv == nil || !strings.HasPrefix(name, "internal/tlast.") {
			continue
		}
		info := fi.Pkg.TypesInfo
		if len(fi.Decl.Recv.List) != 1 || len(fi.Decl.Recv.List[0].Names) != 1 {
			continue
		}
		recv := info.Defs[fi.Decl.Recv.List[0].Names[0]]
		if recv == nil || namedStructName(recv.Type()) != "TL2TypeDefinition" {
			continue
		}
		isAliasCond := func(e ast.Expr) (known bool, val bool) {
			neg := false
			e = ast.Unparen(e)
			if u, ok := e.(*ast.UnaryExpr); ok && u.Op == token.NOT {
				neg, e = true, ast.Unparen(u.X)
			}
			switch x := e.(type) {
			case *ast.CallExpr:
				if sel, ok := x.Fun.(*ast.SelectorExpr); ok && sel.Sel.Name == "IsAlias" {
					if id, ok := sel.X.(*ast.Ident); ok && info.Uses[id] == recv {
						return true, !neg
					}
				}
			case *ast.SelectorExpr:
				if x.Sel.Name == "IsTypeAlias" {
					if id, ok := x.X.(*ast.Ident); ok && info.Uses[id] == recv {
						return true, !neg
					}
				}
			}
			return false, false
		}
		writesMarker := func(st ast.Stmt) bool {
			found := false
			ast.Inspect(st, func(x ast.Node) bool {
				if call, ok := x.(*ast.CallExpr); ok {
					for _, a := range call.Args {
						if tv, ok := info.Types[a]; ok && tv.Value != nil && tv.Value.Kind() == constant.String && strings.Contains(constant.StringVal(tv.Value), "<=>") {
							found = true
						}
					}
				}
				return true
			})
			return found
		}
		printsAlias := func(st ast.Stmt) token.Pos {
			p := token.NoPos
			ast.Inspect(st, func(x ast.Node) bool {
				if call, ok := x.(*ast.CallExpr); ok {
					if sel, ok := call.Fun.(*ast.SelectorExpr); ok {
						if inner, ok := sel.X.(*ast.SelectorExpr); ok && inner.Sel.Name == "TypeAlias" {
							if id, ok := inner.X.(*ast.Ident); ok && info.Uses[id] == recv {
								p = call.Pos()
							}
						}
					}
				}
				return true
			})
			return p
		}
		bad := token.NoPos
		var walk func(list []ast.Stmt, emitted bool) bool
		walk = func(list []ast.Stmt, emitted bool) bool {
			for _, st := range list {
				switch st := st.(type) {
				case *ast.IfStmt:
					known, val := isAliasCond(st.Cond)
					var elseList []ast.Stmt
					switch e := st.Else.(type) {
					case *ast.BlockStmt:
						elseList = e.List
					case *ast.IfStmt:
						elseList = []ast.Stmt{e}
					}
					switch {
					case known && val:
						emitted = walk(st.Body.List, emitted)
					case known && !val:
						emitted = walk(elseList, emitted)
					default:
						a := walk(st.Body.List, emitted)
						b := walk(elseList, emitted)
						emitted = a && b
					}
				case *ast.SwitchStmt:
					// tag-less switch: clauses in order; an IsAlias clause is certainly taken, later clauses are not
					res, first := true, true
					decided := false
					for _, cc := range st.Body.List {
						cl := cc.(*ast.CaseClause)
						if decided {
							break
						}
						takes := true
						for _, e := range cl.List {
							if known, val := isAliasCond(e); known {
								if val {
									decided = true
								} else {
									takes = false
								}
							}
						}
						if !takes {
							continue
						}
						r := walk(cl.Body, emitted)
						if first {
							res, first = r, false
						} else {
							res = res && r
						}
					}
					if !first {
						emitted = res
					}
				case *ast.BlockStmt:
					emitted = walk(st.List, emitted)
				case *ast.ForStmt, *ast.RangeStmt:
					// the body may not run
				default:
					if p := printsAlias(st); p != token.NoPos {
						n++
						if !emitted && bad == token.NoPos {
							bad = p
						}
					}
					if writesMarker(st) {
						emitted = true
					}
				}
			}
			return emitted
		}
		walk(fi.Decl.Body.List, false)
		if n > 0 {
			at := r.pos(fi.Decl.Pos())
			if bad != token.NoPos {
				at = r.pos(bad)
			}
			c.Ob("tl2-printer/alias-marker-precedes-alias-target", fi.Name(), bad == token.NoPos, at, "on every path on which the alias target of a type definition is printed, a literal containing `<=>` was written before (declaration and function-result positions)")
		}
	}
	c.Floor("tl2-printer/alias-marker-precedes-alias-target", 1)
}

// nodePrintedThroughItsOwnPrinter: a node type that has its own printer is printed by it. In every printer of the
// family reachable from the root, a call of another node's printer (or a strings.Builder write) whose operand is reached
// *through* a value of a node type N that has its own printer — `x.Fields[0].Type.Print(sb)` where `x.Fields[0]` is an
// N — prints a part of that N and skips the rest (name, optional marker, …), unless the function is N's own printer.
// One obligation per (function, N): all such operands in the function.
func nodePrintedThroughItsOwnPrinter(c *Check, a *astCoverage, fam *astFamily, rootRecv, rootName, rule string) {
	root := a.p.funcByName("github.com/VKCOM/tl/internal/tlast", rootRecv, rootName)
	reach := map[string]bool{}
	for fn := range a.p.reachable(root) {
		top := fn
		for top.Parent() != nil {
			top = top.Parent()
		}
		if obj, _ := top.Object().(*types.Func); obj != nil {
			reach[obj.FullName()] = true
		}
	}
	// node types with their own printer
	own := map[string]string{}
	for _, name := range sortedKeys(a.r.funcs) {
		fi := a.r.funcs[name]
		if fi.Decl.Recv == nil || !reach[fi.Obj.FullName()] {
			continue
		}
		file := filepath.Base(a.r.co.Fset.Position(fi.Decl.Pos()).Filename)
		if !fam.printerFiles[file] || !(fam.isPrinter(fi.Obj) || fi.Obj.Name() == "String") {
			continue
		}
		if s := namedStructName(fi.Obj.Type().(*types.Signature).Recv().Type()); fam.structs[s] {
			if _, ok := own[s]; !ok {
				own[s] = fi.Name()
			}
		}
	}
	c.Set("node_types_with_own_printer", len(own))
	for _, name := range sortedKeys(a.r.funcs) {
		fi := a.r.funcs[name]
		if fi.Decl.Body == nil || !reach[fi.Obj.FullName()] {
			continue
		}
		file := filepath.Base(a.r.co.Fset.Position(fi.Decl.Pos()).Filename)
		if !fam.printerFiles[file] {
			continue
		}
		info := fi.Pkg.TypesInfo
		self := ""
		var selfObj types.Object
		if fi.Decl.Recv != nil {
			self = namedStructName(fi.Obj.Type().(*types.Signature).Recv().Type())
			if len(fi.Decl.Recv.List) == 1 && len(fi.Decl.Recv.List[0].Names) == 1 {
				selfObj = info.Defs[fi.Decl.Recv.List[0].Names[0]]
			}
		}
		// through(e): node types with own printer that e passes through (proper prefixes of the operand path)
		var through func(e ast.Expr, top bool, out map[string]string)
		through = func(e ast.Expr, top bool, out map[string]string) {
			var inner ast.Expr
			switch x := e.(type) {
			case *ast.ParenExpr:
				through(x.X, top, out)
				return
			case *ast.StarExpr:
				through(x.X, top, out)
				return
			case *ast.UnaryExpr:
				through(x.X, top, out)
				return
			case *ast.SelectorExpr:
				if sl, ok := info.Selections[x]; !ok || sl.Kind() != types.FieldVal {
					return
				}
				inner = x.X
			case *ast.IndexExpr:
				inner = x.X
			case *ast.Ident:
			default:
				return
			}
			if !top {
				if s := namedStructName(info.TypeOf(e)); s != "" && own[s] != "" && s != self {
					if id, ok := e.(*ast.Ident); !(ok && selfObj != nil && info.Uses[id] == selfObj) {
						out[s] = types.ExprString(e)
					}
				}
			}
			if inner != nil {
				through(inner, false, out)
			}
		}
		bad := map[string][]string{}
		sites := 0
		ast.Inspect(fi.Decl.Body, func(n ast.Node) bool {
			call, ok := n.(*ast.CallExpr)
			if !ok {
				return true
			}
			sel, ok := call.Fun.(*ast.SelectorExpr)
			if !ok {
				return true
			}
			callee, _ := info.Uses[sel.Sel].(*types.Func)
			if callee == nil {
				return true
			}
			sig := callee.Type().(*types.Signature)
			if sig.Recv() == nil {
				return true
			}
			var operands []ast.Expr
			rs := namedStructName(sig.Recv().Type())
			switch {
			case fam.structs[rs] && (fam.isPrinter(callee) || callee.Name() == "String"):
				operands = append(operands, sel.X)
			case isBuilderType(sig.Recv().Type()) && strings.HasPrefix(callee.Name(), "Write"), isQuickTemplateWriter(sig.Recv().Type()):
				operands = append(operands, call.Args...)
			default:
				return true
			}
			sites++
			for _, op := range operands {
				ast.Inspect(op, func(m ast.Node) bool {
					e, ok := m.(ast.Expr)
					if !ok {
						return true
					}
					switch e.(type) {
					case *ast.SelectorExpr, *ast.IndexExpr:
						out := map[string]string{}
						through(e, true, out)
						for s, p := range out {
							bad[s] = append(bad[s], fmt.Sprintf("%s (via %s, line %d)", types.ExprString(e), p, a.r.co.Fset.Position(e.Pos()).Line))
						}
						return false
					}
					return true
				})
			}
			return true
		})
		if sites == 0 {
			continue
		}
		if len(bad) == 0 {
			c.Ob(rule, fi.Name(), true, posStr(a.r.co.Fset, fi.Decl.Pos()), fmt.Sprintf("%d print sites; no operand reaches into a node that has its own printer", sites))
			continue
		}
		for _, s := range sortedKeys(bad) {
			sort.Strings(bad[s])
			c.Ob(rule, fi.Name()+"/"+s, false, posStr(a.r.co.Fset, fi.Decl.Pos()), fmt.Sprintf("prints a part of a %s instead of handing the %s to its own printer %s: %s — whatever else %s prints (name, markers) is lost for this value", s, s, own[s], strings.Join(bad[s], "; "), own[s]))
		}
	}
}

func isBuilderType(t types.Type) bool {
	if p, ok := t.(*types.Pointer); ok {
		t = p.Elem()
	}
	n, ok := types.Unalias(t).(*types.Named)
	return ok && n.Obj().Pkg() != nil && (n.Obj().Pkg().Path() == "strings" && n.Obj().Name() == "Builder" || n.Obj().Pkg().Path() == "bytes" && n.Obj().Name() == "Buffer")
}

// tl2SingleVariantUnionKeepsBar: the TL2 parser reads `= A x:int` as a structure and `= | A x:int` as a union with one
// variant, so the formatter must write the bar for a union with one variant. In every loop of the formatter over a
// []TL2UnionConstructor the text with the bar is written either unconditionally, or — where it is written under a test of
// the loop index (a separator) — also under a test of the number of variants.
func tl2SingleVariantUnionKeepsBar(c *Check, a *astCoverage) {
	const rule = "tl2-printer/single-variant-union-keeps-bar"
	for _, name := range sortedKeys(a.r.funcs) {
		fi := a.r.funcs[name]
		if fi.Decl.Body == nil || !strings.HasPrefix(name, "internal/tlast.") {
			continue
		}
		if file := filepath.Base(a.r.co.Fset.Position(fi.Decl.Pos()).Filename); !tl2Family.printerFiles[file] {
			continue
		}
		info := fi.Pkg.TypesInfo
		isVariants := func(e ast.Expr) bool {
			t := info.TypeOf(e)
			if t == nil {
				return false
			}
			sl, ok := t.Underlying().(*types.Slice)
			return ok && namedStructName(sl.Elem()) == "TL2UnionConstructor"
		}
		// locals: every value assigned to them in this function
		assigned := map[types.Object][]ast.Expr{}
		ast.Inspect(fi.Decl.Body, func(n ast.Node) bool {
			switch n := n.(type) {
			case *ast.AssignStmt:
				if len(n.Lhs) == len(n.Rhs) {
					for i, l := range n.Lhs {
						if id, ok := l.(*ast.Ident); ok {
							if o := info.ObjectOf(id); o != nil {
								assigned[o] = append(assigned[o], n.Rhs[i])
							}
						}
					}
				}
			case *ast.ValueSpec:
				for i, id := range n.Names {
					if i < len(n.Values) {
						assigned[info.ObjectOf(id)] = append(assigned[info.ObjectOf(id)], n.Values[i])
					}
				}
			}
			return true
		})
		var hasBar func(e ast.Expr, depth int) bool
		hasBar = func(e ast.Expr, depth int) bool {
			found := false
			ast.Inspect(e, func(n ast.Node) bool {
				switch n := n.(type) {
				case *ast.BasicLit:
					if n.Kind == token.STRING && strings.Contains(n.Value, "|") {
						found = true
					}
				case *ast.Ident:
					if o := info.Uses[n]; o != nil && depth < 3 {
						if cv, ok := o.(*types.Const); ok && cv.Val().Kind() == constant.String && strings.Contains(constant.StringVal(cv.Val()), "|") {
							found = true
						}
						vals := assigned[o]
						all := len(vals) > 0
						for _, v := range vals {
							if !hasBar(v, depth+1) {
								all = false
							}
						}
						if all {
							found = true
						}
					}
				}
				return !found
			})
			return found
		}
		emitsBar := func(n ast.Node) bool {
			found := false
			ast.Inspect(n, func(m ast.Node) bool {
				call, ok := m.(*ast.CallExpr)
				if !ok {
					return true
				}
				sel, ok := call.Fun.(*ast.SelectorExpr)
				if !ok {
					return true
				}
				callee, _ := info.Uses[sel.Sel].(*types.Func)
				if callee == nil || callee.Type().(*types.Signature).Recv() == nil || !isBuilderType(callee.Type().(*types.Signature).Recv().Type()) {
					return true
				}
				for _, arg := range call.Args {
					if hasBar(arg, 0) {
						found = true
					}
				}
				return true
			})
			return found
		}
		var mentionsCount func(e ast.Expr, depth int) bool
		mentionsCount = func(e ast.Expr, depth int) bool {
			found := false
			ast.Inspect(e, func(n ast.Node) bool {
				switch n := n.(type) {
				case *ast.CallExpr:
					if id, ok := n.Fun.(*ast.Ident); ok && id.Name == "len" && len(n.Args) == 1 && isVariants(n.Args[0]) {
						found = true
					}
				case *ast.Ident:
					if o := info.Uses[n]; o != nil && depth < 3 {
						for _, v := range assigned[o] {
							if mentionsCount(v, depth+1) {
								found = true
							}
						}
					}
				}
				return !found
			})
			return found
		}
		ast.Inspect(fi.Decl.Body, func(n ast.Node) bool {
			rs, ok := n.(*ast.RangeStmt)
			if !ok || !isVariants(rs.X) {
				return true
			}
			var key types.Object
			if id, ok := rs.Key.(*ast.Ident); ok && id.Name != "_" {
				key = info.Defs[id]
			}
			uncond, sepIf, counted := false, false, false
			var walkIf func(st *ast.IfStmt)
			walkIf = func(st *ast.IfStmt) {
				mentionsKey := false
				ast.Inspect(st.Cond, func(m ast.Node) bool {
					if id, ok := m.(*ast.Ident); ok && key != nil && info.Uses[id] == key {
						mentionsKey = true
					}
					return true
				})
				if emitsBar(st.Body) {
					if mentionsKey {
						sepIf = true
					}
					if mentionsCount(st.Cond, 0) {
						counted = true
					}
				}
				switch e := st.Else.(type) {
				case *ast.IfStmt:
					walkIf(e)
				case *ast.BlockStmt:
					for _, s := range e.List {
						if is, ok := s.(*ast.IfStmt); ok {
							walkIf(is)
						}
					}
				}
			}
			for _, st := range rs.Body.List {
				switch st := st.(type) {
				case *ast.IfStmt:
					walkIf(st)
				case *ast.ExprStmt:
					if emitsBar(st) {
						uncond = true
					}
				}
			}
			if !uncond && !sepIf && !counted {
				return true // this loop does not print the bars (it inspects the variants)
			}
			ok2 := uncond || counted
			c.Ob(rule, fi.Name(), ok2, posStr(a.r.co.Fset, rs.Pos()), fmt.Sprintf("loop over the variants: bar written unconditionally=%v, as a separator under a test of the loop index=%v, under a test of the number of variants=%v — with only the separator a union with one variant is printed without its bar and parses back as a structure (or not at all)", uncond, sepIf, counted))
			return true
		})
	}
	c.Floor(rule, 1)
}

func isQuickTemplateWriter(t types.Type) bool {
	if p, ok := t.(*types.Pointer); ok {
		t = p.Elem()
	}
	n, ok := types.Unalias(t).(*types.Named)
	return ok && n.Obj().Pkg() != nil && strings.HasSuffix(n.Obj().Pkg().Path(), "valyala/quicktemplate") && n.Obj().Name() == "QWriter"
}
