package main

import (
	"fmt"
	"go/token"
	"regexp"
	"sort"
	"strings"
)

func init() { register("C42", checkC42) }

// lockedHelpers computes the methods of a type that never take the mutex themselves and whose every
// call site (inside the type's methods) holds it; their bodies are analysed as "held on entry".
func locksetForType(r *repoCtx, pkgPrefix, typeName, mutex string, guarded map[string]bool) (acc []lockAccess, helpers map[string]bool, problems []string, methods int) {
	var fis, others []*FuncInfo
	for name, fi := range r.funcs {
		if strings.HasPrefix(name, pkgPrefix+"."+typeName+".") {
			fis = append(fis, fi)
		} else if strings.HasPrefix(name, pkgPrefix+".") && fi.Decl.Body != nil {
			others = append(others, fi)
		}
	}
	sort.Slice(fis, func(i, j int) bool { return fis[i].Name() < fis[j].Name() })
	sort.Slice(others, func(i, j int) bool { return others[i].Name() < others[j].Name() })
	methods = len(fis)
	helpers = map[string]bool{}
	summaries := map[string]string{}
	for iter := 0; iter < 6; iter++ {
		acc = nil
		problems = nil
		callsHeld := map[string][]bool{}
		takesLock := map[string]bool{}
		newSummary := false
		var unbalanced []string
		for _, fi := range fis {
			short := strings.TrimPrefix(fi.Name(), typeName+".")
			w := walkLockset(fi, typeName, mutex, guarded, helpers[short], summaries)
			acc = append(acc, w.accesses...)
			switch sum := exitSummary(w, helpers[short]); sum {
			case "preserve":
				if summaries[short] != "" {
					delete(summaries, short)
					newSummary = true
				}
			case "condNil":
				if summaries[short] != sum {
					summaries[short] = sum
					newSummary = true
				}
			default:
				// while helper status is still being inferred a method may look unbalanced; only the final iteration reports
				unbalanced = append(unbalanced, fi.Name()+": exits with a lock state different from its entry state (entry held="+fmt.Sprint(helpers[short])+")")
			}
			for _, p := range w.problems {
				problems = append(problems, fi.Name()+": "+p)
			}
			for _, c := range w.calls {
				callsHeld[c.Method] = append(callsHeld[c.Method], c.Held)
			}
			// does it lock itself?
			src := r.co.Fset.Position(fi.Decl.Pos())
			_ = src
			for _, a := range w.accesses {
				_ = a
			}
			if strings.Contains(nodeText(fi), "."+mutex+".Lock()") || strings.Contains(nodeText(fi), "."+mutex+".RLock()") {
				takesLock[short] = true
			}
		}
		// functions outside the type that hold a variable of the type
		for _, fi := range others {
			w := walkLockset(fi, typeName, mutex, guarded, false, summaries)
			acc = append(acc, w.accesses...)
			for _, p := range w.problems {
				problems = append(problems, fi.Name()+": "+p)
			}
			for _, c := range w.calls {
				callsHeld[c.Method] = append(callsHeld[c.Method], c.Held)
			}
		}
		changed := false
		for _, fi := range fis {
			short := strings.TrimPrefix(fi.Name(), typeName+".")
			if takesLock[short] || helpers[short] {
				continue
			}
			hs := callsHeld[short]
			if len(hs) == 0 {
				continue
			}
			all := true
			for _, h := range hs {
				if !h {
					all = false
				}
			}
			if all {
				helpers[short] = true
				changed = true
			}
		}
		if !changed && !newSummary {
			problems = append(problems, unbalanced...)
			break
		}
	}
	return
}

func nodeText(fi *FuncInfo) string {
	var sb strings.Builder
	ir := buildFuncIR(fi, nil, fi.Pkg.Fset)
	dumpBlock(&sb, ir.Body, "")
	// the IR renames the receiver to "item"; use source-independent form
	return strings.ReplaceAll(sb.String(), "item.", "x.")
}

func checkC42(c *Check) {
	c.Explanation = "Weighted semaphore, decided on internal/vkgo/pkg/semaphore: (1) lockset — every access to cur, size and waiters in the operations of the property (Acquire, TryAcquire, Release, ForceAcquire, SetSize, Observe and the helper notifyWaiters, which is only called with mu held) happens with mu held; (2) admission guard — every non-forced `cur += n` is control-dependent on `size - cur >= n` for the same n in the same critical section (positive enclosing test, or a preceding `size-cur < n → break`), and the fast paths additionally on `waiters.Len() == 0`; (3) no lost wake-up — every statement that can raise size-cur or remove a waiter (`cur -=`, `size =`, `waiters.Remove`) is followed by notifyWaiters() before the unlock (on the cancel path under `isFront && size > cur`); (4) notifyWaiters admits strictly from the front and does `cur += n; Remove; close(ready)` together."
	c.NotCovered = "liveness under the Go scheduler, fairness, arithmetic overflow; WaitEmpty's unlocked read of size (outside the property's operation list, reported as info)"
	c.Trusted = []string{"go/types", "sync.Mutex, container/list semantics"}
	r := loadRepoFuncs(c, "./internal/vkgo/pkg/semaphore")
	if r == nil {
		return
	}
	guarded := map[string]bool{"cur": true, "size": true, "waiters": true}
	acc, helpers, problems, nm := locksetForType(r, "internal/vkgo/pkg/semaphore", "Weighted", "mu", guarded)
	for _, p := range problems {
		c.Undecided("semaphore/lockset", p, "", p)
	}
	c.Ob("semaphore/helper-called-only-under-lock", "Weighted.notifyWaiters", helpers["notifyWaiters"], "", fmt.Sprintf("methods analysed: %d; helpers running under the caller's lock: %v", nm, keysOf(helpers)))
	for _, a := range acc {
		key := a.Func + "/" + a.Field
		if a.Func == "Weighted.WaitEmpty" {
			c.Info("WaitEmpty reads %s without the lock at %s (outside the property's operation list)", a.Field, r.pos(a.Pos))
			continue
		}
		c.Ob("semaphore/lockset", key, a.Held, r.pos(a.Pos), fmt.Sprintf("access to %s with mu held=%v (write=%v)", a.Field, a.Held, a.Write))
	}
	// (2) admission guards and (3) wake-ups on the IR
	for _, m := range []string{"Acquire", "TryAcquire", "Release", "ForceAcquire", "SetSize", "notifyWaiters"} {
		ir := r.ir("internal/vkgo/pkg/semaphore.Weighted." + m)
		if ir == nil {
			continue
		}
		defs := inlineDefs(ir)
		for l, d := range boolDefs(ir) {
			defs[l] = d
		}
		var visit func(blk Block, guards []string)
		visit = func(blk Block, guards []string) {
			for i, n := range blk {
				switch n := n.(type) {
				case *IfN:
					cnd := expandLocals(n.Cond.String(), defs, 3)
					visit(n.Then, append(guards[:len(guards):len(guards)], cnd))
					visit(n.Else, append(guards[:len(guards):len(guards)], "!"+cnd))
				case *LoopN:
					visit(n.Body, guards)
				case *SwitchN:
					for _, cs := range n.Cases {
						visit(cs.Body, guards)
					}
				case *AssignN:
					if len(n.LHS) != 1 {
						continue
					}
					switch {
					case n.LHS[0] == "item.cur" && n.Tok == token.ADD_ASSIGN:
						if m == "ForceAcquire" {
							c.Ob("semaphore/forced-acquire-is-unconditional", "Weighted.ForceAcquire", len(guards) == 0, r.pos(n.Pos), "ForceAcquire adds unconditionally (by definition)")
							continue
						}
						amount := expandLocals(n.RHS[0], defs, 3)
						want := "(" + amount + " <= (item.size - item.cur))"
						ok := false
						how := ""
						for _, g := range guards {
							if strings.Contains(g, want) && !strings.HasPrefix(g, "!") {
								ok = true
								how = "enclosing test " + g
								if m != "notifyWaiters" && !strings.Contains(g, "!nz(item.waiters.Len())") {
									ok = false
									how = "fast path does not also require an empty waiter queue: " + g
								}
							}
						}
						// preceding `if size-cur < n { break }`
						neg := "((item.size - item.cur) < " + amount + ")"
						for _, p := range blk[:i] {
							if in, isIf := p.(*IfN); isIf && expandLocals(in.Cond.String(), defs, 3) == neg && len(in.Then) > 0 {
								if b, isB := in.Then[len(in.Then)-1].(*BranchN); isB && b.Tok == token.BREAK {
									ok, how = true, "preceded by `"+neg+" → break`"
								}
							}
						}
						c.Ob("semaphore/admission-guard", "Weighted."+m+"/cur+="+amount, ok, r.pos(n.Pos), "cur += "+amount+" must be control-dependent on "+want+": "+how)
					case n.LHS[0] == "item.cur" && n.Tok == token.SUB_ASSIGN, n.LHS[0] == "item.size" && n.Tok == token.ASSIGN:
						c.Ob("semaphore/wake-up-after-capacity-change", "Weighted."+m+"/"+n.LHS[0]+n.Tok.String(), notifiesBeforeUnlock(blk[i+1:]), r.pos(n.Pos), "a statement that raises size-cur is followed by notifyWaiters() before mu.Unlock()")
					}
				case *CallN:
					if n.Fn != nil && n.Fn.Name() == "Remove" && n.Recv == "item.waiters" && m != "notifyWaiters" {
						// cancel path: Remove(elem) then `if isFront && size > cur { notifyWaiters() }`
						ok := false
						for _, p := range blk[i+1:] {
							if in, isIf := p.(*IfN); isIf {
								cnd := expandLocals(in.Cond.String(), defs, 3)
								if strings.Contains(cnd, "(item.cur < item.size)") && strings.Contains(cnd, "item.waiters.Front()") && notifiesBeforeUnlock(in.Then) {
									ok = true
								}
							}
						}
						c.Ob("semaphore/wake-up-after-waiter-removed", "Weighted."+m+"/waiters.Remove", ok, r.pos(n.Pos), "removing a cancelled waiter that was at the front with capacity left is followed by notifyWaiters()")
					}
				}
			}
		}
		visit(ir.Body, nil)
	}
	// (4) notifyWaiters shape
	if ir := r.ir("internal/vkgo/pkg/semaphore.Weighted.notifyWaiters"); ir != nil {
		var sb strings.Builder
		dumpBlock(&sb, ir.Body, "")
		txt := localNameRx.ReplaceAllString(sb.String(), "$$")
		front := strings.Contains(txt, "call List.Front recv=item.waiters() -> [$]")
		together := strings.Contains(txt, "assign item.cur += $.n\n") && strings.Contains(txt, "call List.Remove recv=item.waiters($)") && strings.Contains(txt, "call close recv=($.ready)")
		nilBreak := regexp.MustCompile(`if !\(\$ != nil\)\n\s+break`).MatchString(txt)
		c.Ob("semaphore/notify-from-front", "Weighted.notifyWaiters", front && together && nilBreak, r.pos(ir.Info.Decl.Pos()), fmt.Sprintf("takes waiters.Front()=%v, stops on nil=%v, admits with cur+=n; Remove; close(ready) together=%v", front, nilBreak, together))
	}
	// (5) a waiter leaves the queue in one of two ways: its own Acquire removes it on cancellation, or someone admits it
	// — and admission is `cur += n; Remove; close(ready)` together. A Remove without the close (in any other function)
	// leaves that Acquire blocked for ever although it is no longer queued.
	for _, name := range sortedKeys(r.funcs) {
		fi := r.funcs[name]
		if !strings.HasPrefix(name, "internal/vkgo/pkg/semaphore.Weighted.") || fi.Decl.Body == nil || fi.Obj.Name() == "Acquire" {
			continue
		}
		ir := buildFuncIR(fi, r.co.allFuncs(), r.co.Fset)
		var blocks func(b Block)
		k := 0
		blocks = func(b Block) {
			removes, closes := 0, 0
			var pos token.Pos
			for _, n := range b {
				switch n := n.(type) {
				case *CallN:
					if n.Fn != nil && n.Fn.Name() == "Remove" && n.Recv == "item.waiters" {
						removes++
						pos = n.Pos
					}
					if n.Builtin == "close" && len(n.Args) == 1 && strings.HasSuffix(n.Args[0], ".ready") {
						closes++
					}
				case *IfN:
					blocks(n.Then)
					blocks(n.Else)
				case *LoopN:
					blocks(n.Body)
				case *SwitchN:
					for _, cs := range n.Cases {
						blocks(cs.Body)
					}
				}
			}
			if removes > 0 {
				k++
				c.Ob("semaphore/removed-waiter-is-woken", fmt.Sprintf("Weighted.%s/remove#%d", fi.Obj.Name(), k), removes == closes, r.pos(pos), fmt.Sprintf("waiters removed in this block: %d, ready channels closed: %d", removes, closes))
			}
		}
		blocks(ir.Body)
	}
	c.Floor("semaphore/removed-waiter-is-woken", 1)
	c.Floor("semaphore/lockset", 15)
	c.Floor("semaphore/admission-guard", 3)
	c.Floor("semaphore/wake-up-after-capacity-change", 2)
	c.Floor("semaphore/wake-up-after-waiter-removed", 1)
}

// notifiesBeforeUnlock: scanning forward in the block, notifyWaiters() is called before mu.Unlock();
// an `if … { Unlock; panic }` guard in between is allowed.
func notifiesBeforeUnlock(rest Block) bool {
	for _, n := range rest {
		call, ok := n.(*CallN)
		if !ok || call.Fn == nil {
			continue
		}
		if call.Fn.Name() == "notifyWaiters" && call.Recv == "item" {
			return true
		}
		if call.Fn.Name() == "Unlock" {
			return false
		}
	}
	return false
}
