package main

import (
	"fmt"
	"go/token"
	"go/types"
	"regexp"
	"sort"
	"strings"
)

// TL2 role tables.
var tl2Prims = map[string]primSpec{
	"NatRead": {"nat", "r"}, "NatWrite": {"nat", "w"},
	"IntRead": {"int", "r"}, "IntWrite": {"int", "w"},
	"LongRead": {"long", "r"}, "LongWrite": {"long", "w"},
	"FloatRead": {"float", "r"}, "FloatWrite": {"float", "w"},
	"DoubleRead": {"double", "r"}, "DoubleWrite": {"double", "w"},
	"Uint64Read": {"u64", "r"}, "Uint64Write": {"u64", "w"},
	"StringReadTL2": {"string2", "r"}, "StringWriteTL2": {"string2", "w"},
	"StringReadTL2Bytes": {"string2", "r"}, "StringWriteTL2Bytes": {"string2", "w"},
	"ByteBoolReadTL2": {"bytebool", "r"}, "ByteBoolWriteTL2": {"bytebool", "w"},
	"ByteReadTL2": {"byte2", "r"}, "ByteWriteTL2": {"byte2", "w"},
	"ByteRead": {"byte", "r"}, "ByteWrite": {"byte", "w"},
	"VectorBitContentReadTL2": {"bits", "r"}, "VectorBitContentWriteTL2": {"bits", "w"},
	"TL2WriteSize": {"size", "w"}, "TL2ParseSize": {"size", "r"},
	"SkipSizedValue": {"skip", "r"}, "SkipFixedSizedValue": {"skipfixed", "r"},
	"MaybeBoolWriteTL2": {"maybebool", "w"},
}

var tl2ReadCfg = &wireCfg{prims: tl2Prims, callRoles: map[string]string{"InternalReadTL2": "TL2", "ReadTL2": "TL2top"}}
var tl2WriteCfg = &wireCfg{prims: tl2Prims, callRoles: map[string]string{"InternalWriteTL2": "TL2", "WriteTL2": "TL2top"}}
var tl2CalcCfg = &wireCfg{prims: map[string]primSpec{"TL2CalculateSize": {"calcsize", "w"}}, callRoles: map[string]string{"CalculateLayout": "TL2"}}

func init() { register("C03", checkC03) }

type slot struct {
	Block int
	Bit   int
	Cond  string
	Ops   []string // canonical data ops
	Masks []string // tl2mask sets (reader)
	Pos   token.Pos
}

func (s slot) key() string { return fmt.Sprintf("block%d.bit%d", s.Block, s.Bit) }

func isByteType(t string) bool { return t == "byte" || t == "uint8" }

// dataOps flattens a wire list into canonical data operations (no facts, no returns).
func dataOps(l []W) []string {
	var out []string
	var rec func(l []W, prefix string)
	rec = func(l []W, prefix string) {
		for _, w := range l {
			switch w := w.(type) {
			case *WPrim:
				out = append(out, prefix+w.Kind+" "+w.Operand+strings.Join(w.Consts, ","))
			case *WCall:
				out = append(out, prefix+"call "+w.Family+"/"+w.Role+" "+w.Operand+" ["+strings.Join(w.Nat, ",")+"]")
			case *WIf:
				rec(w.Then, prefix)
				rec(w.Else, prefix)
			case *WLoop:
				rec(w.Body, prefix+"loop("+w.Over+") ")
			case *WCounted:
				out = append(out, prefix+"size len("+w.Coll+")")
				rec(w.Body, prefix+"loop("+w.Coll+") ")
			case *WSwitch:
				for _, k := range sortedKeys(w.Arms) {
					rec(w.Arms[k], prefix+"case("+k+") ")
				}
			case *WUnion:
				for _, k := range sortedKeys(w.Arms) {
					rec(w.Arms[k], prefix+"case("+k+") ")
				}
			}
		}
	}
	rec(l, "")
	return out
}

func hasLocalOperand(op string) bool { return strings.Contains(op, "$") }

// valueOps keeps only the operations whose operand is rooted in the value (item/val/nat), dropping
// bookkeeping on locals (sizes, block bytes, element counters).
func valueOps(ops []string) []string {
	var out []string
	for _, o := range ops {
		f := strings.Fields(o)
		// find the op kind token (after any loop()/case() prefixes)
		i := 0
		for i < len(f) && (strings.HasPrefix(f[i], "loop(") || strings.HasPrefix(f[i], "case(")) {
			i++
		}
		if i >= len(f) {
			continue
		}
		kind := f[i]
		switch kind {
		case "byte", "skip", "skipfixed":
			continue
		case "size":
			rest := strings.Join(f[i+1:], " ")
			if strings.HasPrefix(rest, "len(") {
				out = append(out, o)
			}
			continue
		}
		out = append(out, o)
	}
	return out
}

func (g *genCtx) writerSlots(fi *FuncInfo) (slots []slot, b *wireBuilder) {
	ir := g.ir(fi)
	b = &wireBuilder{ir: ir, cfg: tl2WriteCfg, co: g.co, funcs: g.funcs, lenOf: map[string]string{}, keysOf: map[string]string{}, locType: map[string]string{}}
	b.noteLocals(ir.Body)
	isBlockVar := func(s string) bool { return localRx.MatchString(s) && isByteType(b.locType[s]) }
	blockNo := 0
	var pending Block
	for _, n := range ir.Body {
		switch n := n.(type) {
		case *AssignN:
			if len(n.LHS) == 1 && isBlockVar(n.LHS[0]) {
				if n.Tok == token.ASSIGN && len(n.RHS) == 1 && n.RHS[0] == "#0" {
					blockNo++
					pending = nil
					continue
				}
				if n.Tok == token.OR_ASSIGN && len(n.RHS) == 1 {
					for _, bit := range bitsOfConst(n.RHS[0]) {
						slots = append(slots, slot{Block: blockNo, Bit: bit, Cond: "always", Ops: dataOps(g.inlineTrivial(b.build(lastCalls(pending), "w"), tl2WriteCfg, "w")), Pos: n.Pos})
					}
					pending = nil
					continue
				}
			}
			pending = nil
		case *CallN:
			pending = append(pending, n)
		case *IfN:
			var rest Block
			var bitsSet []int
			for _, t := range n.Then {
				if a, ok := t.(*AssignN); ok && len(a.LHS) == 1 && isBlockVar(a.LHS[0]) && a.Tok == token.OR_ASSIGN && len(a.RHS) == 1 {
					bitsSet = append(bitsSet, bitsOfConst(a.RHS[0])...)
					continue
				}
				rest = append(rest, t)
			}
			if len(bitsSet) > 0 {
				cond := b.canonCond(n.Cond).String()
				ops := dataOps(g.inlineTrivial(b.build(rest, "w"), tl2WriteCfg, "w"))
				if n.Cond.Kind == "nz" && localRx.MatchString(n.Cond.X) && len(pending) > 0 {
					if call, ok := pending[len(pending)-1].(*CallN); ok && containsStr(call.Results, n.Cond.X) {
						ops = append(dataOps(g.inlineTrivial(b.build(Block{call}, "w"), tl2WriteCfg, "w")), ops...)
						cond = "nonempty-result"
					}
				}
				for _, bit := range bitsSet {
					slots = append(slots, slot{Block: blockNo, Bit: bit, Cond: cond, Ops: ops, Pos: n.Pos})
				}
			}
			pending = nil
		default:
			pending = nil
		}
	}
	return
}

func containsStr(l []string, s string) bool {
	for _, x := range l {
		if x == s {
			return true
		}
	}
	return false
}

// lastCalls returns the trailing run of wire-relevant calls (those writing to the buffer).
func lastCalls(p Block) Block {
	var out Block
	for i := len(p) - 1; i >= 0; i-- {
		c, ok := p[i].(*CallN)
		if !ok || c.Fn == nil {
			break
		}
		out = append(Block{c}, out...)
	}
	return out
}

func (g *genCtx) readerSlots(fi *FuncInfo) (slots []slot, b *wireBuilder, framing []string) {
	ir := g.ir(fi)
	b = &wireBuilder{ir: ir, cfg: tl2ReadCfg, co: g.co, funcs: g.funcs, lenOf: map[string]string{}, keysOf: map[string]string{}, locType: map[string]string{}}
	b.noteLocals(ir.Body)
	blockVar := ""
	blockNo := -1
	for _, p := range ir.Params {
		if b, ok := p.Var.Type().Underlying().(*types.Basic); ok && b.Kind() == types.Uint8 {
			blockVar = p.Name
			blockNo = 0
		}
	}
	isByteRead := func(n Node) (string, bool) {
		c, ok := n.(*CallN)
		if !ok || c.Fn == nil || !isBasictl(c.Fn.Pkg()) || c.Fn.Name() != "ByteRead" || len(c.Args) != 2 {
			return "", false
		}
		return c.Args[1], true
	}
	for _, n := range ir.Body {
		if v, ok := isByteRead(n); ok {
			if blockVar == "" {
				blockVar = v
			}
			if v == blockVar {
				blockNo++
			}
			continue
		}
		in, ok := n.(*IfN)
		if !ok {
			continue
		}
		// next block: if len(currentR) > 0 { ByteRead(&block) } else { block = 0 }
		if len(in.Then) == 1 {
			if v, ok := isByteRead(in.Then[0]); ok && v == blockVar {
				blockNo++
				okElse := false
				if len(in.Else) == 1 {
					if a, ok := in.Else[0].(*AssignN); ok && len(a.LHS) == 1 && a.LHS[0] == blockVar && len(a.RHS) == 1 && a.RHS[0] == "#0" {
						okElse = true
					}
				}
				cd := b.canonCond(in.Cond).String()
				if !okElse {
					framing = append(framing, "next block byte is read under `"+cd+"` but the else arm does not zero the block")
				}
				if !(in.Cond.Kind == "cmp" && strings.Contains(cd, "len(") && (strings.HasPrefix(cd, "(#0 <") || strings.Contains(cd, "!= #0"))) && !(in.Cond.Kind == "nz" && strings.HasPrefix(in.Cond.X, "len(")) {
					framing = append(framing, "next block byte is read under unexpected guard `"+cd+"`")
				}
				continue
			}
		}
		if in.Cond.Kind == "bit" && !in.Cond.Neg && in.Cond.X == blockVar && blockVar != "" {
			s := slot{Block: blockNo, Bit: in.Cond.Bit, Cond: "bit", Ops: dataOps(g.inlineTrivial(b.build(in.Then, "r"), tl2ReadCfg, "r")), Pos: in.Pos}
			for _, t := range in.Then {
				if a, ok := t.(*AssignN); ok && len(a.LHS) == 1 && isTL2MaskField(a.LHS[0]) && a.Tok == token.OR_ASSIGN {
					for _, bit := range bitsOfConst(a.RHS[0]) {
						s.Masks = append(s.Masks, bitRef{a.LHS[0], bit}.String())
					}
				}
			}
			slots = append(slots, s)
		}
	}
	return
}

type calcSlot struct {
	Block int
	Cond  string
	Terms []string
	Pos   token.Pos
}

func (g *genCtx) calcSlots(fi *FuncInfo) (slots []calcSlot, b *wireBuilder) {
	ir := g.ir(fi)
	b = &wireBuilder{ir: ir, cfg: tl2CalcCfg, co: g.co, funcs: g.funcs, lenOf: map[string]string{}, keysOf: map[string]string{}, locType: map[string]string{}}
	b.noteLocals(ir.Body)
	// the size accumulator is the local that receives `+=` / `++`
	sizeVar := ""
	if len(ir.Body) > 0 {
		if r, ok := ir.Body[len(ir.Body)-1].(*ReturnN); ok && len(r.Vals) == 2 && localRx.MatchString(r.Vals[1]) {
			sizeVar = r.Vals[1]
		}
	}
	// identify the "last used" variable: a local assigned from the accumulator (`lastUsedByte = currentSize`)
	isLastAssign := func(n Node) bool {
		a, ok := n.(*AssignN)
		return ok && len(a.RHS) == 1 && a.RHS[0] == sizeVar && a.Tok == token.ASSIGN && len(a.LHS) == 1 && len(a.RHS) == 1 && localRx.MatchString(a.LHS[0]) && localRx.MatchString(a.RHS[0]) &&
			!strings.ContainsAny(a.RHS[0], "()[] ") && !strings.ContainsAny(a.LHS[0], "()[] ") && b.locType[a.LHS[0]] == "int" && b.locType[a.RHS[0]] == "int"
	}
	terms := func(blk Block) []string {
		var out []string
		var lastCall *CallN
		for _, n := range blk {
			switch n := n.(type) {
			case *CallN:
				if n.Fn != nil {
					if isBasictl(n.Fn.Pkg()) && n.Fn.Name() == "TL2CalculateSize" {
						out = append(out, "calcsize("+b.canon(n.Args[0])+")")
						continue
					}
					if _, ok := g.funcs[n.Fn]; ok {
						lastCall = n
					}
				}
			case *AssignN:
				if n.Tok == token.ADD_ASSIGN && len(n.RHS) == 1 {
					r := n.RHS[0]
					if lastCall != nil && containsStr(lastCall.Results, r) {
						out = append(out, dataOps(b.build(Block{lastCall}, "w"))...)
						lastCall = nil
					} else {
						out = append(out, "+"+b.canon(r))
					}
				}
			}
		}
		return out
	}
	blockNo := 0
	var pending Block
	for _, n := range ir.Body {
		switch n := n.(type) {
		case *AssignN:
			if n.Tok == token.INC && len(n.LHS) == 1 && localRx.MatchString(n.LHS[0]) {
				blockNo++
				pending = nil
				continue
			}
			if isLastAssign(n) {
				slots = append(slots, calcSlot{Block: blockNo, Cond: "always", Terms: terms(pending), Pos: n.Pos})
				pending = nil
				continue
			}
			pending = append(pending, n)
		case *CallN:
			pending = append(pending, n)
		case *IfN:
			has := false
			for _, t := range n.Then {
				if isLastAssign(t) {
					has = true
				}
			}
			if has {
				cond := b.canonCond(n.Cond).String()
				blk := n.Then
				if n.Cond.Kind == "nz" && localRx.MatchString(n.Cond.X) && len(pending) > 0 {
					if call, ok := pending[len(pending)-1].(*CallN); ok && containsStr(call.Results, n.Cond.X) {
						blk = append(Block{call}, blk...)
						cond = "nonempty-result"
					}
				}
				slots = append(slots, calcSlot{Block: blockNo, Cond: cond, Terms: terms(blk), Pos: n.Pos})
			}
			pending = nil
		default:
			pending = nil
		}
	}
	return
}

// widthOf maps a writer data op to the size term CalculateLayout must add for it.
func widthOf(op string) (string, bool) {
	f := strings.Fields(op)
	if len(f) == 0 {
		return "", false
	}
	switch f[0] {
	case "nat", "int", "float":
		return "+#4", true
	case "long", "double", "u64":
		return "+#8", true
	case "bytebool", "byte2", "maybebool":
		return "+#1", true
	case "call":
		return op, true
	case "size":
		return "calcsize(" + strings.Join(f[1:], " ") + ")", true
	}
	return "", false
}

func checkC03(c *Check) {
	c.Explanation = "Three-way agreement CalculateLayout ≅ InternalWriteTL2 ≅ InternalReadTL2 per generated type. (1) slots: every field slot of the writer (presence condition, block byte number, block bit, data operations) has a reader slot with the same block byte and bit whose operations are the duals on the same operands; reader slots without a writer counterpart only skip; CalculateLayout has the same slots in the same order under the same presence conditions, starts a new block byte at the same places, and adds the width of what the writer writes (4/8/1 for fixed primitives, the callee's size for nested values with the same optimize-empty flag). (2) the flattened sequence of value operations (primitive kind, operand, nesting) of writer and reader agree for every type, and the nested-call sequence of CalculateLayout equals the writer's. (3) framing: readers parse the size first and fail when it exceeds the remaining input before slicing. (4) every panic in a TL2 writer is guarded only by calculate/write bookkeeping (no dependence on the value)."
	c.NotCovered = "numeric values of sizes (only that both passes add the same terms); schemas outside the corpus"
	c.Trusted = []string{"go/types", "basictl TL2 primitive duality table (C33)"}
	withCorpora(c, true, func(g *genCtx) {
		if !g.co.Spec.TL2 {
			return
		}
		for _, fam := range g.families() {
			g.tl2Agreement(c, g.co.Spec.Name+":"+shortFam(fam), g.byFam[fam])
		}
	})
	c.Floor("tl2-value-ops/write~read", 300)
	c.Floor("tl2-value-ops/calc~write", 300)
	c.Floor("tl2-slot/write~read", 500)
	c.Floor("tl2-slot/calc~write", 500)
	c.Floor("tl2-reader-framing", 300)
	c.Floor("tl2-writer-panic-guarded", 300)
}

// tl2Agreement decides the CalculateLayout / InternalWriteTL2 / InternalReadTL2 agreement of one family.
func (g *genCtx) tl2Agreement(c *Check, name string, roles map[string]*FuncInfo) {
	wr, rd, ca := roles["InternalWriteTL2"], roles["InternalReadTL2"], roles["CalculateLayout"]
	if wr == nil || rd == nil {
		return
	}
	pos := posStr(g.co.Fset, wr.Decl.Pos())
	// a value stored into the destination collection must come from a temporary that is fresh per element
	g.freshTemporaries(c, "tl2-reader-fresh-temporaries", name+".InternalReadTL2", rd)
	// the layout pass drops the size entries of an object whose body turned out empty whenever it is empty — the
	// writer returns early for an empty body without consuming them, whatever optimizeEmpty says
	if ca != nil {
		for _, n := range g.ir(ca).Body {
			in, ok := n.(*IfN)
			if !ok {
				continue
			}
			for _, t := range in.Then {
				if as, isA := t.(*AssignN); isA && len(as.LHS) == 1 && len(as.RHS) == 1 && as.LHS[0] == "sizes" && strings.HasPrefix(as.RHS[0], "sizes[:") {
					cond := in.Cond.String()
					okc := in.Cond.Kind == "nz" && in.Cond.Neg && localRx.MatchString(in.Cond.X) && len(in.Else) == 0
					c.Ob("tl2-calc/size-entries-dropped-whenever-empty", name, okc, posStr(g.co.Fset, in.Pos), "the truncation of the size list is guarded by `body size == 0` alone: "+cond)
				}
			}
		}
	}
	// (2) flattened value ops
	ww, wb := g.wire(wr, tl2WriteCfg, "w")
	rw, rb := g.wire(rd, tl2ReadCfg, "r")
	for _, p := range append(wb.problems, rb.problems...) {
		c.Undecided("tl2-value-ops", name, pos, p)
	}
	ww, rw = g.inlineTrivial(ww, tl2WriteCfg, "w"), g.inlineTrivial(rw, tl2ReadCfg, "r")
	wo, ro := valueOps(dataOps(ww)), valueOps(dataOps(rw))
	ok := strings.Join(wo, "\n") == strings.Join(ro, "\n")
	d := fmt.Sprintf("%d value ops", len(wo))
	if !ok {
		d = firstDiff(strings.Join(ro, "\n"), strings.Join(wo, "\n")) + "\n      reader: " + strings.Join(ro, " | ") + "\n      writer: " + strings.Join(wo, " | ")
	}
	c.Ob("tl2-value-ops/write~read", name, ok, pos, d)
	if ca != nil {
		cw, _ := g.wire(ca, tl2CalcCfg, "w")
		co := callsOnly(dataOps(cw))
		wc := callsOnly(dataOps(ww))
		ok := strings.Join(co, "\n") == strings.Join(wc, "\n")
		d := fmt.Sprintf("%d nested values", len(co))
		if !ok {
			d = "CalculateLayout and InternalWriteTL2 traverse nested values differently (sizes would be popped in another order than pushed)\n      calc:   " + strings.Join(co, " | ") + "\n      writer: " + strings.Join(wc, " | ")
		}
		c.Ob("tl2-value-ops/calc~write", name, ok, pos, d)
	}
	// (1) slots
	wsl, _ := g.writerSlots(wr)
	// a float field is left out of the TL2 encoding only when it is the zero *bit pattern*: `x != 0` is false for
	// -0.0, which would then come back as +0.0 and re-encode differently in TL1
	if wir := g.ir(wr); wir.Recv != nil && c.ID == "C03" {
		if st, isS := derefStruct(wir.Recv.Type()); isS {
			for _, sl := range wsl {
				m := regexp.MustCompile(`^nz\(item\.(\w+)\)$`).FindStringSubmatch(sl.Cond)
				if m == nil {
					continue
				}
				for i := 0; i < st.NumFields(); i++ {
					if f := st.Field(i); f.Name() == m[1] {
						if b, isB := f.Type().Underlying().(*types.Basic); isB && b.Info()&types.IsFloat != 0 {
							c.Ob("tl2-slot/float-omitted-only-when-bitwise-zero", shortConstruct(name)+"/float-field", false, posStr(g.co.Fset, sl.Pos), "float field "+m[1]+" is written only under `"+m[1]+" != 0`, which is false for -0.0")
						}
					}
				}
			}
		}
	}
	rsl, _, framing := g.readerSlots(rd)
	for _, f := range framing {
		c.Ob("tl2-block-framing", name, false, pos, f)
	}
	if len(wsl) > 0 || len(rsl) > 0 {
		rmap := map[string]slot{}
		for _, s := range rsl {
			if _, dup := rmap[s.key()]; dup {
				c.Ob("tl2-slot/reader-unique", name+"/"+s.key(), false, posStr(g.co.Fset, s.Pos), "reader tests the same block bit twice")
			}
			rmap[s.key()] = s
		}
		wseen := map[string]bool{}
		for _, s := range wsl {
			r, ok := rmap[s.key()]
			wseen[s.key()] = true
			if s.Block == 0 && s.Bit == 0 {
				// variant-index slot: exactly one size word; the parent union reader (or this
				// reader) parses it under bit 0
				okv := len(s.Ops) == 1 && strings.HasPrefix(s.Ops[0], "size ")
				d := "writer variant-index slot ops " + strings.Join(s.Ops, " | ")
				if ok {
					okv = okv && len(r.Ops) >= 1 && strings.HasPrefix(r.Ops[0], "size ")
					d += "; reader " + strings.Join(r.Ops, " | ")
				}
				c.Ob("tl2-slot/variant-index", name, okv, posStr(g.co.Fset, s.Pos), d)
				continue
			}
			if !ok {
				// a writer slot that can never be set (`if false`) needs no reader
				if s.Cond == "false" {
					continue
				}
				c.Ob("tl2-slot/write~read", name+"/"+s.key(), false, posStr(g.co.Fset, s.Pos), "writer sets "+s.key()+" under `"+s.Cond+"` but the reader never tests that bit")
				continue
			}
			wops, rops := strings.Join(valueOps(s.Ops), " | "), strings.Join(valueOps(r.Ops), " | ")
			c.Ob("tl2-slot/write~read", name+"/"+s.key(), wops == rops, posStr(g.co.Fset, s.Pos), fmt.Sprintf("writer [%s] under `%s`; reader [%s]", wops, s.Cond, rops))
		}
		for _, s := range rsl {
			if wseen[s.key()] {
				continue
			}
			// reader-only slot: must not produce value data (skip / variant index check only)
			if s.Block == 0 && s.Bit == 0 {
				okv := len(s.Ops) == 1 && strings.HasPrefix(s.Ops[0], "size ")
				c.Ob("tl2-slot/variant-index", name, okv, posStr(g.co.Fset, s.Pos), "reader variant-index slot ops "+strings.Join(s.Ops, " | "))
				continue
			}
			vo := valueOps(s.Ops)
			c.Ob("tl2-slot/reader-only-skips", name+"/"+s.key(), len(vo) == 0 && len(s.Masks) == 0, posStr(g.co.Fset, s.Pos), "reader-only slot ops: "+strings.Join(s.Ops, " | "))
		}
		if ca != nil {
			csl, _ := g.calcSlots(ca)
			// writer slots in order, ignoring multi-bit duplicates
			var wl []slot
			for _, s := range wsl {
				wl = append(wl, s)
			}
			if len(csl) != len(wl) {
				c.Ob("tl2-slot/calc~write", name, false, pos, fmt.Sprintf("CalculateLayout has %d field slots, InternalWriteTL2 has %d", len(csl), len(wl)))
			} else {
				for i := range wl {
					cs, s := csl[i], wl[i]
					var want []string
					und := false
					for _, op := range s.Ops {
						if strings.HasPrefix(op, "string2") {
							und = true
							continue
						}
						w, ok := widthOf(op)
						if !ok {
							und = true
							continue
						}
						want = append(want, w)
					}
					okc := cs.Cond == s.Cond && cs.Block == s.Block
					det := fmt.Sprintf("slot %d: calc block %d cond `%s` terms %v; writer block %d cond `%s` ops %v", i, cs.Block, cs.Cond, cs.Terms, s.Block, s.Cond, s.Ops)
					if !und {
						okc = okc && strings.Join(want, " ") == strings.Join(cs.Terms, " ")
					} else {
						okc = okc && len(cs.Terms) > 0
					}
					c.Ob("tl2-slot/calc~write", name+"/"+s.key(), okc, posStr(g.co.Fset, cs.Pos), det)
				}
			}
		}
	}
	// (3) framing of the reader: first op is a size parse followed by a length guard
	g.tl2ReaderFraming(c, name, rd, rw, len(wo) == 0)
	// (4) writer panics
	for _, fi := range []*FuncInfo{wr, roles["WriteTL2"]} {
		if fi == nil {
			continue
		}
		ir := g.ir(fi)
		walkBlock(ir.Body, nil, func(n Node, gs []Guard) {
			call, ok := n.(*CallN)
			if !ok || call.Builtin != "panic" {
				return
			}
			if strings.Contains(strings.Join(call.Args, ""), "not implemented for tl2 type") || strings.Contains(strings.Join(call.Args, ""), "TL2Error") {
				return // TL1-only stub
			}
			gtxt := guardStr(gs)
			okp := len(gs) > 0 && !strings.Contains(gtxt, "item.") && !strings.Contains(gtxt, "val")
			c.Ob("tl2-writer-panic-guarded", name+"/"+fi.Obj.Name(), okp, posStr(g.co.Fset, call.Pos), "panic under `"+gtxt+"`")
		})
	}
}

// inlineTrivial replaces a call to a sibling whose whole wire program is one primitive on its own
// receiver/value (typedef-like wrappers) by that primitive on the caller's operand.
func (g *genCtx) inlineTrivial(l []W, cfg *wireCfg, dir string) []W {
	var out []W
	for _, w := range l {
		switch w := w.(type) {
		case *WCall:
			if fi := g.funcs[w.Fn]; fi != nil {
				key := fi.Obj.FullName() + dir
				res, ok := g.trivial[key]
				if !ok {
					g.trivial[key] = nil // cycle guard
					cw, _ := g.wire(fi, cfg, dir)
					ops := realOps(cw)
					if !carriesData(dataOps(g.inlineTrivial(cw, cfg, dir))) {
						// the callee carries no value data (empty object such as `true`)
						res = &WPrim{Kind: "emptyobj"}
					}
					if len(ops) == 1 {
						switch p := ops[0].(type) {
						case *WPrim:
							if p.Operand == "item" || p.Operand == "val" {
								res = p
							}
						case *WCall:
							// wrapper of a wrapper
							inner := g.inlineTrivial([]W{p}, cfg, dir)
							if ip, ok := inner[0].(*WPrim); ok && (p.Operand == "item" || p.Operand == "val") {
								res = ip
							}
						}
					}
					g.trivial[key] = res
				}
				if res != nil {
					if res.Kind == "emptyobj" {
						continue
					}
					out = append(out, &WPrim{Kind: res.Kind, Operand: w.Operand, Consts: res.Consts, Pos: w.Pos})
					continue
				}
			}
			out = append(out, w)
		case *WIf:
			out = append(out, &WIf{Cond: w.Cond, Then: g.inlineTrivial(w.Then, cfg, dir), Else: g.inlineTrivial(w.Else, cfg, dir), Pos: w.Pos})
		case *WLoop:
			out = append(out, &WLoop{Over: w.Over, Body: g.inlineTrivial(w.Body, cfg, dir), Pos: w.Pos})
		case *WCounted:
			out = append(out, &WCounted{Coll: w.Coll, Body: g.inlineTrivial(w.Body, cfg, dir), Pos: w.Pos})
		case *WSwitch:
			n := &WSwitch{Tag: w.Tag, Arms: map[string][]W{}, Pos: w.Pos}
			for k, v := range w.Arms {
				n.Arms[k] = g.inlineTrivial(v, cfg, dir)
			}
			out = append(out, n)
		case *WUnion:
			n := &WUnion{Tags: w.Tags, Arms: map[string][]W{}, DefaultFail: w.DefaultFail, Pos: w.Pos}
			for k, v := range w.Arms {
				n.Arms[k] = g.inlineTrivial(v, cfg, dir)
			}
			out = append(out, n)
		default:
			out = append(out, w)
		}
	}
	return out
}

// carriesData: the flattened ops contain value data or a variant index.
func carriesData(ops []string) bool {
	if len(valueOps(ops)) > 0 {
		return true
	}
	for _, o := range ops {
		if strings.Contains(o, "size item.index") || strings.Contains(o, "calcsize(item.index") {
			return true
		}
	}
	return false
}

func callsOnly(ops []string) []string {
	var out []string
	for _, o := range ops {
		if strings.Contains(o, "call ") {
			out = append(out, o)
		}
	}
	return out
}

func (g *genCtx) tl2ReaderFraming(c *Check, name string, rd *FuncInfo, rw []W, writerEmpty bool) {
	pos := posStr(g.co.Fset, rd.Decl.Pos())
	ops := realOps(rw)
	if len(ops) == 0 {
		// a variant without fields reads nothing; fine iff its writer writes no value data either
		c.Ob("tl2-reader-framing", name, writerEmpty, pos, "reader has no wire effect; writer has no value data="+fmt.Sprint(writerEmpty))
		return
	}
	// delegating wrappers (typedef-like) and variant readers (take the block byte) are exempt
	if len(ops) == 1 {
		if _, ok := ops[0].(*WCall); ok {
			return
		}
	}
	for _, p := range g.ir(rd).Params {
		if p.Name == "p:block" {
			return
		}
	}
	first, ok := ops[0].(*WPrim)
	if !ok || first.Kind != "size" {
		if ok && first.Kind != "size" && len(ops) == 1 {
			return // single fixed-width primitive (bare wrapper)
		}
		c.Ob("tl2-reader-framing", name, false, pos, "object reader does not start by parsing its size: first op "+wString(ops[:1]))
		return
	}
	// a guard `len(buf) < size` must exist among the guard facts at top level
	found := false
	var scan func(l []W)
	scan = func(l []W) {
		for _, w := range l {
			switch w := w.(type) {
			case *WFact:
				if w.Kind == "guard" && strings.Contains(w.A, "len(buf) < "+first.Operand) {
					found = true
				}
			case *WIf:
				scan(w.Then)
				scan(w.Else)
			}
		}
	}
	scan(rw)
	c.Ob("tl2-reader-framing", name, found, pos, "size "+first.Operand+" parsed first; guard `len(input) < size → error` present="+fmt.Sprint(found))
}

var _ = sort.Strings

func derefStruct(t types.Type) (*types.Struct, bool) {
	if p, ok := t.(*types.Pointer); ok {
		t = p.Elem()
	}
	st, ok := t.Underlying().(*types.Struct)
	return st, ok
}

// shortConstruct drops the corpus prefix, so that one finding covers the same generated construct in every corpus.
func shortConstruct(name string) string {
	if i := strings.Index(name, ":"); i >= 0 {
		return "generated struct writers"
	}
	return name
}
