package main

import (
	"fmt"
	"go/ast"
	"go/types"
	"strings"
)

func init() { register("C07", checkC07) }

var jsonReadCfg = &wireCfg{prims: map[string]primSpec{}, callRoles: map[string]string{"ReadJSONGeneral": "JSON", "ReadJSON": "JSON"}}
var jsonWriteCfg = &wireCfg{prims: map[string]primSpec{}, callRoles: map[string]string{"WriteJSONOpt": "JSON", "WriteJSONGeneral": "JSON", "WriteJSON": "JSON"}}

func checkC07(c *Check) {
	c.Explanation = "For every generated function: (1) each of the six ReadResultX+WriteResultY transcoders is exactly `var ret T; ReadResultX(r, &ret)` with the error checked and returned, then `WriteResultY(w, ret)` on the same ret, reading from the input buffer and appending to the output buffer, with no other effect; (2) the result codecs of one function (TL1 read/write, JSON read/write) pass identical nat arguments (request fields) to the result type and all use one result type; (3) the TL1 result pair is dual (rule of C01) and calculateLayoutResult / writeResultTL2 / ReadResultTL2 agree slot by slot (rules of C03)."
	c.NotCovered = "value-level agreement with 'decode then encode' beyond this composition identity; JSON value equality"
	c.Trusted = []string{"go/types", "C01/C03 rules"}
	combos := []struct{ name, read, write string }{
		{"ReadResultTL1WriteResultJSON", "ReadResultTL1", "writeResultJSON"},
		{"ReadResultJSONWriteResultTL1", "ReadResultJSON", "WriteResultTL1"},
		{"ReadResultTL1WriteResultTL2", "ReadResultTL1", "WriteResultTL2"},
		{"ReadResultTL2WriteResultTL1", "ReadResultTL2", "WriteResultTL1"},
		{"ReadResultTL2WriteResultJSON", "ReadResultTL2", "writeResultJSON"},
		{"ReadResultJSONWriteResultTL2", "ReadResultJSON", "WriteResultTL2"},
	}
	withCorpora(c, true, func(g *genCtx) {
		natArgAgreement(c, g, "result-nat-arguments-agree", "WriteResultTL1", []string{"ReadResultTL1", "ReadResultJSON", "WriteResultJSON", "writeResultJSON"})
		for _, fam := range g.families() {
			roles := g.byFam[fam]
			if roles["ReadResultTL1"] == nil && roles["ReadResultTL2"] == nil && roles["ReadResultJSON"] == nil {
				continue
			}
			name := g.co.Spec.Name + ":" + shortFam(fam)
			// (1) transcoders
			for _, cb := range combos {
				fi := roles[cb.name]
				if fi == nil {
					continue
				}
				ir := g.ir(fi)
				var problems []string
				var calls []*CallN
				retLocal := ""
				for _, n := range ir.Body {
					switch n := n.(type) {
					case *DeclN:
						if retLocal == "" {
							retLocal = n.Name
						} else {
							problems = append(problems, "extra local "+n.Name)
						}
					case *CallN:
						calls = append(calls, n)
					case *ReturnN:
						// `return r, item.WriteResultTL2(w, tctx, ret), nil`
						for _, e := range n.VE {
							if ce, ok := ast.Unparen(e).(*ast.CallExpr); ok {
								if cn := ir.x.callNode(ce); cn.Fn != nil {
									calls = append(calls, cn)
								}
							}
						}
					case *AssignN:
						problems = append(problems, "extra assignment "+strings.Join(n.LHS, ","))
					case *IfN:
						problems = append(problems, "extra conditional "+n.Cond.String())
					default:
						problems = append(problems, fmt.Sprintf("extra statement %T", n))
					}
				}
				if len(calls) != 2 {
					problems = append(problems, fmt.Sprintf("%d calls, want read then write", len(calls)))
				} else {
					rd, wr := calls[0], calls[1]
					_, rrole := familyRole(rd.Fn)
					_, wrole := familyRole(wr.Fn)
					if rd.Fn == nil || rrole != cb.read || rd.Recv != "item" {
						problems = append(problems, "first call is "+funcDisplayName(rd.Fn)+", want item."+cb.read)
					}
					if wr.Fn == nil || (wrole != cb.write && !(cb.write == "writeResultJSON" && wrole == "WriteResultJSON")) || wr.Recv != "item" {
						problems = append(problems, "second call is "+funcDisplayName(wr.Fn)+", want item."+cb.write)
					}
					if !rd.ErrChecked {
						problems = append(problems, "error of the read step is not checked and returned before writing")
					}
					if !containsStr(rd.Args, retLocal) || !containsStr(wr.Args, retLocal) {
						problems = append(problems, "read and write do not use the same `ret` value")
					}
					// buffers: read consumes the input buffer (first []byte parameter), write appends to the second
					rbuf := false
					for _, a := range rd.Args {
						if a == "buf" || strings.Contains(a, "{Data:buf}") {
							rbuf = true
						}
					}
					if !rbuf {
						problems = append(problems, "read step does not read the input buffer")
					}
					if !containsStr(wr.Args, "buf2") {
						problems = append(problems, "write step does not append to the output buffer")
					}
					// a JSON context handed to the transcoder reaches the writer (it selects the JSON dialect)
					for _, p := range ir.Params {
						if p.Role == "ctx" && strings.Contains(p.Name, "JSONWriteContext") && !containsStr(wr.Args, p.Name) {
							problems = append(problems, "the JSON write context parameter is not passed to the write step ("+funcDisplayName(wr.Fn)+" is called without it)")
						}
						if p.Role == "ctx" && strings.Contains(p.Name, "JSONReadContext") && !containsStr(rd.Args, p.Name) {
							problems = append(problems, "the JSON read context parameter is not passed to the read step")
						}
					}
				}
				c.Ob("result-transcoder-is-read-then-write", name+"."+cb.name, len(problems) == 0, posStr(g.co.Fset, fi.Decl.Pos()), strings.Join(problems, "; "))
			}
			// (2) nat arguments and result type
			nats := map[string]string{}
			var rtype types.Type
			typeOK := true
			for _, r := range []struct {
				role string
				cfg  *wireCfg
				dir  string
			}{{"ReadResultTL1", tl1ReadCfg, "r"}, {"WriteResultTL1", tl1WriteCfg, "w"}, {"ReadResultJSON", jsonReadCfg, "r"}, {"writeResultJSON", jsonWriteCfg, "w"}} {
				fi := roles[r.role]
				if fi == nil {
					continue
				}
				w, _ := g.wire(fi, r.cfg, r.dir)
				for _, op := range realOps(w) {
					if cl, ok := op.(*WCall); ok {
						nats[r.role] = strings.Join(cl.Nat, ",")
					}
				}
			}
			for _, role := range []string{"ReadResultTL1", "WriteResultTL1", "ReadResultTL2", "WriteResultTL2", "ReadResultJSON", "writeResultJSON", "WriteResultJSON"} {
				fi := roles[role]
				if fi == nil {
					continue
				}
				sig := fi.Obj.Type().(*types.Signature)
				last := sig.Params().At(sig.Params().Len() - 1).Type()
				if p, ok := last.(*types.Pointer); ok {
					last = p.Elem()
				}
				if rtype == nil {
					rtype = last
				} else if !types.Identical(rtype, last) {
					typeOK = false
				}
			}
			c.Ob("result-type-single", name, typeOK, "", "all result codecs of the function take the same result type")
			if len(nats) >= 2 {
				vals := map[string]bool{}
				for _, v := range nats {
					vals[v] = true
				}
				c.Ob("result-nat-args-agree", name, len(vals) == 1, "", fmt.Sprintf("%v", nats))
			}
			// (3) TL2 triple of the result wrapper
			if g.co.Spec.TL2 && roles["writeResultTL2"] != nil && roles["ReadResultTL2"] != nil {
				g.tl2Agreement(c, name+"(result)", map[string]*FuncInfo{"InternalWriteTL2": roles["writeResultTL2"], "InternalReadTL2": roles["ReadResultTL2"], "CalculateLayout": roles["calculateLayoutResult"]})
			}
			if r, w := roles["ReadResultTL1"], roles["WriteResultTL1"]; r != nil && w != nil {
				rw, _ := g.wire(r, tl1ReadCfg, "r")
				ww, _ := g.wire(w, tl1WriteCfg, "w")
				rs, wsx := wireCanon(rw), wireCanon(ww)
				d := "dual"
				if rs != wsx {
					d = firstDiff(rs, wsx)
				}
				c.Ob("result-tl1-dual", name, rs == wsx, posStr(g.co.Fset, r.Decl.Pos()), d)
			}
		}
	})
	c.Floor("result-transcoder-is-read-then-write", 100)
	c.Floor("result-nat-args-agree", 20)
	c.Floor("result-tl1-dual", 20)
	c.Floor("result-type-single", 20)
}
