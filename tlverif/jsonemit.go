package main

// E9: abstract interpretation of JSON writers. The abstract state is (stack of open containers, phase);
// constant fragments appended to the buffer are tokenised and drive the JSON grammar automaton,
// basictl.JSONWrite* primitives and nested WriteJSON* calls count as one VALUE, JSONAddCommaIfNeeded
// adds a comma unless the last byte is an opening bracket, and the `backup := len(w)` /
// `w = w[:backup]` idiom restores the state saved at the backup point. Branches join by set union,
// loops run to a fixpoint. A writer is well-formed when no transition is invalid and every success
// return leaves exactly one complete value.

import (
	"fmt"
	"sort"
	"strconv"
	"strings"
)

type jPhase byte

const (
	jV   jPhase = 'V' // a value is expected (start, after ':' or after ',' in an array)
	jK0  jPhase = 'k' // just after '{': key or '}'
	jK   jPhase = 'K' // after ',' in an object: key
	jC   jPhase = 'C' // after a key: ':'
	jA0  jPhase = 'a' // just after '[': value or ']'
	jD   jPhase = 'D' // a member/element is complete: ',' or close
	jEnd jPhase = 'E' // the top-level value is complete
)

type jState struct {
	stack string // of '{' and '['
	phase jPhase
	str   bool // inside a string literal opened by a constant `"` (quoted-number keys)
}

func (s jState) String() string {
	if s.str {
		return s.stack + "/" + string(s.phase) + "/in-string"
	}
	return s.stack + "/" + string(s.phase)
}

type jStates map[jState]bool

func (a jStates) clone() jStates {
	out := jStates{}
	for k := range a {
		out[k] = true
	}
	return out
}
func (a jStates) union(b jStates) jStates {
	out := a.clone()
	for k := range b {
		out[k] = true
	}
	return out
}
func (a jStates) equal(b jStates) bool {
	if len(a) != len(b) {
		return false
	}
	for k := range a {
		if !b[k] {
			return false
		}
	}
	return true
}
func (a jStates) String() string {
	var ks []string
	for k := range a {
		ks = append(ks, k.String())
	}
	sort.Strings(ks)
	return "{" + strings.Join(ks, " ") + "}"
}

// jsonTokens splits a constant fragment into tokens: { } [ ] , : S (string) L (true/false/null/number),
// q (a string is opened and not closed inside the fragment) and e (the fragment closes a string that was
// opened earlier). inStr tells whether the fragment starts inside an open string.
func jsonTokens(s string, inStr bool) ([]byte, error) {
	var out []byte
	i := 0
	if inStr {
		j := 0
		for j < len(s) && s[j] != '"' {
			if s[j] == '\\' {
				j++
			}
			j++
		}
		if j >= len(s) {
			return nil, nil // still inside the string; constant text inside a string is fine
		}
		out = append(out, 'e')
		i = j + 1
	}
	for i < len(s) {
		c := s[i]
		switch {
		case c == '{' || c == '}' || c == '[' || c == ']' || c == ',' || c == ':':
			out = append(out, c)
			i++
		case c == '"':
			j := i + 1
			for j < len(s) && s[j] != '"' {
				if s[j] == '\\' {
					j++
				}
				j++
			}
			if j >= len(s) {
				out = append(out, 'q')
				return out, nil
			}
			out = append(out, 'S')
			i = j + 1
		case c == ' ' || c == '\n' || c == '\t':
			i++
		default:
			j := i
			for j < len(s) && strings.IndexByte("{}[],:\" ", s[j]) < 0 {
				j++
			}
			w := s[i:j]
			if w != "true" && w != "false" && w != "null" {
				if _, err := strconv.ParseFloat(w, 64); err != nil {
					return nil, fmt.Errorf("fragment %q contains %q which is not a JSON literal", s, w)
				}
			}
			out = append(out, 'L')
			i = j
		}
	}
	return out, nil
}

// jStep applies one token to one state.
func jStep(s jState, tok byte) (jState, bool) {
	top := byte(0)
	if len(s.stack) > 0 {
		top = s.stack[len(s.stack)-1]
	}
	afterValue := func(st string) jState {
		if st == "" {
			return jState{stack: "", phase: jEnd}
		}
		return jState{stack: st, phase: jD}
	}
	if s.str {
		switch tok {
		case 'N': // digits inside an open string
			return s, true
		case 'e':
			s.str = false
			return jStep(s, 'S')
		}
		return s, false
	}
	switch tok {
	case 'q':
		switch s.phase {
		case jV, jA0, jK0, jK:
			s.str = true
			return s, true
		}
	case 'N':
		return jStep(s, 'V')
	case 'V', 'L': // a complete value
		if s.phase == jV || s.phase == jA0 {
			return afterValue(s.stack), true
		}
	case 'S':
		switch s.phase {
		case jV, jA0:
			return afterValue(s.stack), true
		case jK0, jK:
			return jState{stack: s.stack, phase: jC}, true
		}
	case ':':
		if s.phase == jC {
			return jState{stack: s.stack, phase: jV}, true
		}
	case '{':
		if s.phase == jV || s.phase == jA0 {
			return jState{stack: s.stack + "{", phase: jK0}, true
		}
	case '[':
		if s.phase == jV || s.phase == jA0 {
			return jState{stack: s.stack + "[", phase: jA0}, true
		}
	case '}':
		if top == '{' && (s.phase == jK0 || s.phase == jD) {
			return afterValue(s.stack[:len(s.stack)-1]), true
		}
	case ']':
		if top == '[' && (s.phase == jA0 || s.phase == jD) {
			return afterValue(s.stack[:len(s.stack)-1]), true
		}
	case ',':
		if s.phase == jD {
			if top == '{' {
				return jState{stack: s.stack, phase: jK}, true
			}
			return jState{stack: s.stack, phase: jV}, true
		}
	case '?': // JSONAddCommaIfNeeded: no comma right after an opening bracket, otherwise a comma
		if s.phase == jK0 || s.phase == jA0 {
			return s, true
		}
		if s.phase == jV && s.stack == "" {
			return s, false // never called on an empty buffer
		}
		return jStep(s, ',')
	}
	return s, false
}

type jProblem struct {
	Pos  string
	Text string
}

type jEmitter struct {
	g          *genCtx
	ir         *FuncIR
	saved      map[string]jStates
	problems   []jProblem
	keys       map[string]string // key → description of the value event that follows it
	exits      int
	pendKey    string
	values     int
	rawData    []string   // non-constant data appended without a JSON writer
	keyWriters []jProblem // value-writer calls that stand in object-key position
}

func (e *jEmitter) problem(n Node, format string, a ...any) {
	if len(e.problems) < 8 {
		e.problems = append(e.problems, jProblem{Pos: posStr(e.g.co.Fset, n.P()), Text: fmt.Sprintf(format, a...)})
	}
}

func (e *jEmitter) apply(n Node, in jStates, toks []byte, what string) jStates {
	cur := in
	for _, t := range toks {
		next := jStates{}
		for s := range cur {
			ns, ok := jStep(s, t)
			if !ok {
				e.problem(n, "%s: token %q is not valid JSON in state %s", what, string(t), s)
				continue
			}
			next[ns] = true
		}
		cur = next
	}
	return cur
}

// constFragment decodes an IR operand that is a constant string or character.
func constFragment(arg string) (string, bool) {
	if strings.HasPrefix(arg, "#") {
		if v, err := strconv.Atoi(arg[1:]); err == nil && v > 0 && v < 128 {
			return string(rune(v)), true
		}
		return "", false
	}
	if strings.HasPrefix(arg, "\"") {
		if s, err := strconv.Unquote(arg); err == nil {
			return s, true
		}
	}
	return "", false
}

func isJSONValueCall(n *CallN) (string, bool) {
	if n.Fn == nil {
		return "", false
	}
	name := n.Fn.Name()
	if isBasictl(n.Fn.Pkg()) {
		if strings.HasPrefix(name, "JSONWrite") {
			return name, true
		}
		return "", false
	}
	if strings.Contains(name, "WriteJSON") {
		fam, _ := familyRole(n.Fn)
		if fam == "" {
			fam = name
		}
		return "nested " + fam, true
	}
	return "", false
}

// operandOf: the data operand of a value event (the field written).
func operandOf(n *CallN) string {
	if n.Recv != "" && !strings.HasPrefix(n.Recv, "(") {
		return n.Recv
	}
	for _, a := range n.Args {
		if a == "buf" || strings.HasPrefix(a, "ctx:") {
			continue
		}
		return a
	}
	return ""
}

func (e *jEmitter) block(blk Block, in jStates) (out jStates, dead bool) {
	cur := in
	for _, n := range blk {
		if len(cur) == 0 {
			return cur, true
		}
		switch n := n.(type) {
		case *CallN:
			switch {
			case n.Builtin == "append" && len(n.Args) >= 2 && n.Args[0] == "buf":
				for _, a := range n.Args[1:] {
					frag, ok := constFragment(a)
					if !ok {
						e.rawData = append(e.rawData, a)
						e.problem(n, "non-constant data %s is appended to the JSON buffer without a JSON writer", a)
						continue
					}
					next := jStates{}
					for st := range cur {
						toks, err := jsonTokens(frag, st.str)
						if err != nil {
							e.problem(n, "%v", err)
							continue
						}
						for o := range e.apply(n, jStates{st: true}, toks, fmt.Sprintf("fragment %q", frag)) {
							next[o] = true
						}
					}
					cur = next
					// key bookkeeping: a fragment ending in `"k":` opens a member, `"k":true` is a whole member
					if i := strings.LastIndex(frag, "\""); i > 0 && strings.HasSuffix(frag, "\":") {
						j := strings.LastIndex(frag[:i], "\"")
						e.pendKey = frag[j+1 : i]
					} else if m := keyLiteralRx.FindStringSubmatch(frag); m != nil {
						e.keys[m[1]] = "literal " + m[2]
					}
				}
			case n.Fn != nil && isBasictl(n.Fn.Pkg()) && n.Fn.Name() == "JSONAddCommaIfNeeded":
				cur = e.apply(n, cur, []byte{'?'}, "JSONAddCommaIfNeeded")
			default:
				if what, ok := isJSONValueCall(n); ok {
					tok := byte('V')
					switch what {
					case "JSONWriteString", "JSONWriteStringBytes":
						tok = 'S' // a complete string: usable as an object key
					case "JSONWriteInt32", "JSONWriteUint32", "JSONWriteInt64", "JSONWriteUint64":
						tok = 'N' // digits and '-' only: may stand inside a quoted key
					}
					if tok == 'S' {
						for st := range cur {
							if st.phase == jK0 || st.phase == jK {
								e.keyWriters = append(e.keyWriters, jProblem{Pos: posStr(e.g.co.Fset, n.P()), Text: what})
								break
							}
						}
					}
					cur = e.apply(n, cur, []byte{tok}, what)
					e.values++
					if e.pendKey != "" {
						e.keys[e.pendKey] = what + " " + operandOf(n)
						e.pendKey = ""
					}
				}
			}
		case *AssignN:
			if len(n.LHS) == 1 && len(n.RHS) == 1 {
				if n.RHS[0] == "len(buf)" {
					e.saved[n.LHS[0]] = cur.clone()
				} else if n.LHS[0] == "buf" && strings.HasPrefix(n.RHS[0], "buf[:") && strings.HasSuffix(n.RHS[0], "]") {
					name := n.RHS[0][5 : len(n.RHS[0])-1]
					if st, ok := e.saved[name]; ok {
						cur = st.clone()
					} else {
						e.problem(n, "buffer truncated to %s which is not a recorded backup point", name)
					}
				} else if n.LHS[0] == "buf" {
					e.problem(n, "JSON buffer reassigned: buf = %s", n.RHS[0])
				}
			}
		case *IfN:
			a, da := e.block(n.Then, cur.clone())
			b, db := e.block(n.Else, cur.clone())
			switch {
			case da && db:
				return jStates{}, true
			case da:
				cur = b
			case db:
				cur = a
			default:
				cur = a.union(b)
			}
		case *SwitchN:
			acc := jStates{}
			hasDefault := false
			alive := false
			for _, cs := range n.Cases {
				if cs.Default {
					hasDefault = true
					if n.Tag == "item.index" {
						continue // union index is in range by construction (C43 union accessor rules, C02 tag switch)
					}
				}
				o, d := e.block(cs.Body, cur.clone())
				if !d {
					acc = acc.union(o)
					alive = true
				}
			}
			if !hasDefault {
				acc = acc.union(cur)
				alive = true
			}
			if !alive {
				return jStates{}, true
			}
			cur = acc
		case *LoopN:
			// fixpoint: zero or more iterations
			st := cur.clone()
			for iter := 0; iter < 8; iter++ {
				o, d := e.block(n.Body, st.clone())
				if d {
					break
				}
				nx := st.union(o)
				if nx.equal(st) {
					break
				}
				st = nx
			}
			cur = st
		case *ReturnN:
			if e.isErrorReturn(n) {
				return jStates{}, true
			}
			e.exits++
			for s := range cur {
				if s.phase != jEnd || s.stack != "" {
					e.problem(n, "a success return leaves the JSON text in state %s (not exactly one complete value)", s)
				}
			}
			return jStates{}, true
		}
	}
	return cur, false
}

func (e *jEmitter) isErrorReturn(n *ReturnN) bool {
	if len(n.Vals) == 2 {
		return n.Vals[1] != "nil" && n.Vals[1] != "<tail>" && !strings.HasPrefix(n.Vals[0], "<")
	}
	return false
}

// jsonEmit analyses one JSON writer.
func (g *genCtx) jsonEmit(fi *FuncInfo) *jEmitter {
	e := &jEmitter{g: g, ir: g.ir(fi), saved: map[string]jStates{}, keys: map[string]string{}}
	start := jStates{jState{stack: "", phase: jV}: true}
	out, dead := e.block(e.ir.Body, start)
	if !dead && len(out) > 0 {
		e.problems = append(e.problems, jProblem{Pos: posStr(g.co.Fset, fi.Decl.Pos()), Text: "control falls off the end of the writer"})
	}
	return e
}
