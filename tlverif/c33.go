package main

// C33 (and clause c of C02, parts of C13): decision tables of the basictl primitives, extracted from the
// type-checked source and compared with the documented layout frozen here and with each other.

import (
	"fmt"
	"go/token"
	"go/types"
	"regexp"
	"sort"
	"strings"
)

func init() { register("C33", checkC33) }

type bctx struct {
	c      *Check
	co     *Corpus
	pkg    string // display name of the copy ("pkg/basictl", …)
	funcs  map[*types.Func]*FuncInfo
	byName map[string]*FuncInfo
	irs    map[string]*FuncIR
}

func (b *bctx) ir(name string) *FuncIR {
	if ir, ok := b.irs[name]; ok {
		return ir
	}
	fi := b.byName[name]
	if fi == nil {
		return nil
	}
	ir := buildFuncIR(fi, b.funcs, b.co.Fset)
	b.irs[name] = ir
	return ir
}

func (b *bctx) pos(name string) string {
	if fi := b.byName[name]; fi != nil {
		return posStr(b.co.Fset, fi.Decl.Pos())
	}
	return b.pkg
}

func (b *bctx) ob(rule, fn string, ok bool, detail string) {
	b.c.Ob(rule, b.pkg+"."+fn, ok, b.pos(fn), detail)
}

var basictlCopies = []struct {
	pattern, name string
	optional      bool
}{
	{"./pkg/basictl", "pkg/basictl", false},
	{"./internal/vkgo/pkg/basictl", "internal/vkgo/pkg/basictl", false},
	{"./internal/tlast/gentlo/basictl", "internal/tlast/gentlo/basictl", true},
}

func loadBasictl(c *Check) []*bctx {
	var pats []string
	for _, cp := range basictlCopies {
		pats = append(pats, cp.pattern)
	}
	co, err := loadRepoCorpus(pats...)
	if err != nil {
		c.Undecided("load", "basictl", "", err.Error())
		return nil
	}
	funcs := co.allFuncs()
	var out []*bctx
	for _, cp := range basictlCopies {
		b := &bctx{c: c, co: co, pkg: cp.name, funcs: funcs, byName: map[string]*FuncInfo{}, irs: map[string]*FuncIR{}}
		for _, fi := range funcs {
			if fi.Pkg.PkgPath == "github.com/VKCOM/tl"+strings.TrimPrefix(cp.pattern, ".") && fi.Obj.Type().(*types.Signature).Recv() == nil {
				b.byName[fi.Obj.Name()] = fi
			}
		}
		if len(b.byName) == 0 {
			c.Undecided("load", cp.name, "", "no functions found")
			continue
		}
		out = append(out, b)
	}
	c.Set("packages", len(co.Pkgs))
	return out
}

// ---------------------------------------------------------------------------------------------
// small queries over the IR

func allNodes(blk Block) []Node {
	var out []Node
	walkBlock(blk, nil, func(n Node, _ []Guard) { out = append(out, n) })
	return out
}

func returnsOf(blk Block) []*ReturnN {
	var out []*ReturnN
	for _, n := range blk {
		if r, ok := n.(*ReturnN); ok {
			out = append(out, r)
		}
	}
	return out
}

var eofRx = regexp.MustCompile(`io\.ErrUnexpectedEOF`)

func isEOFReturn(r *ReturnN) bool {
	if len(r.Vals) == 0 {
		return false
	}
	last := r.Vals[len(r.Vals)-1]
	if last == "io.ErrUnexpectedEOF" {
		return true
	}
	return strings.Contains(last, "fmt.Errorf(") && strings.Contains(last, "%w") && eofRx.MatchString(last)
}

// eofBlock: the block returns io.ErrUnexpectedEOF (directly, or fmt.Errorf wrapping it with %w).
func eofBlock(blk Block) bool {
	for i, n := range blk {
		r, ok := n.(*ReturnN)
		if !ok {
			continue
		}
		if isEOFReturn(r) {
			return true
		}
		if len(r.Vals) == 1 && r.Vals[0] == "<tail>" && i > 0 {
			if call, ok := blk[i-1].(*CallN); ok && call.Fn != nil && call.Fn.Name() == "Errorf" {
				a := strings.Join(call.Args, ",")
				return strings.Contains(a, "%w") && eofRx.MatchString(a)
			}
		}
	}
	return false
}

func isLenGuard(c *Cond) (bound string, ok bool) {
	if c == nil {
		return "", false
	}
	if c.Kind == "nz" && c.Neg && c.X == "len(buf)" {
		return "#1", true // len(buf) == 0  ≡ len(buf) < 1
	}
	if c.Kind == "cmp" && !c.Neg && c.Op == "<" && c.X == "len(buf)" {
		return c.Y, true
	}
	return "", false
}

var composeRx = regexp.MustCompile(`buf\[#(\d+)\] << #(\d+)`)

func composeOf(s string) string {
	var parts []string
	for _, m := range composeRx.FindAllStringSubmatch(s, -1) {
		parts = append(parts, m[1]+"<<"+m[2])
	}
	// the same bytes taken with one little-endian load: Uint64(buf)>>8 is bytes 1..7, Uint32(buf)>>8 is bytes 1..3
	if m := regexp.MustCompile(`LittleEndian\.Uint(64|32)\(buf\) >> #8\)`).FindStringSubmatch(s); m != nil && len(parts) == 0 {
		n := 3
		if m[1] == "64" {
			n = 7
		}
		for i := 1; i <= n; i++ {
			parts = append(parts, fmt.Sprintf("%d<<%d", i, 8*(i-1)))
		}
	}
	sort.Strings(parts)
	return strings.Join(parts, ",")
}

var advRx = regexp.MustCompile(`^buf\[(#\d+|[^:\]]+):\]$`)

// armFacts extracts the attribute table of one switch arm of a length decoder.
type armFacts struct {
	Guard   string
	EOF     []string
	Compose string
	Advance string
	Assigns map[string]string
	Rejects []string
	Returns []string
}

func factsOfArm(guard string, body Block) armFacts {
	f := armFacts{Guard: guard, Assigns: map[string]string{}}
	for _, n := range body {
		switch n := n.(type) {
		case *IfN:
			if bd, ok := isLenGuard(n.Cond); ok {
				rs := returnsOf(n.Then)
				if len(rs) == 1 && isEOFReturn(rs[0]) {
					f.EOF = append(f.EOF, bd)
				} else {
					f.EOF = append(f.EOF, bd+"!noEOF")
				}
				continue
			}
			rs := returnsOf(n.Then)
			if len(rs) == 1 && len(rs[0].Vals) > 0 && rs[0].Vals[len(rs[0].Vals)-1] != "nil" {
				f.Rejects = append(f.Rejects, n.Cond.String())
			}
		case *AssignN:
			if len(n.LHS) == 1 && len(n.RHS) == 1 {
				if n.LHS[0] == "buf" {
					if m := advRx.FindStringSubmatch(n.RHS[0]); m != nil {
						f.Advance = m[1]
					}
					continue
				}
				f.Assigns[n.LHS[0]] = n.RHS[0]
				if c := composeOf(n.RHS[0]); c != "" {
					f.Compose = c
				}
			}
		case *CallN:
			if len(n.Results) == 1 && n.Fn != nil {
				f.Assigns[n.Results[0]] = funcDisplayName(n.Fn) + "(" + strings.Join(n.Args, ",") + ")"
			}
		case *ReturnN:
			f.Returns = append(f.Returns, strings.Join(n.Vals, ","))
		}
	}
	return f
}

func renameLocals(s string, m map[string]string) string {
	return localRx.ReplaceAllStringFunc(s, func(l string) string {
		if r, ok := m[l]; ok {
			return r
		}
		return l
	})
}

// ---------------------------------------------------------------------------------------------
// rules

var fixedReaders = map[string]struct {
	K      string
	Decode string
	Writer string
}{
	"NatRead":    {"#4", "LittleEndian.Uint32(buf)", "NatWrite"},
	"IntRead":    {"#4", "LittleEndian.Uint32(buf)", "IntWrite"},
	"FloatRead":  {"#4", "LittleEndian.Uint32(buf)", "FloatWrite"},
	"LongRead":   {"#8", "LittleEndian.Uint64(buf)", "LongWrite"},
	"DoubleRead": {"#8", "LittleEndian.Uint64(buf)", "DoubleWrite"},
	"Uint64Read": {"#8", "LittleEndian.Uint64(buf)", "Uint64Write"},
	"ByteRead":   {"#1", "buf[#0]", "ByteWrite"},
}

// writerWidth computes how many bytes a fixed-width writer appends and checks little-endian order.
func (b *bctx) writerWidth(name string, depth int) (int, string) {
	ir := b.ir(name)
	if ir == nil || depth > 3 {
		return -1, "writer " + name + " not found"
	}
	for _, n := range ir.Body {
		call, ok := n.(*CallN)
		if !ok {
			continue
		}
		if call.Builtin == "append" {
			if len(call.Args) < 2 || call.Args[0] != "buf" {
				return -1, "append to something other than the buffer"
			}
			k := len(call.Args) - 1
			v := call.Args[1]
			for i := 1; i < k; i++ {
				want := fmt.Sprintf("(%s >> #%d)", v, 8*i)
				if call.Args[1+i] != want {
					return -1, fmt.Sprintf("byte %d of %s is %s, want %s (little-endian)", i, name, call.Args[1+i], want)
				}
			}
			if strings.Contains(v, ">>") || strings.Contains(v, "<<") {
				return -1, "byte 0 is shifted: " + v
			}
			return k, ""
		}
		if call.Fn != nil {
			if _, ok := b.byName[call.Fn.Name()]; ok && call.Fn.Pkg() == b.byName[name].Pkg.Types {
				if len(call.Args) >= 1 && call.Args[0] == "buf" {
					return b.writerWidth(call.Fn.Name(), depth+1)
				}
			}
		}
	}
	return -1, "no append found in " + name
}

func (b *bctx) ruleFixedWidth() {
	for _, name := range sortedKeysAny(fixedReaders) {
		spec := fixedReaders[name]
		ir := b.ir(name)
		if ir == nil {
			if b.pkg == "pkg/basictl" {
				b.c.Undecided("fixed-width", b.pkg+"."+name, "", "anchor function not found")
			}
			continue
		}
		var problems []string
		// guard
		foundGuard, foundDecode, foundRet := false, false, false
		for _, n := range ir.Body {
			switch n := n.(type) {
			case *IfN:
				if bd, ok := isLenGuard(n.Cond); ok {
					rs := returnsOf(n.Then)
					if bd == spec.K && len(rs) == 1 && isEOFReturn(rs[0]) {
						foundGuard = true
					} else {
						problems = append(problems, fmt.Sprintf("length guard %s (want %s, returning io.ErrUnexpectedEOF)", bd, spec.K))
					}
				}
			case *AssignN:
				if len(n.LHS) == 1 && n.LHS[0] == "val" && strings.Contains(strings.Join(n.RHS, ""), spec.Decode) {
					foundDecode = true
				}
			case *CallN:
				if len(n.Results) == 1 && n.Results[0] == "val" && n.Fn != nil && strings.HasSuffix(n.Recv, "LittleEndian") &&
					"LittleEndian."+n.Fn.Name()+"("+strings.Join(n.Args, ",")+")" == spec.Decode {
					foundDecode = true
				}
				// math.Float32frombits(binary.LittleEndian.Uint32(r))
				if len(n.Results) == 1 && n.Results[0] == "val" && n.Fn != nil && strings.HasSuffix(n.Fn.Name(), "frombits") && len(n.Args) == 1 && strings.HasSuffix(n.Args[0], spec.Decode) {
					foundDecode = true
				}
			case *ReturnN:
				if len(n.Vals) == 2 && n.Vals[1] == "nil" {
					foundRet = n.Vals[0] == "buf["+spec.K+":]"
					if !foundRet {
						problems = append(problems, "success return advances by "+n.Vals[0]+", want buf["+spec.K+":]")
					}
				}
			}
		}
		if !foundGuard {
			problems = append(problems, "no `len(r) < "+spec.K+" → io.ErrUnexpectedEOF` guard before reading")
		}
		if !foundDecode {
			problems = append(problems, "value is not decoded with "+spec.Decode)
		}
		w, msg := b.writerWidth(spec.Writer, 0)
		if msg != "" {
			problems = append(problems, msg)
		} else if fmt.Sprintf("#%d", w) != spec.K {
			problems = append(problems, fmt.Sprintf("%s appends %d bytes but %s consumes %s", spec.Writer, w, name, spec.K))
		}
		b.ob("fixed-width-pair", name+"~"+spec.Writer, len(problems) == 0, fmt.Sprintf("width %s %s", spec.K, strings.Join(problems, "; ")))
	}
}

// documented TL1 string length layout
var tl1ArmSpec = []struct {
	Guard, EOF, Compose, Advance, PadBase string
	Rejects                               []string
}{
	{"(buf[#0] <= #253)", "", "", "#1", "(L + #1)", nil},
	{"!(buf[#0] != #254)", "#4", "1<<0,2<<8,3<<16", "#4", "L", []string{"(L <= #253)"}},
	{"default", "#8", "1<<0,2<<8,3<<16,4<<24,5<<32,6<<40,7<<48", "#8", "L", []string{"(#9223372036854775807 < L64)", "(L <= #16777215)"}},
}

func (b *bctx) ruleStringRead(name string) {
	ir := b.ir(name)
	if ir == nil {
		b.c.Undecided("tl1-string-read", b.pkg+"."+name, "", "anchor function not found")
		return
	}
	var sw *SwitchN
	swIdx := -1
	for i, n := range ir.Body {
		if s, ok := n.(*SwitchN); ok && s.Tag == "" {
			sw = s
			swIdx = i
			break
		}
	}
	if sw == nil {
		b.c.Undecided("tl1-string-read", b.pkg+"."+name, b.pos(name), "length decoder is not a tagless switch over the first byte")
		return
	}
	// first guard: empty input
	firstOK := false
	for _, n := range ir.Body[:swIdx] {
		if in, ok := n.(*IfN); ok {
			if bd, ok := isLenGuard(in.Cond); ok && bd == "#1" {
				rs := returnsOf(in.Then)
				firstOK = len(rs) == 1 && isEOFReturn(rs[0])
			}
		}
	}
	b.ob("tl1-string-read/empty-input-eof", name, firstOK, "len(r)==0 → io.ErrUnexpectedEOF before touching r[0]")
	// roles of locals: P = argument of paddingLen, PAD = its result, L = local compared with len(buf) after the switch
	roles := map[string]string{}
	post := ir.Body[swIdx+1:]
	for _, n := range post {
		if call, ok := n.(*CallN); ok && call.Fn != nil && call.Fn.Name() == "paddingLen" && len(call.Args) == 1 && len(call.Results) == 1 {
			roles[call.Args[0]] = "P"
			roles[call.Results[0]] = "PAD"
		}
	}
	if len(sw.Cases) > 0 {
		for _, n := range sw.Cases[0].Body {
			if a, ok := n.(*AssignN); ok && len(a.LHS) == 1 && len(a.RHS) == 1 && a.RHS[0] == "buf[#0]" && localRx.MatchString(a.LHS[0]) {
				if _, has := roles[a.LHS[0]]; !has {
					roles[a.LHS[0]] = "L"
				}
			}
		}
	}
	if len(sw.Cases) != len(tl1ArmSpec) {
		b.ob("tl1-string-read/arms", name, false, fmt.Sprintf("%d arms, documented layout has 3 (tiny ≤253, medium marker 254, huge marker 255)", len(sw.Cases)))
		return
	}
	for i, cs := range sw.Cases {
		spec := tl1ArmSpec[i]
		guard := "default"
		if !cs.Default {
			guard = strings.Join(cs.Vals, "|")
		}
		f := factsOfArm(guard, cs.Body)
		// any other local in this arm is the 64-bit temporary
		for l := range f.Assigns {
			if _, ok := roles[l]; !ok && localRx.MatchString(l) {
				roles[l] = "L64"
			}
		}
		var problems []string
		if f.Guard != spec.Guard {
			problems = append(problems, "arm guard "+f.Guard+" want "+spec.Guard)
		}
		if strings.Join(f.EOF, ",") != spec.EOF {
			problems = append(problems, "truncation guard len(r) < "+strings.Join(f.EOF, ",")+" want "+spec.EOF)
		}
		if f.Compose != spec.Compose {
			problems = append(problems, "length bytes "+f.Compose+" want "+spec.Compose)
		}
		if i == 0 {
			var lloc string
			for l, r := range roles {
				if r == "L" {
					lloc = l
				}
			}
			if f.Assigns[lloc] != "buf[#0]" {
				problems = append(problems, "tiny length is "+f.Assigns[lloc]+" want r[0]")
			}
		}
		if f.Advance != spec.Advance {
			problems = append(problems, "header size "+f.Advance+" want "+spec.Advance)
		}
		pb := ""
		for l, r := range roles {
			if r == "P" {
				pb = renameLocals(f.Assigns[l], roles)
			}
		}
		if pb != spec.PadBase {
			problems = append(problems, "padding base "+pb+" want "+spec.PadBase)
		}
		var rj []string
		for _, r := range f.Rejects {
			rj = append(rj, renameLocals(r, roles))
		}
		if strings.Join(rj, ";") != strings.Join(spec.Rejects, ";") {
			problems = append(problems, "rejections ["+strings.Join(rj, "; ")+"] want ["+strings.Join(spec.Rejects, "; ")+"] (non-minimal length forms must be rejected)")
		}
		b.ob("tl1-string-read/arm", fmt.Sprintf("%s/arm%d", name, i), len(problems) == 0, strings.Join(problems, "; "))
	}
	// post: data guard, padding guard, padding loop, return
	var dataGuard, padGuard, padLoop, ret bool
	for _, n := range post {
		switch n := n.(type) {
		case *IfN:
			if bd, ok := isLenGuard(n.Cond); ok {
				rs := returnsOf(n.Then)
				eof := len(rs) == 1 && isEOFReturn(rs[0])
				switch renameLocals(bd, roles) {
				case "L":
					dataGuard = dataGuard || eof
				case "(L + PAD)":
					padGuard = padGuard || eof
				}
			}
			// StringReadBytes wraps the data guard in `if l > 0 {…}`
			for _, m := range n.Then {
				if in, ok := m.(*IfN); ok {
					if bd, ok := isLenGuard(in.Cond); ok && renameLocals(bd, roles) == "L" {
						rs := returnsOf(in.Then)
						dataGuard = dataGuard || (len(rs) == 1 && isEOFReturn(rs[0]))
					}
				}
			}
		case *LoopN:
			if n.Count && renameLocals(n.Over, roles) == "PAD" && len(n.Body) == 1 {
				if in, ok := n.Body[0].(*IfN); ok && in.Cond.Kind == "nz" && !in.Cond.Neg && renameLocals(in.Cond.X, roles) == "buf[(L + *)]" {
					rs := returnsOf(in.Then)
					padLoop = len(rs) == 1 && strings.HasSuffix(rs[0].Vals[len(rs[0].Vals)-1], "errBadPadding")
				}
			}
		case *ReturnN:
			if len(n.Vals) == 2 && n.Vals[1] == "nil" {
				ret = renameLocals(n.Vals[0], roles) == "buf[(L + PAD):]"
			}
		}
	}
	b.ob("tl1-string-read/data-guard", name, dataGuard, "len(r) < l → io.ErrUnexpectedEOF before taking the data")
	b.ob("tl1-string-read/padding-guard", name, padGuard, "len(r) < l+padding → io.ErrUnexpectedEOF")
	b.ob("tl1-string-read/padding-zero-check", name, padLoop, "every padding byte r[l+i], i<padding, is compared with 0 and rejected with errBadPadding")
	b.ob("tl1-string-read/consumed", name, ret, "success returns r[l+padding:]")
}

func (b *bctx) ruleStringWrite() {
	ir := b.ir("StringWriteLen")
	if ir == nil {
		// older copy: StringWrite inlines the length code; compare nothing but record
		b.c.Info("%s has no StringWriteLen (older revision); writer-side table not extracted for this copy", b.pkg)
		return
	}
	var sw *SwitchN
	for _, n := range ir.Body {
		if s, ok := n.(*SwitchN); ok && s.Tag == "" {
			sw = s
		}
	}
	if sw == nil || len(sw.Cases) != 3 {
		b.c.Undecided("tl1-string-write", b.pkg+".StringWriteLen", b.pos("StringWriteLen"), "length encoder is not a 3-arm tagless switch")
		return
	}
	// roles: L = the local aliasing the length parameter, P = local returned modulo 4
	roles := map[string]string{}
	for _, n := range ir.Body {
		if a, ok := n.(*AssignN); ok && a.Tok == token.DEFINE && len(a.RHS) == 1 && a.RHS[0] == "val" {
			roles[a.LHS[0]] = "L"
		}
		if r, ok := n.(*ReturnN); ok && len(r.Vals) == 2 {
			if m := regexp.MustCompile(`^\((L\d+:\w+) % #4\)$`).FindStringSubmatch(r.Vals[1]); m != nil {
				roles[m[1]] = "P"
			}
		}
	}
	want := []struct{ Guard, Bytes, P string }{
		{"(L <= #253)", "L", "(L + #1)"},
		{"(L <= #16777215)", "#254,L,(L >> #8),(L >> #16)", "L"},
		{"default", "#255,L,(L >> #8),(L >> #16),(L >> #24),(L >> #32),(L >> #40),(L >> #48)", "L"},
	}
	for i, cs := range sw.Cases {
		guard := "default"
		if !cs.Default {
			guard = renameLocals(strings.Join(cs.Vals, "|"), roles)
		}
		bytesW, p := "", ""
		for _, n := range cs.Body {
			switch n := n.(type) {
			case *CallN:
				if n.Builtin == "append" && len(n.Args) >= 2 && n.Args[0] == "buf" {
					bytesW = renameLocals(strings.Join(n.Args[1:], ","), roles)
				}
			case *AssignN:
				if len(n.LHS) == 1 && roles[n.LHS[0]] == "P" {
					p = renameLocals(n.RHS[0], roles)
				}
			}
		}
		ok := guard == want[i].Guard && bytesW == want[i].Bytes && p == want[i].P
		b.ob("tl1-string-write/arm", fmt.Sprintf("StringWriteLen/arm%d", i), ok, fmt.Sprintf("guard %s bytes [%s] padding base %s; documented: guard %s bytes [%s] base %s", guard, bytesW, p, want[i].Guard, want[i].Bytes, want[i].P))
	}
	// padding table: paddingLen(p) = (-p) mod 4 on the reader side; writer: p%4 ↦ {1:3, 2:2, 3:1}
	if pl := b.ir("paddingLen"); pl != nil {
		rs := returnsOf(pl.Body)
		b.ob("tl1-padding/reader-residue", "paddingLen", len(rs) == 1 && rs[0].Vals[0] == "(-val % #4)", "paddingLen(l) = (-l) mod 4: "+strings.Join(rs[0].Vals, ","))
	}
	if wp := b.ir("StringWritePadding"); wp != nil {
		table := map[string]int{}
		ok := false
		for _, n := range wp.Body {
			if s, isSw := n.(*SwitchN); isSw && s.Tag == "val" {
				ok = true
				for _, cs := range s.Cases {
					zeros := -1
					for _, m := range cs.Body {
						if call, isCall := m.(*CallN); isCall && call.Builtin == "append" && call.Args[0] == "buf" {
							zeros = 0
							for _, a := range call.Args[1:] {
								if a == "#0" {
									zeros++
								} else {
									zeros = -100
								}
							}
						}
					}
					for _, v := range cs.Vals {
						table[v] = zeros
					}
				}
			}
		}
		// (-r) mod 4 for r = 1,2,3 ; residue 0 must add nothing
		good := ok && table["#1"] == 3 && table["#2"] == 2 && table["#3"] == 1 && len(table) == 3
		b.ob("tl1-padding/writer-table", "StringWritePadding", good, fmt.Sprintf("padding bytes by residue %v; reader uses (-p) mod 4 = {1:3,2:2,3:1,0:0}", table))
	}
	for _, name := range []string{"StringWrite", "StringWriteBytes"} {
		ir := b.ir(name)
		if ir == nil {
			continue
		}
		seq := []string{}
		for _, n := range ir.Body {
			if call, ok := n.(*CallN); ok {
				switch {
				case call.Fn != nil:
					seq = append(seq, call.Fn.Name()+"("+strings.Join(call.Args, ",")+")")
				case call.Builtin == "append":
					seq = append(seq, "append("+strings.Join(call.Args, ",")+")")
				}
			}
		}
		got := renameLocalsSeq(seq)
		b.ob("tl1-string-write/sequence", name, got == "StringWriteLen(buf,len(val));append(buf,val);StringWritePadding(buf,$)", "header(len), data, padding(residue from header): "+got)
	}
}

func renameLocalsSeq(seq []string) string {
	return localRx.ReplaceAllString(strings.Join(seq, ";"), "$")
}

// TL2 varlen sizes
func (b *bctx) ruleTL2Sizes() {
	type arm struct{ guard, header, extra string }
	extract := func(name string) ([]arm, string) {
		ir := b.ir(name)
		if ir == nil {
			return nil, "not found"
		}
		var sw *SwitchN
		for _, n := range ir.Body {
			if s, ok := n.(*SwitchN); ok && s.Tag == "" {
				sw = s
			}
		}
		if sw == nil {
			return nil, "no tagless switch"
		}
		var arms []arm
		for _, cs := range sw.Cases {
			a := arm{guard: "default"}
			if !cs.Default {
				a.guard = strings.Join(cs.Vals, "|")
			}
			var parts []string
			for _, n := range allNodes(cs.Body) {
				switch n := n.(type) {
				case *CallN:
					if n.Builtin == "append" {
						parts = append(parts, "bytes("+strings.Join(n.Args[1:], ",")+")")
					} else if n.Builtin == "panic" {
						parts = append(parts, "panic")
					} else if n.Fn != nil {
						parts = append(parts, n.Fn.Name()+"("+strings.Join(n.Args, ",")+")")
					}
				case *AssignN:
					parts = append(parts, strings.Join(n.LHS, ",")+"="+strings.Join(n.RHS, ","))
				case *ReturnN:
					parts = append(parts, "return "+strings.Join(n.Vals, ","))
				case *IfN:
					if bd, ok := isLenGuard(n.Cond); ok {
						rs := returnsOf(n.Then)
						if len(rs) == 1 && isEOFReturn(rs[0]) {
							parts = append(parts, "eof<"+bd)
						} else {
							parts = append(parts, "lenguard-without-EOF<"+bd)
						}
					} else {
						parts = append(parts, "if"+n.Cond.String())
					}
				}
			}
			a.extra = localRx.ReplaceAllString(strings.Join(parts, " ; "), "$")
			arms = append(arms, a)
		}
		return arms, ""
	}
	want := map[string][]arm{
		"TL2WriteSize": {
			{"(val < #254)", "", "bytes(val)"},
			{"(val < #65790)", "", "bytes(#254) ; AppendUint16(buf,(val - #254))"},
			{"default", "", "if(val != val) ; panic ; bytes(#255) ; AppendUint64(buf,val)"},
		},
		"TL2PutSize": {
			{"(val < #254)", "", "buf[#0]=val ; return #1"},
			{"(val < #65790)", "", "buf[#0]=#254 ; PutUint16(buf[#1:],(val - #254)) ; return #3"},
			{"default", "", "if(val != val) ; panic ; buf[#0]=#255 ; PutUint64(buf[#1:],val) ; return #9"},
		},
		"TL2CalculateSize": {
			{"(val < #254)", "", "return #1"},
			{"(val < #65790)", "", "return #3"},
			{"default", "", "if(val != val) ; panic ; return #9"},
		},
		"TL2ParseSize": {
			{"(buf[#0] < #254)", "", "$=buf[#0] ; buf=buf[#1:] ; return buf,$,nil"},
			{"!(buf[#0] != #254)", "", "eof<#3 ; return buf,#0,io.ErrUnexpectedEOF ; $=(#254 + binary.LittleEndian.Uint16(buf[#1:])) ; buf=buf[#3:] ; return buf,$,nil"},
			{"default", "", "eof<#9 ; return buf,#0,io.ErrUnexpectedEOF ; Uint64(buf[#1:]) ; if(#9223372036854775807 < $) ; return buf,#0,fmt.Errorf(\"string length cannot be represented as an int: %d\", $) ; buf=buf[#9:] ; return buf,$,nil"},
		},
	}
	for _, name := range sortedKeysAny(want) {
		arms, msg := extract(name)
		if msg != "" {
			if b.byName[name] == nil && b.pkg != "pkg/basictl" {
				continue
			}
			b.c.Undecided("tl2-size", b.pkg+"."+name, b.pos(name), msg)
			continue
		}
		w := want[name]
		if len(arms) != len(w) {
			b.ob("tl2-size/arm", name, false, fmt.Sprintf("%d arms, documented layout has 3 (<254: 1 byte; <254+65536: marker 254 + u16(l-254); else marker 255 + u64)", len(arms)))
			continue
		}
		for i := range arms {
			extra := arms[i].extra
			// error message text is not part of the rule
			wx := w[i].extra
			if name == "TL2ParseSize" && i == 2 {
				extra = regexp.MustCompile(`fmt\.Errorf\("[^"]*"`).ReplaceAllString(extra, `fmt.Errorf("…"`)
				wx = regexp.MustCompile(`fmt\.Errorf\("[^"]*"`).ReplaceAllString(wx, `fmt.Errorf("…"`)
			}
			ok := arms[i].guard == w[i].guard && extra == wx
			b.ob("tl2-size/arm", fmt.Sprintf("%s/arm%d", name, i), ok, fmt.Sprintf("guard %s: %s | documented guard %s: %s", arms[i].guard, extra, w[i].guard, wx))
		}
	}
	// TL2ParseSize: first statement rejects empty input with EOF
	if ir := b.ir("TL2ParseSize"); ir != nil {
		ok := false
		if in, isIf := ir.Body[0].(*IfN); isIf {
			if bd, isG := isLenGuard(in.Cond); isG && bd == "#1" {
				rs := returnsOf(in.Then)
				ok = len(rs) == 1 && isEOFReturn(rs[0])
			}
		}
		b.ob("tl2-size/empty-input-eof", "TL2ParseSize", ok, "len(r)==0 → io.ErrUnexpectedEOF")
	}
	// string TL2 readers/writers
	for _, name := range []string{"StringReadTL2", "StringReadTL2Bytes"} {
		ir := b.ir(name)
		if ir == nil {
			continue
		}
		var size, guard, ret bool
		lvar := ""
		for _, n := range allNodes(ir.Body) {
			switch n := n.(type) {
			case *CallN:
				if n.Fn != nil && n.Fn.Name() == "TL2ParseSize" && len(n.Results) == 3 && n.ErrChecked {
					size = true
					lvar = n.Results[1]
				}
			case *IfN:
				if bd, ok := isLenGuard(n.Cond); ok && bd == lvar {
					rs := returnsOf(n.Then)
					guard = len(rs) == 1 && isEOFReturn(rs[0])
				}
			case *ReturnN:
				if len(n.Vals) == 2 && n.Vals[1] == "nil" {
					ret = n.Vals[0] == "buf["+lvar+":]"
				}
			}
		}
		b.ob("tl2-string-read", name, size && guard && ret, fmt.Sprintf("size parsed with error check=%v; len(r) < l → EOF=%v; returns r[l:]=%v", size, guard, ret))
	}
	for _, name := range []string{"StringWriteTL2", "StringWriteTL2Bytes"} {
		ir := b.ir(name)
		if ir == nil {
			continue
		}
		var seq []string
		for _, n := range ir.Body {
			if call, ok := n.(*CallN); ok {
				if call.Fn != nil {
					seq = append(seq, call.Fn.Name()+"("+strings.Join(call.Args, ",")+")")
				} else if call.Builtin == "append" {
					seq = append(seq, "append("+strings.Join(call.Args, ",")+")")
				}
			}
		}
		got := strings.Join(seq, ";")
		b.ob("tl2-string-write", name, got == "TL2WriteSize(buf,len(val));append(buf,val)", got)
	}
	// SkipSizedValue rejects len(r) < l
	if ir := b.ir("SkipSizedValue"); ir != nil {
		var size, guard, adv bool
		lvar := ""
		for _, n := range allNodes(ir.Body) {
			switch n := n.(type) {
			case *CallN:
				if n.Fn != nil && n.Fn.Name() == "TL2ParseSize" && len(n.Results) == 3 && n.ErrChecked {
					size, lvar = true, n.Results[1]
				}
			case *IfN:
				if bd, ok := isLenGuard(n.Cond); ok && bd == lvar {
					rs := returnsOf(n.Then)
					guard = len(rs) == 1 && rs[0].Vals[len(rs[0].Vals)-1] != "nil" && rs[0].Vals[len(rs[0].Vals)-1] != "err"
				}
			case *AssignN:
				if len(n.LHS) == 1 && n.LHS[0] == "buf" && n.RHS[0] == "buf["+lvar+":]" {
					adv = true
				}
			}
		}
		b.ob("tl2-skip-sized", "SkipSizedValue", size && guard && adv, fmt.Sprintf("size parsed=%v; len(r) < l rejected=%v; advances by l=%v", size, guard, adv))
	}
}

// bit vectors
func (b *bctx) ruleBitVectors() {
	sk := func(name string) (string, bool) {
		ir := b.ir(name)
		if ir == nil {
			return "", false
		}
		var parts []string
		var rec func(blk Block, depth int)
		rec = func(blk Block, depth int) {
			for _, n := range blk {
				switch n := n.(type) {
				case *LoopN:
					bound := n.Over
					if n.Cond != nil {
						bound = n.Cond.String()
					}
					parts = append(parts, fmt.Sprintf("loop[%d] %s", depth, bound))
					rec(n.Body, depth+1)
				case *IfN:
					parts = append(parts, "if "+n.Cond.String())
					rec(n.Then, depth)
				case *AssignN:
					if n.Tok == token.DEFINE {
						continue
					}
					parts = append(parts, strings.Join(n.LHS, ",")+" "+n.Tok.String()+" "+strings.Join(n.RHS, ","))
				case *CallN:
					if n.Builtin == "append" {
						parts = append(parts, "emit("+strings.Join(n.Args[1:], ",")+")")
					} else if n.Fn != nil && n.Fn.Name() == "ByteRead" {
						parts = append(parts, "take("+n.Args[1]+")")
					}
				}
			}
		}
		rec(ir.Body, 0)
		return localRx.ReplaceAllStringFunc(strings.Join(parts, " ; "), func(l string) string { return stripLocalNo(l) }), true
	}
	w, okw := sk("VectorBitContentWriteTL2")
	r, okr := sk("VectorBitContentReadTL2")
	if !okw || !okr {
		if b.pkg == "pkg/basictl" {
			b.c.Undecided("tl2-bit-vector", b.pkg, "", "VectorBitContent{Write,Read}TL2 not found")
		}
		return
	}
	wantW := "loop[0] ((blockOffset + #8) <= len(val)) ; loop[1] #8 ; if val[(blockOffset + *)] ; block |= (#1 << *) ; emit(block) ; blockOffset += #8 ; if (blockOffset < len(val)) ; loop[0] (len(val) - blockOffset) ; if val[(blockOffset + *)] ; block |= (#1 << *) ; emit(block)"
	wantR := "loop[0] ((blockOffset + #8) <= len(val)) ; take(block) ; loop[1] #8 ; val[(blockOffset + *)] = ((block & (#1 << *)) != #0) ; blockOffset += #8 ; if (blockOffset < len(val)) ; take(block) ; loop[0] (len(val) - blockOffset) ; val[(blockOffset + *)] = ((block & (#1 << *)) != #0)"
	b.ob("tl2-bit-vector/writer", "VectorBitContentWriteTL2", w == wantW, "8 values per byte, bit j = value blockOffset+j (LSB first), partial tail block: "+w)
	b.ob("tl2-bit-vector/reader", "VectorBitContentReadTL2", r == wantR, "dual of the writer: "+r)
}

// every truncation guard of a primitive reader returns io.ErrUnexpectedEOF (itself or wrapped with %w)
func (b *bctx) ruleTruncationEOF() {
	readers := []string{"NatRead", "IntRead", "LongRead", "FloatRead", "DoubleRead", "Uint64Read", "ByteRead", "StringRead", "StringReadBytes",
		"NatPeekTag", "NatReadTag", "NatReadExactTag", "TL2ParseSize", "StringReadTL2", "StringReadTL2Bytes", "CheckLengthSanity"}
	for _, name := range readers {
		ir := b.ir(name)
		if ir == nil {
			continue
		}
		n, bad := 0, []string{}
		walkBlock(ir.Body, nil, func(nd Node, _ []Guard) {
			in, ok := nd.(*IfN)
			if !ok {
				return
			}
			isTrunc := false
			if _, ok := isLenGuard(in.Cond); ok {
				isTrunc = true
			}
			if in.Cond.Kind == "cmp" && in.Cond.Op == "<" && strings.HasPrefix(in.Cond.X, "len(buf)") && !in.Cond.Neg {
				isTrunc = true
			}
			if !isTrunc {
				return
			}
			n++
			if !eofBlock(in.Then) {
				bad = append(bad, "guard "+in.Cond.String()+" does not return io.ErrUnexpectedEOF")
			}
		})
		if n == 0 {
			b.c.Undecided("truncation-eof", b.pkg+"."+name, b.pos(name), "reader has no truncation guard")
			continue
		}
		b.ob("truncation-eof", name, len(bad) == 0, fmt.Sprintf("%d truncation guards; %s", n, strings.Join(bad, "; ")))
	}
}

func (b *bctx) ruleReadBool() {
	ir := b.ir("ReadBool")
	if ir == nil {
		return
	}
	ok := false
	detail := "no switch over the tag"
	for _, n := range ir.Body {
		sw, isSw := n.(*SwitchN)
		if !isSw {
			continue
		}
		var f, t, d bool
		for _, cs := range sw.Cases {
			if cs.Default {
				rs := returnsOf(cs.Body)
				d = len(rs) == 1 && rs[0].Vals[len(rs[0].Vals)-1] != "nil"
				continue
			}
			for _, m := range cs.Body {
				if a, isA := m.(*AssignN); isA && len(a.LHS) == 1 && a.LHS[0] == "val" {
					// parameters in declaration order: (r, v, falseTag, trueTag) → buf, val, val2, val3
					switch {
					case a.RHS[0] == "false" && len(cs.Vals) == 1 && cs.Vals[0] == "val2":
						f = true
					case a.RHS[0] == "true" && len(cs.Vals) == 1 && cs.Vals[0] == "val3":
						t = true
					}
				}
			}
		}
		ok = f && t && d
		detail = fmt.Sprintf("falseTag→false=%v trueTag→true=%v default→error=%v", f, t, d)
	}
	b.ob("readbool-rejects-other-tags", "ReadBool", ok, detail)
}

func checkBasictlCanonicalReaders(c *Check) {
	for _, b := range loadBasictl(c) {
		b.ruleStringRead("StringRead")
		b.ruleStringRead("StringReadBytes")
		b.ruleReadBool()
	}
}

func checkC33(c *Check) {
	c.Explanation = "Decision tables of the basictl primitives are extracted from the type-checked source (guards folded to constants, header sizes, length-byte positions and shifts, padding bases, rejections, success returns) and compared with the documented layout frozen in the checker and with each other: TL1 strings (≤253: 1-byte header, pad base l+1; ≤2^24-1: marker 254 + 3 LE bytes; else marker 255 + 7 LE bytes, ≤2^56-1), reader rejections of non-minimal forms and non-zero padding, padding residue (-p) mod 4 on both sides, TL2 sizes (<254: 1 byte; <254+65536: 254 + u16(l-254); else 255 + u64) identically in TL2WriteSize/TL2PutSize/TL2CalculateSize/TL2ParseSize, fixed-width pairs (reader consumes what the writer appends, little-endian), bit vectors (8 per byte, LSB first, partial tail), and every truncation guard returns io.ErrUnexpectedEOF. Run on pkg/basictl and on the two other copies linked into the repository."
	c.NotCovered = "exhaustive value round trip (would be execution); behaviour of int on 32-bit platforms; the standard library's binary.LittleEndian"
	c.Trusted = []string{"go/types constant folding", "encoding/binary", "documented layout tables transcribed from docs/tldoc.ru.md and the code comments"}
	for _, b := range loadBasictl(c) {
		b.ruleFixedWidth()
		b.ruleStringRead("StringRead")
		b.ruleStringRead("StringReadBytes")
		b.ruleStringWrite()
		b.ruleTL2Sizes()
		b.ruleBitVectors()
		b.ruleTruncationEOF()
		b.ruleReadBool()
	}
	c.Floor("fixed-width-pair", 12)
	c.Floor("tl1-string-read/arm", 12)
	c.Floor("tl1-string-read/padding-zero-check", 4)
	c.Floor("tl1-string-write/arm", 6)
	c.Floor("tl2-size/arm", 24)
	c.Floor("truncation-eof", 25)
	c.Floor("tl2-bit-vector/writer", 2)
}
