package main

// checkBasictlCanonicalReaders is shared by C02 (clause c) and C33; filled in c33 rules.
func checkBasictlCanonicalReaders(c *Check) {}
