package main

import (
	"fmt"
	"strings"
)

func init() { register("C37", checkC37) }

func checkC37(c *Check) {
	c.Explanation = "UDP acknowledgement headers — structural clauses only (the set arithmetic 'equals the union of recorded ranges' is value-level and is not decided): BuildAck writes the prefix as ackPrefix-1 only when ackPrefix > 0 (else clears it), takes ack-from/ack-to from the first range node's own bounds, and every number put into the ack set is produced by a loop running from a range node's ackFrom to the same node's ackTo (so nothing outside a recorded range is acknowledged, given the representation); BuildNegativeAck requests exactly the gaps: [ackPrefix, first.ackFrom-1] and [r.ackTo+1, r.next.ackFrom-1]; both stop at MaxAckSet entries; AddAckRange links every new node to its successor and into its predecessor (or firstRange) on the same path, and merges by min/max of the node's own bounds."
	c.NotCovered = "that the representation (prefix + sorted, disjoint, non-adjacent ranges) is maintained by AddAckRange for every history — value-level; uint32 wrap-around"
	c.Trusted = []string{"go/types"}
	r := loadRepoFuncs(c, "./pkg/rpc/udp")
	if r == nil {
		return
	}
	P := "pkg/rpc/udp.AcksToSend."
	if ir := r.ir(P + "BuildAck"); ir != nil {
		t := flatText(irText(ir))
		pos := r.pos(ir.Info.Decl.Pos())
		prefix := strings.HasPrefix(t, "if (#0 < item.ackPrefix)\ncall NetUdpPacketEncHeader.SetPacketAckPrefix recv=val((item.ackPrefix - #1)) -> []\nelse\ncall NetUdpPacketEncHeader.ClearPacketAckPrefix recv=val() -> []\n")
		first := strings.Contains(t, "assign $ := item.firstRange\ncall NetUdpPacketEncHeader.SetPacketAckFrom recv=val($.ackFrom) -> []\ncall NetUdpPacketEncHeader.SetPacketAckTo recv=val($.ackTo) -> []\n")
		set := strings.Contains(t, "assign $ := $.ackFrom\nloop for over= count=false cond=and(($ <= $.ackTo),(len(item.ackSetReused) < #50))\ncall append recv=(item.ackSetReused, $) -> [item.ackSetReused]\nassign $ ++ \n")
		raw := flatText(blockText(ir.Body))
		same := false
		if i := strings.Index(raw, ".ackFrom\nloop for"); i > 0 {
			seg := raw[strings.LastIndex(raw[:i], "assign ")+7 : i]
			parts := strings.SplitN(seg, " := ", 2)
			if len(parts) == 2 {
				same = strings.Contains(raw, "cond=and(("+parts[0]+" <= "+parts[1]+".ackTo)") && strings.Contains(raw, "call append recv=(item.ackSetReused, "+parts[0]+")")
			}
		}
		c.Ob("acks/ack-header-from-recorded-ranges", "AcksToSend.BuildAck", prefix && first && set && same, pos, fmt.Sprintf("prefix=ackPrefix-1 under ackPrefix>0: %v; from/to are the first node's bounds: %v; ack set enumerates node.ackFrom..node.ackTo of one node, capped: %v/%v", prefix, first, set, same))
	}
	if ir := r.ir(P + "BuildNegativeAck"); ir != nil {
		t := flatText(irText(ir))
		firstGap := strings.Contains(t, "lit:ResendRange{PacketNumFrom:item.ackPrefix,PacketNumTo:($.ackFrom - #1)}")
		gaps := strings.Contains(t, "loop for over= count=false cond=and(($.next != nil),(len(item.nackSetReused) < #50))\ncall append recv=(item.nackSetReused, lit:ResendRange{PacketNumFrom:($.ackTo + #1),PacketNumTo:($.next.ackFrom - #1)}) -> [item.nackSetReused]\nassign $ = $.next\n")
		c.Ob("acks/nack-requests-exactly-the-gaps", "AcksToSend.BuildNegativeAck", firstGap && gaps, r.pos(ir.Info.Decl.Pos()), fmt.Sprintf("first gap [ackPrefix, first.ackFrom-1]: %v; later gaps [r.ackTo+1, r.next.ackFrom-1], capped: %v", firstGap, gaps))
	}
	if ir := r.ir(P + "AddAckRange"); ir != nil {
		t := flatText(irText(ir))
		insert := strings.Contains(t, "assign $ := lit:ackRange{ackFrom:val,ackTo:val2,next:$}\nif ($ != nil)\nassign $.next = $\nelse\nassign item.firstRange = $\nreturn \n")
		merge := strings.Contains(t, "assign $.ackFrom = min($.ackFrom, val)\nassign $.ackTo = max($.ackTo, val2)\nreturn \n")
		unlink := strings.Contains(t, "assign val = min($.ackFrom, val)\nif ($ != nil)\nassign $.next = $.next\nelse\nassign item.firstRange = $.next\nassign $ = $.next\n")
		absorb := strings.Contains(t, "loop for over= count=false cond=and((item.firstRange != nil),(item.firstRange.ackFrom <= item.ackPrefix))\nassign item.ackPrefix = max(item.ackPrefix, (item.firstRange.ackTo + #1))\nassign item.firstRange = item.firstRange.next\n")
		// every advance of the prefix is followed, in the same block, by the loop that absorbs *all* leading ranges the
		// new prefix reaches (one range absorbed by an `if` leaves later ranges at or below the prefix)
		const absorbCond = "and((item.firstRange != nil),(item.firstRange.ackFrom <= item.ackPrefix))"
		advances, unabsorbed := 0, 0
		var blocks func(b Block, inAbsorb bool)
		blocks = func(b Block, inAbsorb bool) {
			for i, n := range b {
				switch n := n.(type) {
				case *AssignN:
					if len(n.LHS) == 1 && n.LHS[0] == "item.ackPrefix" && !inAbsorb {
						advances++
						found := false
						for _, later := range b[i+1:] {
							if lp, ok := later.(*LoopN); ok && lp.Cond != nil && lp.Cond.String() == absorbCond {
								found = true
							}
						}
						if !found {
							unabsorbed++
						}
					}
				case *IfN:
					blocks(n.Then, inAbsorb)
					blocks(n.Else, inAbsorb)
				case *LoopN:
					blocks(n.Body, inAbsorb || n.Cond != nil && n.Cond.String() == absorbCond)
				}
			}
		}
		blocks(ir.Body, false)
		c.Ob("acks/prefix-advance-absorbs-all-reached-ranges", "AcksToSend.AddAckRange", advances > 0 && unabsorbed == 0, r.pos(ir.Info.Decl.Pos()), fmt.Sprintf("%d statements advance the prefix outside the absorbing loop; %d of them are not followed by `for firstRange != nil && firstRange.ackFrom <= ackPrefix { … }`", advances, unabsorbed))
		c.Ob("acks/range-list-linking", "AcksToSend.AddAckRange", insert && merge && unlink && absorb, r.pos(ir.Info.Decl.Pos()), fmt.Sprintf("new node linked to successor and predecessor/firstRange: %v; in-place merge by min/max of own bounds: %v; absorbed node unlinked and its lower bound carried: %v; prefix absorbs leading ranges: %v", insert, merge, unlink, absorb))
	}
}

// flatText removes indentation, so that shape patterns do not depend on nesting depth.
func flatText(s string) string {
	ls := strings.Split(s, "\n")
	for i, l := range ls {
		ls[i] = strings.TrimLeft(l, " ")
	}
	return strings.Join(ls, "\n")
}
