package main

import (
	"fmt"
	"go/token"
	"go/types"
	"regexp"
	"sort"
	"strings"

	"golang.org/x/tools/go/ssa"
	"golang.org/x/tools/go/ssa/ssautil"
)

func init() { register("C36", checkC36) }

var c36Writers = map[string]string{
	"Transport.tryAcquireMemoryForTheFirst/Transport.acquiredMemory/assign =":       "the only increase; guarded by the limit test (udp/memory-admission-guard)",
	"Transport.releaseMemory/Transport.acquiredMemory/assign -=":                    "the only decrease; guarded by the underflow panic and followed by checkMemoryWaiters",
	"Transport.tryAcquireMemoryForTheFirst/Transport.memoryWaiters/method PopFront": "admitted waiter leaves the queue",
	"Transport.tryAcquireMemory/Transport.memoryWaiters/method PushBack":            "a connection enters the queue once (inMemoryWaitersQueue flag)",
}

func checkC36(c *Check) {
	c.Explanation = "UDP transport: the behaviour 'every message delivered exactly once under loss/duplication' quantifies over schedules and is not decided. Decided structural clauses: (1) memory bound — Transport.acquiredMemory is written only by tryAcquireMemoryForTheFirst (assignment control-dependent on acquiredMemory + requested <= incomingMessagesMemoryLimit, same operands) and releaseMemory (after the underflow panic, followed by checkMemoryWaiters so no waiter is left with room available); the waiter queue is mutated only by the two acquire functions; (2) thread confinement — the comment 'no synchronization is needed because all methods are called only from goRead' is checked on the VTA call graph: every function touching acquiredMemory/memoryWaiters is reachable from goRead and from none of the other goroutine roots (goWrite, goSend, goReceive, goResend, goAck, goResendRequest, goRegenerate) nor from the exported API that user goroutines call; (3) acknowledged prefixes never move backwards — every write to AcksToSend.ackPrefix, IncomingConnection.ackPrefix and OutgoingConnection.ackSeqNoPrefix is `x++` or `x = max(x, …)`."
	c.NotCovered = "delivery exactly-once, content integrity, resend timers, restarts: schedule/fault properties of the simulator (not decidable statically)"
	c.Trusted = []string{"go/types, go/ssa, VTA call graph (over-approximate)"}
	r := loadRepoFuncs(c, "./pkg/rpc/udp")
	if r == nil {
		return
	}
	P := "pkg/rpc/udp."
	var fis []*FuncInfo
	for name, fi := range r.funcs {
		if strings.HasPrefix(name, P) && !strings.HasSuffix(r.co.Fset.Position(fi.Decl.Pos()).Filename, "fuzz_transport.go") {
			fis = append(fis, fi)
		}
	}
	sort.Slice(fis, func(i, j int) bool { return fis[i].Name() < fis[j].Name() })
	// (1) writers
	for _, w := range fieldWriters(fis, map[string]bool{"Transport.acquiredMemory": true, "Transport.memoryWaiters": true}) {
		key := w.Func + "/" + w.Field + "/" + w.How
		reason, ok := c36Writers[key]
		c.Ob("udp/memory-who-may-write", key, ok, r.pos(w.Pos), fmt.Sprintf("%s writes %s (%s): %s", w.Func, w.Field, w.How, orStr(reason, "not one of the two accounting functions")))
	}
	c.Floor("udp/memory-who-may-write", 4)
	if ir := r.ir(P + "Transport.tryAcquireMemoryForTheFirst"); ir != nil {
		defs := inlineDefs(ir)
		n := 0
		walkBlock(ir.Body, nil, func(nd Node, gs []Guard) {
			as, ok := nd.(*AssignN)
			if !ok || len(as.LHS) != 1 || as.LHS[0] != "item.acquiredMemory" {
				return
			}
			n++
			val := expandLocals(as.RHS[0], defs, 3)
			want := "(" + val + " <= item.incomingMessagesMemoryLimit)"
			okg := false
			for _, g := range gs {
				if g.Kind == "if" && expandLocals(g.Text, defs, 3) == want {
					okg = true
				}
			}
			sum := regexp.MustCompile(`^\(item\.acquiredMemory \+ val\.incoming\.requestedMemorySize\)$`).MatchString(val)
			c.Ob("udp/memory-admission-guard", "Transport.tryAcquireMemoryForTheFirst", okg && sum && as.Tok == token.ASSIGN, r.pos(as.Pos), fmt.Sprintf("acquiredMemory = %s only under %s", val, want))
		})
		c.Floor("udp/memory-admission-guard", 1)
	}
	if ir := r.ir(P + "Transport.releaseMemory"); ir != nil {
		txt := irText(ir)
		guard := strings.HasPrefix(txt, "if ((item.acquiredMemory - val) < #0)\n  call panic")
		iSub := topIndex(ir.Body, func(n Node) bool {
			as, ok := n.(*AssignN)
			return ok && len(as.LHS) == 1 && as.LHS[0] == "item.acquiredMemory" && as.Tok == token.SUB_ASSIGN && len(as.RHS) == 1 && as.RHS[0] == "val"
		})
		iWake := topIndex(ir.Body, func(n Node) bool {
			cn, ok := n.(*CallN)
			return ok && cn.Fn != nil && cn.Fn.Name() == "checkMemoryWaiters" && cn.Recv == "item"
		})
		c.Ob("udp/memory-release", "Transport.releaseMemory", guard && iSub >= 0 && iWake > iSub, r.pos(ir.Info.Decl.Pos()), fmt.Sprintf("underflow panic first=%v; acquiredMemory -= released (stmt %d) then checkMemoryWaiters (stmt %d)", guard, iSub, iWake))
	}
	if ir := r.ir(P + "Transport.checkMemoryWaiters"); ir != nil {
		txt := irText(ir)
		ok := strings.Contains(txt, "loop for over= count=false cond=(#0 < item.memoryWaiters.Len())") && regexp.MustCompile(`call CircularSlice\.Front recv=item\.memoryWaiters\(\) -> \[\$\]\n\s+if !item\.tryAcquireMemoryForTheFirst\(\$\)\n\s+return`).MatchString(txt)
		c.Ob("udp/memory-waiters-fifo", "Transport.checkMemoryWaiters", ok, r.pos(ir.Info.Decl.Pos()), "waiters are admitted from the front until the first that does not fit")
	}
	// (1c) the datagram header handed to the write side acknowledges only chunks that were stored
	if ir := r.ir(P + "IncomingConnection.ReceiveDatagram"); ir != nil {
		// the local holding receiveMessageChunk's result
		recvLocal := ""
		walkBlock(ir.Body, nil, func(nd Node, _ []Guard) {
			if cn, ok := nd.(*CallN); ok && cn.Fn != nil && cn.Fn.Name() == "receiveMessageChunk" && len(cn.Results) == 1 {
				recvLocal = cn.Results[0]
			}
		})
		// assignments of locals with their guards (initialisations outside any loop are allowed)
		type asg struct {
			guards []Guard
			rhs    string
		}
		assigns := map[string][]asg{}
		walkBlock(ir.Body, nil, func(nd Node, gs []Guard) {
			if as, ok := nd.(*AssignN); ok {
				for i, l := range as.LHS {
					rhs := ""
					if i < len(as.RHS) {
						rhs = as.RHS[i]
					}
					assigns[l] = append(assigns[l], asg{gs, as.Tok.String() + " " + rhs})
				}
			}
		})
		localRx := regexp.MustCompile(`L\d+:\w+`)
		var judge func(expr string, depth int) (bool, string)
		judge = func(expr string, depth int) (bool, string) {
			for _, l := range localRx.FindAllString(expr, -1) {
				for _, a := range assigns[l] {
					inLoop, underRecv := false, false
					for _, g := range a.guards {
						if g.Kind == "loop" {
							inLoop = true
						}
						if g.Kind == "if" && recvLocal != "" && strings.Contains(g.Text, recvLocal) {
							underRecv = true
						}
					}
					if inLoop && !underRecv {
						return false, l + " is updated in the chunk loop outside `if " + recvLocal + "` (" + a.rhs + ")"
					}
					if !inLoop && depth < 3 && localRx.MatchString(a.rhs) && strings.HasPrefix(a.rhs, "= ") {
						if ok, why := judge(a.rhs, depth+1); !ok {
							return false, why
						}
					}
				}
			}
			return true, ""
		}
		n := 0
		walkBlock(ir.Body, nil, func(nd Node, gs []Guard) {
			cn, ok := nd.(*CallN)
			if !ok || cn.Fn == nil || len(cn.Args) != 1 {
				return
			}
			switch cn.Fn.Name() {
			case "SetPacketNum", "SetPacketsFrom", "SetPacketsCount":
				n++
				ok, why := judge(cn.Args[0], 0)
				c.Ob("udp/ack-only-stored-chunks", "IncomingConnection.ReceiveDatagram/"+cn.Fn.Name(), ok && recvLocal != "", r.pos(cn.Pos), "the range written back into the header (which the write side acknowledges) is computed only from sequence numbers recorded when receiveMessageChunk stored the chunk: "+orStr(why, "operands "+cn.Args[0]))
			}
		})
		c.Floor("udp/ack-only-stored-chunks", 3)
	}
	// (3) monotone prefixes
	mono := map[string]bool{"AcksToSend.ackPrefix": true, "IncomingConnection.ackPrefix": true, "OutgoingConnection.ackSeqNoPrefix": true}
	for _, fi := range fis {
		ir := buildFuncIR(fi, r.co.allFuncs(), r.co.Fset)
		walkBlock(ir.Body, nil, func(nd Node, _ []Guard) {
			as, ok := nd.(*AssignN)
			if !ok {
				return
			}
			for i, l := range as.LHS {
				m := regexp.MustCompile(`\.(ackPrefix|ackSeqNoPrefix)$`).FindString(l)
				if m == "" {
					continue
				}
				okm := false
				switch {
				case as.Tok == token.INC:
					okm = true
				case as.Tok == token.ASSIGN && i < len(as.RHS) && strings.HasPrefix(as.RHS[i], "max("+l+", "):
					okm = true
				}
				c.Ob("udp/ack-prefix-monotone", fi.Name()+"/"+l+" "+as.Tok.String(), okm, r.pos(as.Pos), fmt.Sprintf("write to %s must be ++ or max(self, …): %s %s %s", l, l, as.Tok, strings.Join(as.RHS, ",")))
			}
		})
	}
	// cross-check with the type-resolved writer list: same number of sites
	nw := 0
	for _, w := range fieldWriters(fis, mono) {
		if w.How != "init" {
			nw++
		}
	}
	c.Ob("udp/ack-prefix-monotone", "all-writers-seen", nw == c.ruleCount["udp/ack-prefix-monotone"], "", fmt.Sprintf("type-resolved writers of the three prefix fields: %d; sites judged: %d", nw, c.ruleCount["udp/ack-prefix-monotone"]))
	c.Floor("udp/ack-prefix-monotone", 5)

	// (1a') reassembly: when the receive window is extended up to chunk A, the slots up to min(A, B) (B = last chunk of the
	// message at the back of the window) are bound to that message; the fresh empty slot at A may be written only when A
	// lies beyond B (or there is no such message) — otherwise it unbinds the last chunk of a partly received message
	if ir := r.ir("pkg/rpc/udp.IncomingConnection.extendWindow"); ir != nil {
		minRx := regexp.MustCompile(`^\((\S+) <= min\((\S+), (\S+)\)\)$`)
		var g1 *IfN
		var idx, a, b string
		for _, n := range ir.Body {
			in, ok := n.(*IfN)
			if !ok {
				continue
			}
			for _, t := range in.Then {
				if l, ok := t.(*LoopN); ok && l.Cond != nil {
					if m := minRx.FindStringSubmatch(l.Cond.String()); m != nil {
						for _, x := range l.Body {
							if cn, ok := x.(*CallN); ok && cn.Fn != nil && cn.Fn.Name() == "Set" && len(cn.Args) == 2 && cn.Args[0] == m[1] {
								g1, idx, a, b = in, m[1], m[2], m[3]
							}
						}
					}
				}
			}
		}
		ok, detail := false, "the binding loop `for next <= min(A, B) { window.Set(next, {message}) }` was not found"
		if g1 != nil {
			detail = "no later `window.Set(A, empty)`"
			for _, n := range ir.Body {
				in, isIf := n.(*IfN)
				if !isIf || in.Pos <= g1.Pos {
					continue
				}
				for _, t := range in.Then {
					cn, isC := t.(*CallN)
					if !isC || cn.Fn == nil || cn.Fn.Name() != "Set" || len(cn.Args) != 2 {
						continue
					}
					// the fresh slot is at one of the two bounds of the loop; the other one is the message's last chunk
					at, other := cn.Args[0], ""
					switch at {
					case a:
						other = b
					case b:
						other = a
					}
					want := "or(" + g1.Cond.Not().String() + ",(" + other + " < " + at + "))"
					ok = other != "" && in.Cond.String() == want
					detail = fmt.Sprintf("loop binds %s while %s <= min(%s, %s) under %s; fresh slot at %s under %s; required %s", idx, idx, a, b, g1.Cond, at, in.Cond, want)
				}
			}
		}
		c.Ob("udp/window-slot-not-unbound", "IncomingConnection.extendWindow", ok, r.pos(ir.Info.Decl.Pos()), detail)
	} else {
		c.Undecided("udp/window-slot-not-unbound", "IncomingConnection.extendWindow", "", "function not found")
	}

	// (1a'') sending side: a datagram header carries the first sequence number and a count, so the chunks put into one
	// datagram are consecutive. In a loop that steps a sequence number and appends chunks to the result, a number may be
	// skipped (continue) only while nothing has been collected: the skip is preceded in its block by
	// `if <collected marker> != nil { break }`, or is the skip of numbers below the acknowledged prefix (they precede
	// every collected number because the loop counts upwards)
	if ir := r.ir("pkg/rpc/udp.OutgoingConnection.GetChunksToSend"); ir != nil {
		n := 0
		walkBlock(ir.Body, nil, func(nd Node, _ []Guard) {
			lp, ok := nd.(*LoopN)
			if !ok || lp.Cond == nil {
				return
			}
			// the collecting loop: appends to the result parameter and records a marker just before
			marker, appends := "", false
			for i, st := range lp.Body {
				if cn, isC := st.(*CallN); isC && cn.Builtin == "append" && len(cn.Results) == 1 && len(cn.Args) >= 1 && cn.Args[0] == cn.Results[0] && strings.HasPrefix(cn.Results[0], "val") {
					appends = true
					if i > 0 {
						if as, isA := lp.Body[i-1].(*AssignN); isA && len(as.LHS) == 1 && localRx.MatchString(as.LHS[0]) {
							marker = as.LHS[0]
						}
					}
				}
			}
			m := regexp.MustCompile(`^\((\S+) <= `).FindStringSubmatch(lp.Cond.String())
			if !appends || marker == "" || m == nil {
				return
			}
			counter := m[1]
			var visit func(b Block, guard string)
			visit = func(b Block, guard string) {
				for i, st := range b {
					switch st := st.(type) {
					case *IfN:
						visit(st.Then, st.Cond.String())
						visit(st.Else, "")
					case *BranchN:
						if st.Tok != token.CONTINUE {
							continue
						}
						n++
						ok := false
						why := "a sequence number is skipped after chunks were collected: the datagram would carry non-consecutive chunks under consecutive numbers"
						for _, prev := range b[:i] {
							if in, isIf := prev.(*IfN); isIf && in.Cond.String() == "("+marker+" != nil)" && len(in.Then) == 1 {
								if br, isB := in.Then[0].(*BranchN); isB && br.Tok == token.BREAK {
									ok, why = true, "preceded by `if "+marker+" != nil { break }`"
								}
							}
						}
						if !ok && guard == "("+counter+" < item.ackSeqNoPrefix)" {
							bookkeeping := true
							for _, prev := range b[:i] {
								if as, isA := prev.(*AssignN); !isA || len(as.LHS) != 1 || !strings.HasPrefix(as.LHS[0], "item.") {
									bookkeeping = false
								}
							}
							if bookkeeping {
								ok, why = true, "skips numbers below the acknowledged prefix: they precede every collected number (the loop counts upwards)"
							}
						}
						c.Ob("udp/datagram-chunks-consecutive", fmt.Sprintf("OutgoingConnection.GetChunksToSend/skip#%d", n), ok, r.pos(st.Pos), why)
					}
				}
			}
			visit(lp.Body, "")
		})
		c.Floor("udp/datagram-chunks-consecutive", 2)
	holesTestedAfterRecording(c, r, P)
	}

	// (1b) lockset for the state shared between goroutines under writeMu
	{
		r2 := &repoCtx{c: c, co: r.co, funcs: map[string]*FuncInfo{}}
		for name, fi := range r.funcs {
			if !strings.HasSuffix(r.co.Fset.Position(fi.Decl.Pos()).Filename, "fuzz_transport.go") {
				r2.funcs[name] = fi
			}
		}
		g := map[string]bool{}
		for _, f := range []string{"newMessages", "unreliableMessages", "newHdrRcvs", "newResends", "newAckSnds", "newResendRequestsRcvs", "newResendRequestSnds", "connectionSendQueue", "closedConnections", "newDumpUdpTargets", "newGoReadRegenerates"} {
			g[f] = true
		}
		acc, helpers, problems, nm := locksetForType(r2, "pkg/rpc/udp", "Transport", "writeMu", g)
		for _, pr := range problems {
			c.Undecided("udp/lockset-writeMu", pr, "", pr)
		}
		c.Info("Transport: %d methods; helpers running under writeMu: %v", nm, keysOf(helpers))
		for _, a := range acc {
			if a.Func == "NewTransport" {
				continue
			}
			c.Ob("udp/lockset-writeMu", a.Func+"/"+a.Field, a.Held, r.pos(a.Pos), fmt.Sprintf("access to Transport.%s with writeMu held=%v (write=%v)", a.Field, a.Held, a.Write))
		}
		c.Floor("udp/lockset-writeMu", 20)
	}

	// (2) thread confinement on the call graph
	p := loadProgram(c, "./pkg/rpc/...")
	if p == nil {
		return
	}
	udp := "github.com/VKCOM/tl/pkg/rpc/udp"
	var readRoot *ssa.Function
	var otherRoots []*ssa.Function
	var otherNames []string
	for _, g := range []string{"goWrite", "goSend", "goReceive", "goResend", "goAck", "goResendRequest", "goRegenerate"} {
		f := p.funcByName(udp, "Transport", g)
		if f == nil {
			c.Undecided("udp/confinement", "Transport."+g, "", "goroutine root not found")
			continue
		}
		otherRoots = append(otherRoots, f)
		otherNames = append(otherNames, g)
	}
	readRoot = p.funcByName(udp, "Transport", "goRead")
	if readRoot == nil {
		c.Undecided("udp/confinement", "Transport.goRead", "", "goRead not found")
		return
	}
	// exported API of Transport and Connection (callable from any user goroutine), except GoRead* helpers and Run (which runs goRead itself)
	for fn := range ssautil.AllFunctions(p.Prog) {
		if fn.Pkg == nil || fn.Pkg.Pkg.Path() != udp || fn.Signature.Recv() == nil || fn.Synthetic != "" {
			continue
		}
		if !token.IsExported(fn.Name()) || strings.HasPrefix(fn.Name(), "GoRead") || fn.Name() == "Run" {
			continue
		}
		rn := recvName(fn.Signature.Recv().Type())
		if rn != "Transport" && rn != "Connection" {
			continue
		}
		if strings.HasSuffix(p.Fset.Position(fn.Pos()).Filename, "fuzz_transport.go") {
			continue
		}
		otherRoots = append(otherRoots, fn)
		otherNames = append(otherNames, rn+"."+fn.Name())
	}
	sort.Strings(otherNames)
	c.Info("non-goRead roots: %v", otherNames)
	fromRead := p.reachable(readRoot)
	// per-root reachability to name the offending root
	type rootReach struct {
		name string
		set  map[*ssa.Function]bool
	}
	var reaches []rootReach
	for _, f := range otherRoots {
		reaches = append(reaches, rootReach{recvName(f.Signature.Recv().Type()) + "." + f.Name(), p.reachable(f)})
	}
	allRoots := map[string]map[*ssa.Function]bool{"goRead": fromRead}
	for _, rr := range reaches {
		allRoots[strings.TrimPrefix(rr.name, "Transport.")] = rr.set
	}
	type confGroup struct {
		rule   string
		owner  string
		fields []string
	}
	groups := []confGroup{
		{"udp/memory-confined-to-goRead", "goRead", []string{"acquiredMemory", "memoryWaiters"}},
		{"udp/goread-local-state-confined", "goRead", []string{"newGoReadRegeneratesLocal", "connectionById"}},
		{"udp/gowrite-local-state-confined", "goWrite", []string{"newMessagesLocal", "newHdrRcvsLocal", "newResendsLocal", "newAckSndsLocal", "newResendRequestsRcvsLocal", "newResendRequestSndsLocal", "connectionSendQueueLocal", "resendTimersLocal", "resendRequestTimersLocal", "closedConnectionsLocal"}},
	}
	for _, g := range groups {
		want := map[string]bool{}
		for _, f := range g.fields {
			want[f] = true
		}
		for fn := range ssautil.AllFunctions(p.Prog) {
			if fn.Pkg == nil || fn.Pkg.Pkg.Path() != udp || strings.HasSuffix(p.Fset.Position(fn.Pos()).Filename, "fuzz_transport.go") {
				continue
			}
			if fn.Name() == "NewTransport" {
				continue // construction happens before any goroutine exists
			}
			fields := map[string]bool{}
			for _, b := range fn.Blocks {
				for _, in := range b.Instrs {
					if fa, ok := in.(*ssa.FieldAddr); ok {
						if name := fieldNameOf(fa); want[name] && recvName(fa.X.Type()) == "Transport" {
							fields[name] = true
						}
					}
				}
			}
			if len(fields) == 0 {
				continue
			}
			var bad []string
			for name, set := range allRoots {
				if name != g.owner && set[fn] {
					bad = append(bad, name)
				}
			}
			sort.Strings(bad)
			c.Ob(g.rule, strings.TrimPrefix(qualName(fn), udp+"."), len(bad) == 0 && allRoots[g.owner][fn], relPos(p.pos(fn.Pos())), fmt.Sprintf("touches %v (documented as %s-only); reachable from %s=%v; reachable from other goroutine/API roots: %v", keysOf(fields), g.owner, g.owner, allRoots[g.owner][fn], bad))
		}
	}
	c.Floor("udp/memory-confined-to-goRead", 4)
}

func fieldNameOf(fa *ssa.FieldAddr) string {
	t := fa.X.Type()
	if p, ok := t.Underlying().(*types.Pointer); ok {
		t = p.Elem()
	}
	st, ok := t.Underlying().(*types.Struct)
	if !ok || fa.Field >= st.NumFields() {
		return ""
	}
	return st.Field(fa.Field).Name()
}

var haveHolesRx = regexp.MustCompile(`([\w:.\[\]*]+)\.HaveHoles\(\)`)

// holesTestedAfterRecording: whether the received sequence numbers have a hole (which arms the timer that asks the peer
// to resend) is tested on the state that includes what the current datagram brought: in a block that both records
// received numbers (AcksToSend.AddAckRange on R) and tests R.HaveHoles(), every recording precedes the test. A test made
// before the recording misses a hole the current datagram opens; if that datagram is the last one, nobody ever asks for
// the missing chunk and the message is never delivered.
func holesTestedAfterRecording(c *Check, r *repoCtx, P string) {
	const rule = "udp/holes-tested-after-recording"
	for _, name := range sortedKeys(r.funcs) {
		fi := r.funcs[name]
		if !strings.HasPrefix(name, P) || fi.Decl.Body == nil || strings.HasSuffix(r.co.Fset.Position(fi.Decl.Pos()).Filename, "fuzz_transport.go") {
			continue
		}
		ir := r.ir(name)
		if ir == nil {
			continue
		}
		k := 0
		var visit func(b Block)
		visit = func(b Block) {
			lastAdd := map[string]int{}
			firstTest := map[string]int{}
			for i, n := range b {
				walkBlock(Block{n}, nil, func(m Node, _ []Guard) {
					switch m := m.(type) {
					case *CallN:
						if m.Fn != nil && funcDisplayName(m.Fn) == "AcksToSend.AddAckRange" {
							lastAdd[m.Recv] = i
						}
						for _, a := range m.Args {
							for _, mm := range haveHolesRx.FindAllStringSubmatch(a, -1) {
								if _, ok := firstTest[mm[1]]; !ok {
									firstTest[mm[1]] = i
								}
							}
						}
					case *IfN:
						for _, mm := range haveHolesRx.FindAllStringSubmatch(m.Cond.String(), -1) {
							if _, ok := firstTest[mm[1]]; !ok {
								firstTest[mm[1]] = i
							}
						}
					}
				})
			}
			for _, recv := range sortedKeys(lastAdd) {
				if ft, ok := firstTest[recv]; ok && ft != lastAdd[recv] { // the same statement: decided in the nested block
					k++
					c.Ob(rule, fmt.Sprintf("%s/block#%d", strings.TrimPrefix(name, P), k), lastAdd[recv] < ft, r.pos(b[ft].P()), fmt.Sprintf("statement #%d of the block is the last that records received numbers in %s; HaveHoles() is first tested in statement #%d", lastAdd[recv], localNameRx.ReplaceAllString(recv, "$$"), ft))
				}
			}
			for _, n := range b {
				switch n := n.(type) {
				case *IfN:
					visit(n.Then)
					visit(n.Else)
				case *LoopN:
					visit(n.Body)
				case *SwitchN:
					for _, cs := range n.Cases {
						visit(cs.Body)
					}
				}
			}
		}
		visit(ir.Body)
	}
	c.Floor(rule, 1)
}
