package main

import (
	"fmt"
	"go/ast"
	"go/token"
	"go/types"
	"regexp"
	"sort"
	"strings"
)

func init() { register("C35", checkC35) }

func irText(ir *FuncIR) string {
	var sb strings.Builder
	dumpBlock(&sb, ir.Body, "")
	return canonAssignOrder(sb.String())
}

var plainAssignRx = regexp.MustCompile(`^( *)assign ([^ ,(]+) = ([^(]*)$`)

// canonAssignOrder replaces local names by `$` and puts every run of adjacent, mutually independent plain assignments
// (`x.a = v`, no call on either side, neither target mentioned by the other statement) into one order, so that rules
// that read the text do not depend on the order in which the source happens to list them.
func canonAssignOrder(text string) string {
	lines := strings.Split(text, "\n")
	type asg struct{ lhs, rhs, canon string }
	parse := func(l string) (string, *asg) {
		m := plainAssignRx.FindStringSubmatch(l)
		if m == nil {
			return "", nil
		}
		return m[1], &asg{m[2], m[3], localNameRx.ReplaceAllString(l, "$$")}
	}
	independent := func(a, b *asg) bool {
		return !strings.Contains(b.rhs, a.lhs) && !strings.Contains(b.lhs, a.lhs) && !strings.Contains(a.rhs, b.lhs) && !strings.Contains(a.lhs, b.lhs)
	}
	out := make([]string, 0, len(lines))
	for i := 0; i < len(lines); {
		ind, a := parse(lines[i])
		if a == nil {
			out = append(out, localNameRx.ReplaceAllString(lines[i], "$$"))
			i++
			continue
		}
		run := []*asg{a}
		j := i + 1
		for ; j < len(lines); j++ {
			ind2, b := parse(lines[j])
			if b == nil || ind2 != ind {
				break
			}
			ok := true
			for _, p := range run {
				if !independent(p, b) {
					ok = false
				}
			}
			if !ok {
				break
			}
			run = append(run, b)
		}
		sort.SliceStable(run, func(x, y int) bool { return run[x].canon < run[y].canon })
		for _, r := range run {
			out = append(out, r.canon)
		}
		i = j
	}
	return strings.Join(out, "\n")
}

// topLevelOrder returns the position index of the first top-level node matching pred, or -1.
func topIndex(blk Block, pred func(Node) bool) int {
	for i, n := range blk {
		if pred(n) {
			return i
		}
	}
	return -1
}

func checkC35(c *Check) {
	c.Explanation = "Packet framing, decided on pkg/rpc/packetconn.go as must-pass-through and table rules (not by exchanging packets): (1) every success return of ReadPacketBodyUnlocked is the last statement and is preceded at top level by `readCRC != crc → error`, where readCRC is read from the 4 bytes after the body and crc is crc32.Update over headerReadBuf[:12] then the body with the connection's table; non-zero alignment padding is rejected; bytes come from pc.r only through io.ReadFull; (2) every success return of readPacketHeaderUnlockedImpl is preceded by the length-range, multiple-of-4 (protocol 0), handshake-type and seqNum == readSeqNum tests, with readSeqNum++ exactly once after them; header fields are taken from offsets [0:4], [4:8], [8:12]; (3) the writer emits exactly three words (len+overhead, writeSeqNum, type) with writeSeqNum++ once, accumulates the CRC over those 12 bytes and every body chunk, and the trailer appends the CRC then 3/2/1 zero bytes by the same -len&3 rule as the reader (packetOverhead is a multiple of 4); (4) who-may-read: pc.r is passed only to io.ReadFull/readFullOrMagic."
	c.NotCovered = "AES-CBC stream correctness, handshake key derivation, CRC collision probability: 'corrupting any byte is detected' is decided only as 'no success path bypasses the integrity tests'"
	c.Trusted = []string{"go/types", "hash/crc32, io.ReadFull semantics"}
	r := loadRepoFuncs(c, "./pkg/rpc")
	if r == nil {
		return
	}
	P := "pkg/rpc.PacketConn."
	// (0) buffers: a reused buffer is resliced only to the capacity that was tested
	growOrReslice(c, r, "packet/reused-buffer-capacity-tested-for-length-taken", "pkg/rpc.")
	c.Floor("packet/reused-buffer-capacity-tested-for-length-taken", 1)
	// (1) body reader
	if ir := r.ir(P + "ReadPacketBodyUnlocked"); ir != nil {
		pos := r.pos(ir.Info.Decl.Pos())
		n := len(ir.Body)
		lastOK := n > 0
		if lastOK {
			rt, ok := ir.Body[n-1].(*ReturnN)
			lastOK = ok && successReturn(ir, rt)
		}
		// no other success return anywhere
		succ := 0
		walkBlock(ir.Body, nil, func(nd Node, _ []Guard) {
			if rt, ok := nd.(*ReturnN); ok && successReturn(ir, rt) {
				succ++
			}
		})
		c.Ob("packet/body-single-success-exit", "ReadPacketBodyUnlocked", lastOK && succ == 1, pos, fmt.Sprintf("%d success returns; the only one is the final statement", succ))
		// crc test immediately dominates it
		crcIdx := topIndex(ir.Body, func(nd Node) bool {
			in, ok := nd.(*IfN)
			return ok && in.Cond.Kind == "cmp" && in.Cond.Op == "!=" && !in.Cond.Neg && errorExitDeep(in.Then) && localRx.MatchString(in.Cond.X) && localRx.MatchString(in.Cond.Y)
		})
		okCRC := false
		detail := "no top-level `readCRC != crc → error`"
		if crcIdx >= 0 {
			in := ir.Body[crcIdx].(*IfN)
			a, b := in.Cond.X, in.Cond.Y
			// definitions
			var readDef, upd1, upd2 string
			for _, nd := range ir.Body[:crcIdx] {
				if call, ok := nd.(*CallN); ok && call.Fn != nil {
					if call.Fn.Name() == "Uint32" && len(call.Results) == 1 && (call.Results[0] == a || call.Results[0] == b) {
						readDef = strings.Join(call.Args, ",")
					}
					if call.Fn.Name() == "Update" && call.Fn.Pkg().Path() == "hash/crc32" && len(call.Results) == 1 && (call.Results[0] == a || call.Results[0] == b) {
						if upd1 == "" {
							upd1 = strings.Join(call.Args, ",")
						} else {
							upd2 = strings.Join(call.Args, ",")
						}
					}
				}
			}
			readOK := regexp.MustCompile(`^val2\[L\d+:\w+:\]$`).MatchString(readDef)
			u1OK := upd1 == "#0,item.table,item.headerReadBuf[:#12]"
			u2OK := regexp.MustCompile(`^L\d+:\w+,item\.table,val2$`).MatchString(upd2)
			okCRC = readOK && u1OK && u2OK && crcIdx == n-2
			detail = fmt.Sprintf("read CRC from %s; crc = Update(%s) then Update(%s); test is the statement before the success return=%v", readDef, upd1, upd2, crcIdx == n-2)
		}
		c.Ob("packet/body-crc-dominates-success", "ReadPacketBodyUnlocked", okCRC, pos, detail)
		txt := irText(ir)
		c.Ob("packet/body-padding-zero", "ReadPacketBodyUnlocked", regexp.MustCompile(`loop for over=\$ count=true[^\n]*\n\s+assign \$ := val2\[\(\(\$ \+ #4\) \+ \*\)\]\n\s+if nz\(\$\)\n\s+return val2, lit:tagError`).MatchString(txt), pos, "every alignment byte after the CRC is compared with 0 and rejected")
		c.Ob("packet/body-align-rule", "ReadPacketBodyUnlocked", strings.Contains(txt, "assign $ = (-val.length & #3)"), pos, "alignment = -length & 3 when encrypted")
		c.Ob("packet/body-read-full", "ReadPacketBodyUnlocked", strings.Contains(txt, "call ReadFull recv=(item.r, val2)"), pos, "body+crc+alignment are read with io.ReadFull(pc.r, …)")
	}
	// (2) header reader
	if ir := r.ir(P + "readPacketHeaderUnlockedImpl"); ir != nil {
		pos := r.pos(ir.Info.Decl.Pos())
		txt := irText(ir)
		n := len(ir.Body)
		succ := 0
		walkBlock(ir.Body, nil, func(nd Node, _ []Guard) {
			if rt, ok := nd.(*ReturnN); ok && successReturn(ir, rt) {
				succ++
			}
		})
		lastOK := false
		if n > 0 {
			rt, ok := ir.Body[n-1].(*ReturnN)
			lastOK = ok && successReturn(ir, rt)
		}
		c.Ob("packet/header-single-success-exit", "readPacketHeaderUnlockedImpl", lastOK && succ == 1, pos, fmt.Sprintf("%d success returns; the only one is the final statement", succ))
		idx := func(rx string) int {
			re := regexp.MustCompile(rx)
			return topIndex(ir.Body, func(nd Node) bool {
				in, ok := nd.(*IfN)
				return ok && re.MatchString(localNameRx.ReplaceAllString(in.Cond.String(), "$$")) && (errorExitDeep(in.Then) || len(in.Then) > 0)
			})
		}
		iRange := idx(`^or\(\(val\.length < #16\),\(#16777215 < val\.length\)\)$`)
		iMul4 := idx(`^and\(!nz\(item\.protocolVersion\),nz\(\(val\.length % #4\)\)\)$`)
		iHs := idx(`^\(item\.readSeqNum < #0\)$`)
		iSeq := idx(`^\(val\.seqNum != item\.readSeqNum\)$`)
		iInc := topIndex(ir.Body, func(nd Node) bool {
			a, ok := nd.(*AssignN)
			return ok && len(a.LHS) == 1 && a.LHS[0] == "item.readSeqNum" && a.Tok == token.INC
		})
		incs := strings.Count(txt, "assign item.readSeqNum ++")
		ok := iRange >= 0 && iMul4 > iRange && iHs > iMul4 && iSeq > iHs && iInc == iSeq+1 && iInc == n-2 && incs == 1
		c.Ob("packet/header-tests-dominate-success", "readPacketHeaderUnlockedImpl", ok, pos,
			fmt.Sprintf("top-level order: range test #%d, multiple-of-4 #%d, handshake tests #%d, seqNum test #%d, readSeqNum++ #%d (once: %d), success return #%d", iRange, iMul4, iHs, iSeq, iInc, incs, n-1))
		// handshake type tests
		hs := strings.Contains(txt, "val.tip != #") && strings.Count(txt, "val.tip != #") >= 2
		c.Ob("packet/header-handshake-types", "readPacketHeaderUnlockedImpl", hs, pos, "nonce and handshake packet types are required at the first two sequence numbers")
		offs := strings.Contains(txt, "recv=binary.LittleEndian(item.headerReadBuf[:#4]) -> [val.length]") && strings.Contains(txt, "recv=binary.LittleEndian(item.headerReadBuf[#4:#8]) -> [val.seqNum]") && strings.Contains(txt, "recv=binary.LittleEndian(item.headerReadBuf[#8:#12]) -> [val.tip]")
		c.Ob("packet/header-field-offsets", "readPacketHeaderUnlockedImpl", offs, pos, "length, seqNum, type are read little-endian from [0:4], [4:8], [8:12]")
	}
	// (3) writer
	if ir := r.ir(P + "WritePacketHeaderUnlocked"); ir != nil {
		pos := r.pos(ir.Info.Decl.Pos())
		txt := irText(ir)
		var nat []string
		for _, nd := range ir.Body {
			if call, ok := nd.(*CallN); ok && call.Fn != nil && call.Fn.Name() == "NatWrite" {
				nat = append(nat, call.Args[1])
			}
		}
		okW := len(nat) == 3 && nat[0] == "(val2 + #16)" && nat[1] == "item.writeSeqNum" && nat[2] == "val"
		c.Ob("packet/writer-header-words", "WritePacketHeaderUnlocked", okW, pos, fmt.Sprintf("header words in order: %v (want len+overhead, writeSeqNum, type)", nat))
		c.Ob("packet/writer-seqnum-once", "WritePacketHeaderUnlocked", strings.Count(txt, "assign item.writeSeqNum ++") == 1, pos, "writeSeqNum++ exactly once per header")
		c.Ob("packet/writer-crc-covers-header", "WritePacketHeaderUnlocked", regexp.MustCompile(`assign item\.writeCRC = #0\n\s*call PacketConn\.updateWriteCRC recv=item\(\$\[\$:\]\)`).MatchString(txt), pos, "CRC restarts at 0 and accumulates the 12 header bytes")
		// writer and reader must decide *when* a packet is padded by the same predicate: a writer that pads where the
		// reader does not expect padding (or the reverse) shifts every later packet
		alignGuard := func(ir *FuncIR) string {
			g := ""
			walkBlock(ir.Body, nil, func(n Node, _ []Guard) {
				in, ok := n.(*IfN)
				if !ok {
					return
				}
				for _, t := range in.Then {
					if as, isA := t.(*AssignN); isA && len(as.RHS) == 1 && strings.HasPrefix(as.RHS[0], "(-") && strings.HasSuffix(as.RHS[0], " & #3)") {
						g = in.Cond.String()
					}
				}
			})
			return g
		}
		wg, rg := alignGuard(ir), ""
		if rir := r.ir(P + "ReadPacketBodyUnlocked"); rir != nil {
			rg = alignGuard(rir)
		}
		c.Ob("packet/alignment-decided-alike", "WritePacketHeaderUnlocked~ReadPacketBodyUnlocked", wg != "" && wg == rg, pos, fmt.Sprintf("writer pads under `%s`, reader expects padding under `%s`", wg, rg))
		c.Ob("packet/writer-align-rule", "WritePacketHeaderUnlocked", strings.Contains(txt, "assign item.writeAlignTo4 = (-val2 & #3)"), pos, "alignment = -bodyLen & 3 when encrypted (same residue as the reader's -length & 3 because packetOverhead is a multiple of 4)")
	}
	if ir := r.ir(P + "WritePacketBodyUnlocked"); ir != nil {
		txt := irText(ir)
		c.Ob("packet/writer-crc-covers-body", "WritePacketBodyUnlocked", strings.Contains(txt, "call cryptoWriter.Write recv=item.w(buf)") && strings.Contains(txt, "call PacketConn.updateWriteCRC recv=item(buf)"), r.pos(ir.Info.Decl.Pos()), "every body chunk is written and added to the CRC")
	}
	if ir := r.ir(P + "updateWriteCRC"); ir != nil {
		txt := irText(ir)
		c.Ob("packet/writer-crc-update", "updateWriteCRC", strings.Contains(txt, "call Update recv=(item.writeCRC, item.table, buf) -> [item.writeCRC]"), r.pos(ir.Info.Decl.Pos()), "writeCRC = crc32.Update(writeCRC, table, data)")
	}
	if ir := r.ir(P + "WritePacketTrailerUnlocked"); ir != nil {
		txt := irText(ir)
		ok := strings.Contains(txt, "call littleEndian.AppendUint32 recv=binary.LittleEndian(item.headerWriteBuf, item.writeCRC) -> [item.headerWriteBuf]") &&
			regexp.MustCompile(`case #3:\n\s+call append recv=\(item\.headerWriteBuf, #0, #0, #0\)`).MatchString(txt) &&
			regexp.MustCompile(`case #2:\n\s+call append recv=\(item\.headerWriteBuf, #0, #0\)`).MatchString(txt) &&
			regexp.MustCompile(`case #1:\n\s+call append recv=\(item\.headerWriteBuf, #0\)`).MatchString(txt)
		c.Ob("packet/writer-trailer", "WritePacketTrailerUnlocked", ok, r.pos(ir.Info.Decl.Pos()), "trailer = CRC (LE) followed by writeAlignTo4 zero bytes")
	}
	// packetOverhead multiple of 4
	for _, p := range r.co.Pkgs {
		if !strings.HasSuffix(p.PkgPath, "pkg/rpc") {
			continue
		}
		if cst, ok := p.Types.Scope().Lookup("packetOverhead").(*types.Const); ok {
			v := cst.Val().ExactString()
			c.Ob("packet/overhead-multiple-of-4", "packetOverhead", v == "16", "", "packetOverhead = "+v)
		}
		// (4) who-may-read pc.r
		for _, f := range p.Syntax {
			if strings.HasSuffix(r.co.Fset.Position(f.Pos()).Filename, "_test.go") {
				continue
			}
			var stack []ast.Node
			ast.Inspect(f, func(n ast.Node) bool {
				if n == nil {
					stack = stack[:len(stack)-1]
					return true
				}
				stack = append(stack, n)
				sel, ok := n.(*ast.SelectorExpr)
				if !ok || sel.Sel.Name != "r" {
					return true
				}
				s, ok := p.TypesInfo.Selections[sel]
				if !ok || s.Kind() != types.FieldVal {
					return true
				}
				if nmd := namedOf(s.Recv()); nmd == nil || nmd.Obj().Name() != "PacketConn" {
					return true
				}
				// classify use
				use := "other"
				if len(stack) >= 2 {
					switch par := stack[len(stack)-2].(type) {
					case *ast.CallExpr:
						fn := types.ExprString(par.Fun)
						if fn == "io.ReadFull" || fn == "readFullOrMagic" {
							use = "read:" + fn
						}
					case *ast.SelectorExpr:
						use = "field:" + par.Sel.Name // pc.r.buf, pc.r.encrypt…
					case *ast.KeyValueExpr, *ast.AssignStmt:
						use = "init"
					}
				}
				okUse := strings.HasPrefix(use, "read:") || strings.HasPrefix(use, "field:") || use == "init"
				c.Ob("packet/reader-only-through-readfull", relPos(posStr(r.co.Fset, sel.Pos()))[strings.LastIndex(relPos(posStr(r.co.Fset, sel.Pos())), "/")+1:]+"/"+use, okUse, r.pos(sel.Pos()), "pc.r is only handed to io.ReadFull/readFullOrMagic (or configured), never read directly")
				return true
			})
		}
	}
	// (5) the encrypting stream buffers carry every byte region forward exactly once
	if ir := r.ir("pkg/rpc.cryptoReader.Read"); ir != nil {
		pos := r.pos(ir.Info.Decl.Pos())
		txt := irText(ir)
		isCopyTail := func(n Node) bool {
			cn, ok := n.(*CallN)
			return ok && cn.Builtin == "copy" && len(cn.Args) == 2 && strings.HasPrefix(cn.Args[0], "L") && cn.Args[1] == "item.buf[item.end:]" && len(cn.Results) == 1
		}
		isRead := func(n Node) bool {
			cn, ok := n.(*CallN)
			return ok && cn.Builtin == "dyn:item.r.Read"
		}
		iCopy, iRead := topIndex(ir.Body, isCopyTail), topIndex(ir.Body, isRead)
		okCarry := iCopy >= 0 && iRead > iCopy
		if okCarry {
			cp, rd := ir.Body[iCopy].(*CallN), ir.Body[iRead].(*CallN)
			okCarry = len(rd.Args) == 1 && rd.Args[0] == cp.Args[0]+"["+cp.Results[0]+":]"
		}
		c.Ob("crypto/leftover-carried-before-refill", "cryptoReader.Read", okCarry, pos, "the received-but-undecrypted tail buf[end:] is copied to the front of the read target unconditionally (top level, both the buffered and the direct path) and the underlying Read fills the target after it")
		deliver := strings.HasPrefix(txt, "call copy recv=(buf, item.buf[item.begin:item.end]) -> [$]\nassign item.begin += $\n")
		c.Ob("crypto/decrypted-bytes-delivered-first", "cryptoReader.Read", deliver, pos, "already decrypted bytes buf[begin:end] are handed out first and begin advances by the number copied")
		whole := strings.Contains(txt, "call roundDownPow2 recv=(len($), item.blockSize) -> [$]\nif (item.enc != nil)\n  call dyn:item.enc.CryptBlocks recv=($[:$], $[:$]) -> []\n") && strings.Contains(txt, "assign $ = $[:($ + $)]\n")
		c.Ob("crypto/whole-blocks-only", "cryptoReader.Read", whole, pos, "the target is cut to tail+m bytes and only roundDown(len, blockSize) bytes are decrypted, in place")
		buffered := strings.Contains(txt, "if $\n  call copy recv=(buf[$:], $[:$]) -> [$]\n  assign $ += $\n  assign item.begin = $\n  assign item.buf = $\n  assign item.end = $\n")
		direct := strings.Contains(txt, "else\n  assign $ += $\n  call copy recv=(item.buf[:cap(item.buf)], $[$:]) -> [$]\n  assign item.begin = #0\n  assign item.buf = item.buf[:$]\n  assign item.end = #0\n")
		// identify the locals by their roles on the raw text
		var sb strings.Builder
		dumpBlock(&sb, ir.Body, "")
		raw := sb.String()
		m := regexp.MustCompile(`call roundDownPow2 recv=\(len\((L\d+:\w+)\), item\.blockSize\) -> \[(L\d+:\w+)\]`).FindStringSubmatch(raw)
		roles := false
		if m != nil {
			tg, dec := regexp.QuoteMeta(m[1]), regexp.QuoteMeta(m[2])
			roles = regexp.MustCompile(`call copy recv=\(buf\[(L\d+:\w+):\], `+tg+`\[:`+dec+`\]\) -> \[(L\d+:\w+)\]\n\s+assign L\d+:\w+ \+= L\d+:\w+\n`).MatchString(raw) &&
				regexp.MustCompile(`\n\s+assign item\.buf = `+tg+`\n`).MatchString(raw) && regexp.MustCompile(`\n\s+assign item\.end = `+dec+`\n`).MatchString(raw) &&
				regexp.MustCompile(`assign L\d+:\w+ \+= `+dec+`\n\s+call copy recv=\(item\.buf\[:cap\(item\.buf\)\], `+tg+`\[`+dec+`:\]\) -> \[(L\d+:\w+)\]\n(?:\s+assign [^\n]*\n)*?\s+assign item\.buf = item\.buf\[:L\d+:\w+\]`).MatchString(raw)
		}
		c.Ob("crypto/every-region-accounted", "cryptoReader.Read", buffered && direct && roles, pos, fmt.Sprintf("buffered path: decrypted prefix delivered, buf=target, begin=delivered, end=decrypt (tail kept in place)=%v; direct path: decrypt bytes delivered, target[decrypt:] saved to buf, begin=end=0=%v; operands are the target/decrypt locals=%v", buffered, direct, roles))
	}
	if ir := r.ir("pkg/rpc.cryptoWriter.flush"); ir != nil {
		txt := irText(ir)
		ok := strings.Contains(txt, "assign $ := (item.encStart + roundDownPow2((len(item.buf) - item.encStart), item.blockSize))\n") &&
			strings.Contains(txt, "call dyn:item.enc.CryptBlocks recv=(item.buf[item.encStart:$], item.buf[item.encStart:$]) -> []\n  assign item.encStart = #0\n") &&
			strings.Contains(txt, "call dyn:item.w.Write recv=(item.buf[:$]) -> [_ $]\n") &&
			strings.HasSuffix(txt, "call copy recv=(item.buf, item.buf[$:]) -> [$]\nassign item.buf = item.buf[:$]\nreturn true, nil\n")
		c.Ob("crypto/writer-keeps-partial-block", "cryptoWriter.flush", ok, r.pos(ir.Info.Decl.Pos()), "whole blocks after encStart are encrypted in place and written, the partial block is moved to the front and kept")
	}
	c.Floor("packet/reader-only-through-readfull", 4)
	c.Floor("packet/body-crc-dominates-success", 1)
	c.Floor("packet/header-tests-dominate-success", 1)
	c.Floor("packet/writer-header-words", 1)
}

// growOrReslice: the idiom `if cap(b) < G { b = make(T, A) } else { b = b[:E] }` (or with the reslice as the next
// statement) is safe only when the capacity tested is the length taken: G, A and E must be the same expression
// (E may be smaller by a non-negative constant). A smaller G lets b[:E] exceed the capacity for some buffer sizes.
func growOrReslice(c *Check, r *repoCtx, rule string, pkgPrefix string) {
	n := 0
	for _, name := range sortedKeys(r.funcs) {
		fi := r.funcs[name]
		if !strings.HasPrefix(name, pkgPrefix) || fi.Decl.Body == nil {
			continue
		}
		info := fi.Pkg.TypesInfo
		isBuiltin := func(e ast.Expr, nm string) (*ast.CallExpr, bool) {
			call, ok := ast.Unparen(e).(*ast.CallExpr)
			if !ok {
				return nil, false
			}
			id, ok := call.Fun.(*ast.Ident)
			if !ok {
				return nil, false
			}
			b, isB := info.Uses[id].(*types.Builtin)
			return call, isB && b.Name() == nm
		}
		str := func(e ast.Expr) string { return types.ExprString(ast.Unparen(e)) }
		resliceOf := func(st ast.Stmt, x string) (string, bool) {
			as, ok := st.(*ast.AssignStmt)
			if !ok || len(as.Lhs) != 1 || len(as.Rhs) != 1 || str(as.Lhs[0]) != x {
				return "", false
			}
			se, ok := ast.Unparen(as.Rhs[0]).(*ast.SliceExpr)
			if !ok || se.Low != nil || se.High == nil || str(se.X) != x {
				return "", false
			}
			return str(se.High), true
		}
		var visit func(list []ast.Stmt)
		visit = func(list []ast.Stmt) {
			for i, st := range list {
				is, ok := st.(*ast.IfStmt)
				if !ok || is.Init != nil {
					continue
				}
				be, ok := is.Cond.(*ast.BinaryExpr)
				if !ok || be.Op != token.LSS {
					continue
				}
				capCall, ok := isBuiltin(be.X, "cap")
				if !ok || len(capCall.Args) != 1 {
					continue
				}
				x, g := str(capCall.Args[0]), str(be.Y)
				// then-branch: x = make(T, A)
				alloc := ""
				for _, t := range is.Body.List {
					if as, ok := t.(*ast.AssignStmt); ok && len(as.Lhs) == 1 && len(as.Rhs) == 1 && str(as.Lhs[0]) == x {
						if mk, ok := isBuiltin(as.Rhs[0], "make"); ok && len(mk.Args) >= 2 {
							alloc = str(mk.Args[1])
						}
					}
				}
				if alloc == "" {
					continue
				}
				taken, found := "", false
				if eb, ok := is.Else.(*ast.BlockStmt); ok {
					for _, t := range eb.List {
						if e, ok := resliceOf(t, x); ok {
							taken, found = e, true
						}
					}
				}
				if !found && i+1 < len(list) {
					taken, found = resliceOf(list[i+1], x)
				}
				if !found {
					continue
				}
				n++
				ok = alloc == g && taken == g
				c.Ob(rule, fi.Name()+"/"+x, ok, r.pos(is.Pos()), fmt.Sprintf("capacity tested against %s, allocated %s, resliced to %s: all three must be the same length", g, alloc, taken))
			}
		}
		ast.Inspect(fi.Decl.Body, func(nd ast.Node) bool {
			switch b := nd.(type) {
			case *ast.BlockStmt:
				visit(b.List)
			case *ast.CaseClause:
				visit(b.Body)
			}
			return true
		})
	}
	c.Set("grow_or_reslice_sites", n)
}
