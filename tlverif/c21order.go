package main

import (
	"fmt"
	"go/ast"
	"go/token"
	"go/types"
	"path/filepath"
	"sort"
	"strconv"
	"strings"

	"golang.org/x/tools/go/types/typeutil"
)

// astFamily describes one AST with its parser and printers (TL1: qtpl printers; TL2: the Print methods).
type astFamily struct {
	structs      map[string]bool
	parserFiles  map[string]bool
	printerFiles map[string]bool
	isPrinter    func(fn *types.Func) bool // printer functions inside printerFiles
	isReference  func(fn *types.Func) bool // the printers the round trip goes through
}

var tl1Family = &astFamily{
	structs:      astStructs,
	parserFiles:  map[string]bool{"tlparser_code.go": true, "tlparser_typeref.go": true},
	printerFiles: map[string]bool{"qt_tlparser.qtpl.go": true, "qt_combined2tl.qtpl.go": true},
	isPrinter:    func(fn *types.Func) bool { return strings.HasPrefix(strings.ToLower(fn.Name()), "stream") },
	isReference:  func(fn *types.Func) bool { return fn.Name() == "StreamString" },
}

// printerBody is a piece of printing code that prints one value of an AST struct type: a method body with its
// receiver, or the body of a range loop with its value variable.
type printerBody struct {
	name   string // "Field.StreamString" or "Combinator.streamcanonicalForm/range Field"
	strct  string
	v      types.Object
	stmts  []ast.Stmt
	fi     *FuncInfo
	isMeth bool
}

func namedStructName(t types.Type) string {
	if p, ok := t.(*types.Pointer); ok {
		t = p.Elem()
	}
	if n, ok := t.(*types.Named); ok {
		if _, isS := n.Underlying().(*types.Struct); isS {
			return n.Obj().Name()
		}
	}
	return ""
}

// readsOf lists the fields of v's struct mentioned in node (selectors rooted at the identifier v), in source order.
func readsOf(info *types.Info, v types.Object, node ast.Node) []string {
	var out []string
	if node == nil {
		return nil
	}
	ast.Inspect(node, func(n ast.Node) bool {
		if _, isLit := n.(*ast.FuncLit); isLit {
			return false
		}
		if call, ok := n.(*ast.CallExpr); ok && methodReads != nil {
			// v.m(args) where m produces no text (no string result, no writer among its parameters): the fields m reads
			// (computed from m's body) — `descriptor.Crc32()` reads the tag, not every field.
			if sel, ok := call.Fun.(*ast.SelectorExpr); ok {
				if id, ok := ast.Unparen(sel.X).(*ast.Ident); ok && info.Uses[id] == v {
					if sl, isSel := info.Selections[sel]; isSel && sl.Kind() == types.MethodVal {
						if callee, _ := sl.Obj().(*types.Func); callee != nil && !producesText(callee) {
							if fs, ok := methodReads(callee); ok {
								out = append(out, fs...)
								for _, a := range call.Args {
									out = append(out, readsOf(info, v, a)...)
								}
								return false
							}
						}
					}
				}
			}
		}
		if id, ok := n.(*ast.Ident); ok && info.Uses[id] == v {
			out = append(out, "*") // the value as a whole (passed on, or the receiver of a method call): every field
			return true
		}
		sel, ok := n.(*ast.SelectorExpr)
		if !ok {
			return true
		}
		if id, ok := ast.Unparen(sel.X).(*ast.Ident); ok && info.Uses[id] == v {
			if s, isSel := info.Selections[sel]; isSel && s.Kind() == types.FieldVal {
				out = append(out, sel.Sel.Name)
				return false
			}
		}
		return true
	})
	return out
}

// methodReads resolves the receiver fields a same-package method reads (installed by installMethodReads).
var methodReads func(fn *types.Func) ([]string, bool)

func producesText(fn *types.Func) bool {
	sig := fn.Type().(*types.Signature)
	for i := 0; i < sig.Results().Len(); i++ {
		if isStringType(sig.Results().At(i).Type()) {
			return true
		}
	}
	for i := 0; i < sig.Params().Len(); i++ {
		ts := sig.Params().At(i).Type().String()
		if strings.Contains(ts, "Writer") || strings.Contains(ts, "Builder") || strings.Contains(ts, "Buffer") {
			return true
		}
	}
	return false
}

func installMethodReads(r *repoCtx) {
	byObj := map[*types.Func]*FuncInfo{}
	for _, fi := range r.funcs {
		byObj[fi.Obj] = fi
	}
	memo := map[*types.Func][]string{}
	busy := map[*types.Func]bool{}
	methodReads = func(fn *types.Func) ([]string, bool) {
		if m, ok := memo[fn]; ok {
			return m, true
		}
		fi := byObj[fn]
		if fi == nil || busy[fn] || fi.Decl.Body == nil || fi.Decl.Recv == nil || len(fi.Decl.Recv.List) != 1 || len(fi.Decl.Recv.List[0].Names) != 1 {
			return nil, false
		}
		rv := fi.Pkg.TypesInfo.Defs[fi.Decl.Recv.List[0].Names[0]]
		if rv == nil {
			return nil, false
		}
		busy[fn] = true
		defer delete(busy, fn)
		seen := map[string]bool{}
		var out []string
		for _, f := range readsOf(fi.Pkg.TypesInfo, rv, fi.Decl.Body) {
			if !seen[f] {
				seen[f] = true
				out = append(out, f)
			}
		}
		sort.Strings(out)
		memo[fn] = out
		return out, true
	}
}

type fieldSet map[string]bool

func (s fieldSet) has(f string) bool { return s[f] || s["*"] }

func (s fieldSet) with(l []string) fieldSet {
	o := fieldSet{}
	for k := range s {
		o[k] = true
	}
	for _, k := range l {
		o[k] = true
	}
	return o
}

func intersectFields(sets []fieldSet) fieldSet {
	if len(sets) == 0 {
		return nil
	}
	o := fieldSet{}
	keys := map[string]bool{}
	for _, s := range sets {
		for k := range s {
			keys[k] = true
		}
	}
	for k := range keys {
		all := true
		for _, s := range sets {
			if !s.has(k) {
				all = false
			}
		}
		if all {
			o[k] = true
		}
	}
	return o
}

// mustRead: the fields of v consulted on every path through stmts (to the end or to a return).
func mustRead(info *types.Info, v types.Object, stmts []ast.Stmt) fieldSet {
	var exits []fieldSet
	var seq func(stmts []ast.Stmt, acc fieldSet) fieldSet // nil = does not fall through
	seq = func(stmts []ast.Stmt, acc fieldSet) fieldSet {
		for _, st := range stmts {
			switch st := st.(type) {
			case *ast.ReturnStmt:
				exits = append(exits, acc.with(readsOf(info, v, st)))
				return nil
			case *ast.IfStmt:
				acc = acc.with(readsOf(info, v, st.Init)).with(readsOf(info, v, st.Cond))
				var falls []fieldSet
				if f := seq(st.Body.List, acc); f != nil {
					falls = append(falls, f)
				}
				switch e := st.Else.(type) {
				case nil:
					falls = append(falls, acc)
				case *ast.BlockStmt:
					if f := seq(e.List, acc); f != nil {
						falls = append(falls, f)
					}
				case *ast.IfStmt:
					if f := seq([]ast.Stmt{e}, acc); f != nil {
						falls = append(falls, f)
					}
				}
				if len(falls) == 0 {
					return nil
				}
				acc = intersectFields(falls)
			case *ast.SwitchStmt:
				acc = acc.with(readsOf(info, v, st.Init)).with(readsOf(info, v, st.Tag))
				var falls []fieldSet
				hasDefault := false
				for _, cc := range st.Body.List {
					cl := cc.(*ast.CaseClause)
					if cl.List == nil {
						hasDefault = true
					}
					a := acc
					for _, e := range cl.List {
						a = a.with(readsOf(info, v, e))
					}
					if f := seq(cl.Body, a); f != nil {
						falls = append(falls, f)
					}
				}
				if !hasDefault {
					falls = append(falls, acc)
				}
				if len(falls) == 0 {
					return nil
				}
				acc = intersectFields(falls)
			case *ast.ForStmt:
				acc = acc.with(readsOf(info, v, st.Init)).with(readsOf(info, v, st.Cond))
				seq(st.Body.List, acc) // exits inside are recorded; the body may run zero times
			case *ast.RangeStmt:
				acc = acc.with(readsOf(info, v, st.X))
				seq(st.Body.List, acc)
			case *ast.BlockStmt:
				f := seq(st.List, acc)
				if f == nil {
					return nil
				}
				acc = f
			default:
				acc = acc.with(readsOf(info, v, st))
			}
		}
		return acc
	}
	if f := seq(stmts, fieldSet{}); f != nil {
		exits = append(exits, f)
	}
	return intersectFields(exits)
}

// firstMentionOrder: fields of v in order of first mention.
func firstMentionOrder(info *types.Info, v types.Object, stmts []ast.Stmt) []string {
	seen := map[string]bool{}
	var out []string
	for _, st := range stmts {
		for _, f := range readsOf(info, v, st) {
			if f != "*" && !seen[f] {
				seen[f] = true
				out = append(out, f)
			}
		}
	}
	return out
}

// printerBodies enumerates the printing code of the printer files of internal/tlast.
func printerBodies(r *repoCtx, fam *astFamily) []*printerBody {
	var out []*printerBody
	for _, name := range sortedKeys(r.funcs) {
		fi := r.funcs[name]
		if !strings.HasPrefix(name, "internal/tlast.") || fi.Decl.Body == nil || fi.Decl.Recv == nil {
			continue
		}
		file := filepath.Base(r.co.Fset.Position(fi.Decl.Pos()).Filename)
		if !fam.printerFiles[file] || !fam.isPrinter(fi.Obj) {
			continue
		}
		info := fi.Pkg.TypesInfo
		if len(fi.Decl.Recv.List) == 1 && len(fi.Decl.Recv.List[0].Names) == 1 {
			rv := info.Defs[fi.Decl.Recv.List[0].Names[0]]
			if s := namedStructName(rv.Type()); fam.structs[s] {
				out = append(out, &printerBody{name: fi.Name(), strct: s, v: rv, stmts: fi.Decl.Body.List, fi: fi, isMeth: true})
			}
		}
		ast.Inspect(fi.Decl.Body, func(n ast.Node) bool {
			rs, ok := n.(*ast.RangeStmt)
			if !ok || rs.Value == nil {
				return true
			}
			id, ok := rs.Value.(*ast.Ident)
			if !ok || info.Defs[id] == nil {
				return true
			}
			if s := namedStructName(info.Defs[id].Type()); fam.structs[s] {
				out = append(out, &printerBody{name: fi.Name() + "/range " + s, strct: s, v: info.Defs[id], stmts: rs.Body.List, fi: fi})
			}
			return true
		})
	}
	return out
}

// emissionEvents: the fields of v in the order in which the printing code emits text that depends on them. A statement
// that mentions fields is one event; a conditional whose branches emit nothing that depends on v is one event for the
// fields of its condition (`if f.Excl { "!" }`); a range over a field is an event for that field. Each event carries
// the branches it sits in, so that events of mutually exclusive branches are not ordered against each other.
type emission struct {
	fields []string
	path   []string // "<if position>:then" / ":else" / "<switch position>:<clause index>"
}

func (e emission) exclusiveWith(o emission) bool {
	for _, a := range e.path {
		for _, b := range o.path {
			ai, bi := strings.LastIndex(a, ":"), strings.LastIndex(b, ":")
			if a[:ai] == b[:bi] && a[ai:] != b[bi:] {
				return true
			}
		}
	}
	return false
}

func emissionEvents(info *types.Info, v types.Object, stmts []ast.Stmt) []emission {
	strip := func(l []string) []string {
		var o []string
		for _, x := range l {
			if x != "*" && !containsStr(o, x) {
				o = append(o, x)
			}
		}
		return o
	}
	var rec func(stmts []ast.Stmt, path []string) []emission
	rec = func(stmts []ast.Stmt, path []string) []emission {
		var out []emission
		add := func(f []string) {
			if len(f) > 0 {
				out = append(out, emission{f, append([]string(nil), path...)})
			}
		}
		for _, st := range stmts {
			switch st := st.(type) {
			case *ast.IfStmt:
				id := fmt.Sprint(st.Pos())
				sub := rec(st.Body.List, append(path[:len(path):len(path)], id+":then"))
				switch e := st.Else.(type) {
				case *ast.BlockStmt:
					sub = append(sub, rec(e.List, append(path[:len(path):len(path)], id+":else"))...)
				case *ast.IfStmt:
					sub = append(sub, rec([]ast.Stmt{e}, append(path[:len(path):len(path)], id+":else"))...)
				}
				if len(sub) == 0 {
					add(strip(readsOf(info, v, st.Cond)))
				} else {
					out = append(out, sub...)
				}
			case *ast.RangeStmt:
				add(strip(readsOf(info, v, st.X)))
				out = append(out, rec(st.Body.List, path)...)
			case *ast.ForStmt:
				out = append(out, rec(st.Body.List, path)...)
			case *ast.BlockStmt:
				out = append(out, rec(st.List, path)...)
			case *ast.SwitchStmt:
				id := fmt.Sprint(st.Pos())
				for i, cc := range st.Body.List {
					out = append(out, rec(cc.(*ast.CaseClause).Body, append(path[:len(path):len(path)], fmt.Sprintf("%s:%d", id, i)))...)
				}
			default:
				add(strip(readsOf(info, v, st)))
			}
		}
		return out
	}
	return rec(stmts, nil)
}

func isTokenIterator(t types.Type) (named bool, ptr bool) {
	if p, ok := t.(*types.Pointer); ok {
		n, _ := isTokenIterator(p.Elem())
		return n, n
	}
	if n, ok := t.(*types.Named); ok && n.Obj().Name() == "tokenIterator" {
		return true, false
	}
	return false, false
}

// parserFillSteps: for each AST struct, per parser function, the consumption step at which each field of a local of
// that type is first assigned. A step is a call that advances the token iterator: a function that returns one, or a
// pointer-receiver method of it.
func parserFillSteps(r *repoCtx, pkg *types.Package, fam *astFamily) map[string]map[string]map[string]int {
	out := map[string]map[string]map[string]int{}
	for _, name := range sortedKeys(r.funcs) {
		fi := r.funcs[name]
		if !strings.HasPrefix(name, "internal/tlast.") || fi.Decl.Body == nil {
			continue
		}
		file := filepath.Base(r.co.Fset.Position(fi.Decl.Pos()).Filename)
		if !fam.parserFiles[file] {
			continue
		}
		info := fi.Pkg.TypesInfo
		consuming := func(call *ast.CallExpr) bool {
			sig, _ := info.TypeOf(call.Fun).(*types.Signature)
			if fn, _ := typeutil.Callee(info, call).(*types.Func); fn != nil {
				sig, _ = fn.Type().(*types.Signature) // the method's own signature carries the receiver
			}
			if sig == nil {
				return false
			}
			for i := 0; i < sig.Results().Len(); i++ {
				if n, _ := isTokenIterator(sig.Results().At(i).Type()); n {
					return true
				}
			}
			if sig.Recv() != nil {
				if _, p := isTokenIterator(sig.Recv().Type()); p {
					return true
				}
			}
			return false
		}
		step := 0
		countCalls := func(e ast.Node) {
			ast.Inspect(e, func(n ast.Node) bool {
				if _, isLit := n.(*ast.FuncLit); isLit {
					return false
				}
				if call, ok := n.(*ast.CallExpr); ok && consuming(call) {
					step++
				}
				return true
			})
		}
		record := func(lhs ast.Expr) {
			e := ast.Unparen(lhs)
			var chain []*ast.SelectorExpr
			for {
				sel, ok := e.(*ast.SelectorExpr)
				if !ok {
					break
				}
				chain = append(chain, sel)
				e = ast.Unparen(sel.X)
			}
			id, ok := e.(*ast.Ident)
			if !ok || len(chain) == 0 {
				return
			}
			obj := info.Uses[id]
			if obj == nil {
				return
			}
			if _, isVar := obj.(*types.Var); !isVar || obj.Parent() == pkg.Scope() {
				return
			}
			s := namedStructName(obj.Type())
			if !fam.structs[s] {
				return
			}
			first, last := chain[len(chain)-1], chain[0]
			if ls := namedStructName(info.TypeOf(last.X)); ls != "" && layoutField(pkg, ls+"."+last.Sel.Name) {
				return
			}
			if layoutField(pkg, s+"."+first.Sel.Name) {
				return
			}
			if out[s] == nil {
				out[s] = map[string]map[string]int{}
			}
			if out[s][fi.Name()] == nil {
				out[s][fi.Name()] = map[string]int{}
			}
			if _, seen := out[s][fi.Name()][first.Sel.Name]; !seen {
				out[s][fi.Name()][first.Sel.Name] = step
			}
		}
		ast.Inspect(fi.Decl.Body, func(n ast.Node) bool {
			switch n := n.(type) {
			case *ast.FuncLit:
				return false
			case *ast.AssignStmt:
				for _, rhs := range n.Rhs {
					countCalls(rhs)
				}
				for _, l := range n.Lhs {
					record(l)
				}
				return false
			case *ast.CallExpr:
				if consuming(n) {
					step++
				}
			}
			return true
		})
	}
	return out
}

// printerOrderFollowsParser (C21): when the parser fills field F at an earlier consumption step than field G, the
// reference printer of the struct does not emit G's text before F's (the grammar is read left to right).
func printerOrderFollowsParser(c *Check, r *repoCtx, pkg *types.Package, fam *astFamily) {
	printerOrderFollowsParserRule(c, r, pkg, fam, "printer/field-order-follows-parser")
}

func printerOrderFollowsParserRule(c *Check, r *repoCtx, pkg *types.Package, fam *astFamily, rule string) {
	steps := parserFillSteps(r, pkg, fam)
	for _, pb := range printerBodies(r, fam) {
		if !pb.isMeth || !fam.isReference(pb.fi.Obj) {
			continue
		}
		evs := emissionEvents(pb.fi.Pkg.TypesInfo, pb.v, pb.stmts)
		rank := map[string]int{}
		var order [][]string
		for i, e := range evs {
			order = append(order, e.fields)
			for _, f := range e.fields {
				if _, ok := rank[f]; !ok {
					rank[f] = i
				}
			}
		}
		for _, pf := range sortedKeys(steps[pb.strct]) {
			st := steps[pb.strct][pf]
			var common []string
			for _, f := range sortedKeys(st) {
				if _, ok := rank[f]; ok {
					common = append(common, f)
				}
			}
			if len(common) < 2 {
				continue
			}
			ok, why := true, ""
			for _, f := range common {
				for _, g := range common {
					if st[f] < st[g] && rank[f] > rank[g] && !evs[rank[f]].exclusiveWith(evs[rank[g]]) {
						ok = false
						why = fmt.Sprintf("%s is parsed before %s but printed after it", f, g)
					}
				}
			}
			c.Ob(rule, pb.name+"~"+pf, ok, r.pos(pb.fi.Decl.Pos()), fmt.Sprintf("emission order %v; %s fills at steps %v %s", order, pf, st, why))
		}
	}
}

// printerSiblingsConsultSameFields (C25, C23): a field that the reference printer of a struct consults on every path must be
// consulted on every path by any other printer of that struct that prints it at all.
func printerSiblingsConsultSameFields(c *Check, r *repoCtx, rule string, all bool, only func(pb *printerBody) bool) {
	installMethodReads(r)
	bodies := printerBodies(r, tl1Family)
	ref := map[string]fieldSet{}
	for _, pb := range bodies {
		if pb.isMeth && pb.fi.Obj.Name() == "StreamString" {
			ref[pb.strct] = mustRead(pb.fi.Pkg.TypesInfo, pb.v, pb.stmts)
		}
	}
	for _, pb := range bodies {
		if pb.isMeth && pb.fi.Obj.Name() == "StreamString" || !only(pb) {
			continue
		}
		rs, ok := ref[pb.strct]
		if !ok {
			continue
		}
		info := pb.fi.Pkg.TypesInfo
		must := mustRead(info, pb.v, pb.stmts)
		fields := firstMentionOrder(info, pb.v, pb.stmts)
		whole := false
		for _, st := range pb.stmts {
			for _, f := range readsOf(info, pb.v, st) {
				if f == "*" {
					whole = true
				}
			}
		}
		if whole {
			// the value is handed on as a whole on some path: every field the reference printer always consults is printed there
			for _, f := range sortedKeys(rs) {
				if f != "*" && !containsStr(fields, f) {
					fields = append(fields, f)
				}
			}
		}
		if all {
			for _, f := range sortedKeys(rs) {
				if f != "*" && !containsStr(fields, f) {
					fields = append(fields, f)
				}
			}
		}
		for _, f := range fields {
			if !rs.has(f) {
				continue
			}
			c.Ob(rule, pb.name+"."+f, must.has(f), r.pos(pb.fi.Decl.Pos()), fmt.Sprintf("%s.StreamString consults %s on every path; this printer consults it on every path: %v", pb.strct, f, must.has(f)))
		}
	}
}

// parserUnconditionalFills: per AST struct, the fields that some parse function assigns as a top-level statement of
// its body (i.e. on every path that reaches the end of the function), layout fields excluded.
func parserUnconditionalFills(r *repoCtx, pkg *types.Package, fam *astFamily) map[string]map[string]string {
	out := map[string]map[string]string{}
	for _, name := range sortedKeys(r.funcs) {
		fi := r.funcs[name]
		if !strings.HasPrefix(name, "internal/tlast.") || fi.Decl.Body == nil || !fam.parserFiles[filepath.Base(r.co.Fset.Position(fi.Decl.Pos()).Filename)] {
			continue
		}
		info := fi.Pkg.TypesInfo
		// a function that replaces its node value wholesale on some path (`res = T{…}`) fills fields only tentatively
		replaced := map[types.Object]bool{}
		ast.Inspect(fi.Decl.Body, func(x ast.Node) bool {
			if as, ok := x.(*ast.AssignStmt); ok && as.Tok == token.ASSIGN {
				for _, l := range as.Lhs {
					if id, ok := l.(*ast.Ident); ok && info.Uses[id] != nil && fam.structs[namedStructName(info.Uses[id].Type())] {
						replaced[info.Uses[id]] = true
					}
				}
			}
			return true
		})
		stop := false
		for _, st := range fi.Decl.Body.List {
			if stop {
				break
			}
			// a nested return that hands back a node value ends the "every path" prefix of the function
			if _, isAssign := st.(*ast.AssignStmt); !isAssign {
				ast.Inspect(st, func(x ast.Node) bool {
					rt, isR := x.(*ast.ReturnStmt)
					if !isR {
						return true
					}
					for _, res := range rt.Results {
						e := ast.Unparen(res)
						if u, isU := e.(*ast.UnaryExpr); isU {
							e = ast.Unparen(u.X)
						}
						if id, isID := e.(*ast.Ident); isID {
							if v, isVar := info.Uses[id].(*types.Var); isVar && fam.structs[namedStructName(v.Type())] {
								stop = true
							}
						}
					}
					return true
				})
				continue
			}
			as, ok := st.(*ast.AssignStmt)
			if !ok {
				continue
			}
			for _, l := range as.Lhs {
				sel, ok := ast.Unparen(l).(*ast.SelectorExpr)
				if !ok {
					continue
				}
				id, ok := sel.X.(*ast.Ident)
				if !ok {
					continue
				}
				obj := info.Uses[id]
				if v, isVar := obj.(*types.Var); !isVar || v.Parent() == pkg.Scope() || replaced[obj] {
					continue
				}
				s := namedStructName(obj.Type())
				if !fam.structs[s] || layoutField(pkg, s+"."+sel.Sel.Name) {
					continue
				}
				if out[s] == nil {
					out[s] = map[string]string{}
				}
				out[s][sel.Sel.Name] = fi.Name()
			}
		}
	}
	return out
}

// printerConsultsWhatParserAlwaysFills: a field the parser of a node fills on every path is consulted by the node's
// reference printer on every path (a printer that looks at it only for some shapes of the node drops it for the others).
func printerConsultsWhatParserAlwaysFills(c *Check, r *repoCtx, pkg *types.Package, fam *astFamily, rule string) {
	fills := parserUnconditionalFills(r, pkg, fam)
	for _, pb := range printerBodies(r, fam) {
		if !pb.isMeth || !fam.isReference(pb.fi.Obj) {
			continue
		}
		must := mustRead(pb.fi.Pkg.TypesInfo, pb.v, pb.stmts)
		for _, f := range sortedKeys(fills[pb.strct]) {
			c.Ob(rule, pb.name+"."+f, must.has(f), r.pos(pb.fi.Decl.Pos()), fmt.Sprintf("%s fills %s.%s unconditionally; the printer consults it on every path: %v", fills[pb.strct][f], pb.strct, f, must.has(f)))
		}
	}
}

// printerSiblingsKeepGrouping: position-wise sibling agreement on grouping tokens. Where <Node>.StreamString prints a
// field F of the node through printer method R (`f.FieldType.StreamString`) and another printer of the same node that
// satisfies only() prints F through a different method P (`f.FieldType.streamtoCrc32`), every grouping token (a bracket
// of any kind) that R's body emits must be emitted by P's body: text that is to be parsed back cannot group the
// sub-terms at that position without them (`ps:(vector demo.point)` listed as `ps:vector demo.point` parses as two
// fields). Positions where the reference itself uses a bracket-free printer (a function's result) impose nothing.
func printerSiblingsKeepGrouping(c *Check, r *repoCtx, rule string, only func(pb *printerBody) bool) {
	byObj := map[*types.Func]*FuncInfo{}
	for _, fi := range r.funcs {
		byObj[fi.Obj] = fi
	}
	brackets := func(fi *FuncInfo) map[string]bool {
		out := map[string]bool{}
		ast.Inspect(fi.Decl.Body, func(n ast.Node) bool {
			lit, ok := n.(*ast.BasicLit)
			if !ok || lit.Kind != token.STRING {
				return true
			}
			s, err := strconv.Unquote(lit.Value)
			if err != nil {
				return true
			}
			for _, ch := range s {
				if strings.ContainsRune("()[]{}<>", ch) {
					out[string(ch)] = true
				}
			}
			return true
		})
		return out
	}
	// calledOn: field of pb.v → printer methods called with that field as the receiver
	calledOn := func(pb *printerBody) map[string][]*FuncInfo {
		info := pb.fi.Pkg.TypesInfo
		out := map[string][]*FuncInfo{}
		for _, st := range pb.stmts {
			ast.Inspect(st, func(n ast.Node) bool {
				call, ok := n.(*ast.CallExpr)
				if !ok {
					return true
				}
				sel, ok := call.Fun.(*ast.SelectorExpr)
				if !ok {
					return true
				}
				fsel, ok := ast.Unparen(sel.X).(*ast.SelectorExpr)
				if !ok {
					return true
				}
				id, ok := ast.Unparen(fsel.X).(*ast.Ident)
				if !ok || info.Uses[id] != pb.v {
					return true
				}
				callee, _ := info.Uses[sel.Sel].(*types.Func)
				if callee == nil || byObj[callee] == nil || byObj[callee].Decl.Body == nil || !tl1Family.isPrinter(callee) {
					return true
				}
				out[fsel.Sel.Name] = append(out[fsel.Sel.Name], byObj[callee])
				return true
			})
		}
		return out
	}
	bodies := printerBodies(r, tl1Family)
	ref := map[string]map[string][]*FuncInfo{}
	for _, pb := range bodies {
		if pb.isMeth && pb.fi.Obj.Name() == "StreamString" {
			ref[pb.strct] = calledOn(pb)
		}
	}
	for _, pb := range bodies {
		if !pb.isMeth || pb.fi.Obj.Name() == "StreamString" || !only(pb) {
			continue
		}
		rs, ok := ref[pb.strct]
		if !ok {
			continue
		}
		mine := calledOn(pb)
		for _, f := range sortedKeys(mine) {
			for _, p := range mine[f] {
				for _, rf := range rs[f] {
					if rf == p {
						continue
					}
					want, have := brackets(rf), brackets(p)
					var missing []string
					for _, b := range sortedKeys(want) {
						if !have[b] {
							missing = append(missing, b)
						}
					}
					c.Ob(rule, pb.name+"."+f+"/"+p.Name(), len(missing) == 0, r.pos(p.Decl.Pos()), fmt.Sprintf("%s.StreamString prints %s through %s, which emits the grouping tokens {%s}; this printer prints it through %s, which does not emit: %s", pb.strct, f, rf.Name(), strings.Join(sortedKeys(want), " "), p.Name(), orStr(strings.Join(missing, " "), "— none missing —")))
				}
			}
		}
	}
}
