package main

import (
	"fmt"
	"go/ast"
	"go/types"
	"sort"
	"strings"

	"golang.org/x/tools/go/types/typeutil"
)

func init() { register("C23", checkC23) }

// staticGraph: static call edges between the functions of a set of packages (AST + typeutil.StaticCallee).
type staticGraph struct {
	out map[*types.Func][]*types.Func
	fi  map[*types.Func]*FuncInfo
}

func buildStaticGraph(co *Corpus) *staticGraph {
	g := &staticGraph{out: map[*types.Func][]*types.Func{}, fi: co.allFuncs()}
	for fn, fi := range g.fi {
		seen := map[*types.Func]bool{}
		ast.Inspect(fi.Decl.Body, func(n ast.Node) bool {
			if call, ok := n.(*ast.CallExpr); ok {
				if callee := typeutil.StaticCallee(fi.Pkg.TypesInfo, call); callee != nil && !seen[callee] {
					seen[callee] = true
					g.out[fn] = append(g.out[fn], callee)
				}
			}
			return true
		})
	}
	return g
}

func (g *staticGraph) reach(root *types.Func) map[*types.Func]bool {
	seen := map[*types.Func]bool{root: true}
	st := []*types.Func{root}
	for len(st) > 0 {
		f := st[len(st)-1]
		st = st[:len(st)-1]
		for _, c := range g.out[f] {
			if !seen[c] {
				seen[c] = true
				st = append(st, c)
			}
		}
	}
	return seen
}

// qtBase strips the quicktemplate prefixes: `StreamString`/`WriteString`/`String` are one template.
func qtBase(name string) string {
	for _, p := range []string{"Stream", "Write", "stream", "write"} {
		if strings.HasPrefix(name, p) && len(name) > len(p) {
			return name[len(p):]
		}
	}
	return name
}

func checkC23(c *Check) {
	c.Explanation = "Implicit-tag rule, decided on internal/tlast: (1) Combinator.crc32() is hash/crc32.ChecksumIEEE over canonicalForm(); (2) Construct.ID is assigned from crc32() only under !IDExplicit, and an explicit tag is parsed base 16 and stored verbatim with IDExplicit=true; (3) the canonical type reference keeps the bare marker `%` exactly when the reference is bare and the type's own name (not the namespace) does not start in lower case; (4) non-interference: no function reachable from canonicalForm reads a layout/comment field (CommentBefore, CommentRight, NewlineRight, position ranges) or Arithmetic.Nums, and the canonical printer family never calls the ordinary printer family (TypeRef.String, ArithmeticOrType.String, Arithmetic.String, Field.String, RepeatWithScale.String, ScaleFactor.String), which prints arithmetic as written and uses parentheses."
	c.NotCovered = "the CRC value itself; that the canonical text equals the documented one-line form token by token"
	c.Trusted = []string{"go/types", "hash/crc32"}
	r := loadRepoFuncs(c, "./internal/tlast")
	if r == nil {
		return
	}
	// (1)
	if ir := r.ir("internal/tlast.Combinator.crc32"); ir != nil {
		ok := false
		for _, n := range ir.Body {
			if call, isC := n.(*CallN); isC && call.Fn != nil && call.Fn.Pkg() != nil && call.Fn.Pkg().Path() == "hash/crc32" && call.Fn.Name() == "ChecksumIEEE" && call.Tail {
				ok = len(call.Args) == 1 && strings.Contains(call.Args[0], "item.canonicalForm()")
			}
		}
		c.Ob("tag/crc32-ieee-of-canonical-form", "tlast.Combinator.crc32", ok, r.pos(ir.Info.Decl.Pos()), "returns crc32.ChecksumIEEE([]byte(canonicalForm()))")
	}
	// (2) assignments of Construct.ID across the package
	idAssign := 0
	for name, fi := range r.funcs {
		if strings.HasSuffix(fi.Pkg.PkgPath, "tlast") == false {
			continue
		}
		ir := buildFuncIR(fi, r.co.allFuncs(), r.co.Fset)
		walkBlock(ir.Body, nil, func(n Node, gs []Guard) {
			switch n := n.(type) {
			case *CallN:
				for _, res := range n.Results {
					if strings.HasSuffix(res, ".Construct.ID") || strings.HasSuffix(res, ".ID") && strings.Contains(res, "Construct") {
						idAssign++
						gtxt := guardStr(gs)
						ok := n.Fn != nil && n.Fn.Name() == "crc32" && strings.Contains(gtxt, "IDExplicit") && strings.Contains(gtxt, "!")
						c.Ob("tag/implicit-only-when-not-explicit", name, ok, r.pos(n.Pos), "Construct.ID = "+funcDisplayName(n.Fn)+"() under `"+gtxt+"`")
					}
				}
			case *AssignN:
				for i, l := range n.LHS {
					if (strings.HasSuffix(l, ".Construct.ID") || l == "res0.ID" || strings.HasSuffix(l, ".ID") && !strings.Contains(l, "PRID")) && i < len(n.RHS) && !strings.Contains(l, "IDPR") {
						// explicit tag: value comes from strconv.ParseUint(…, 16, 32) and IDExplicit is set alongside
						if !strings.HasSuffix(l, ".ID") {
							continue
						}
						idAssign++
						src := n.RHS[i]
						parsed16 := false
						setsExplicit := false
						walkBlock(ir.Body, nil, func(m Node, _ []Guard) {
							switch m := m.(type) {
							case *CallN:
								if m.Fn != nil && m.Fn.Name() == "ParseUint" && len(m.Args) == 3 && m.Args[1] == "#16" && m.Args[2] == "#32" && len(m.Results) >= 1 && m.Results[0] == src {
									parsed16 = true
								}
							case *AssignN:
								for j, l2 := range m.LHS {
									if strings.HasSuffix(l2, ".IDExplicit") && j < len(m.RHS) && m.RHS[j] == "true" {
										setsExplicit = true
									}
								}
							}
						})
						c.Ob("tag/explicit-verbatim", name, parsed16 && setsExplicit, r.pos(n.Pos), fmt.Sprintf("%s = %s: parsed with ParseUint(_,16,32)=%v, IDExplicit=true set=%v", l, src, parsed16, setsExplicit))
					}
				}
			}
		})
	}
	c.Set("construct_id_assignments", idAssign)
	// (3) non-interference
	g := buildStaticGraph(r.co)
	var root *types.Func
	for fn := range g.fi {
		if fn.Name() == "streamcanonicalForm" {
			root = fn
		}
	}
	if root == nil {
		c.Undecided("tag/non-interference", "tlast.Combinator.streamcanonicalForm", "", "anchor not found")
		return
	}
	reach := g.reach(root)
	forbiddenFields := map[string]bool{"CommentBefore": true, "CommentRight": true, "NewlineRight": true, "Nums": true}
	ordinary := map[string]bool{"TypeRef.String": true, "TypeRef.TopLevelString": true, "ArithmeticOrType.String": true, "Arithmetic.String": true, "Field.String": true,
		"RepeatWithScale.String": true, "ScaleFactor.String": true, "Combinator.String": true, "TemplateArgument.String": true, "Constructor.String": true}
	canonical := func(fn *types.Func) bool {
		b := qtBase(fn.Name())
		return strings.Contains(b, "oCrc32") || b == "canonicalForm" || b == "canonicalFormWithTag"
	}
	nFuncs := 0
	var names []string
	for fn := range reach {
		fi := g.fi[fn]
		if fi == nil {
			continue
		}
		nFuncs++
		names = append(names, fi.Name())
		disp := funcDisplayName(fn)
		base := strings.Replace(disp, fn.Name(), qtBase(fn.Name()), 1)
		// field reads
		ast.Inspect(fi.Decl.Body, func(n ast.Node) bool {
			sel, ok := n.(*ast.SelectorExpr)
			if !ok {
				return true
			}
			if s, ok := fi.Pkg.TypesInfo.Selections[sel]; ok && s.Kind() == types.FieldVal {
				fname := s.Obj().Name()
				bad := forbiddenFields[fname] || strings.HasPrefix(fname, "PR") || fname == "Pos"
				if bad {
					c.Ob("tag/non-interference/no-layout-read", base+"."+fname, false, r.pos(sel.Pos()), "a function reachable from canonicalForm reads "+fname+" (layout, comment or as-written arithmetic)")
				}
			}
			return true
		})
		// crossing into the ordinary printer family
		if canonical(fn) {
			for _, callee := range g.out[fn] {
				cd := funcDisplayName(callee)
				cb := strings.Replace(cd, callee.Name(), qtBase(callee.Name()), 1)
				if g.fi[callee] != nil && ordinary[cb] {
					c.Ob("tag/non-interference/canonical-printer-calls-ordinary-printer", base+"→"+cb, false, r.pos(fi.Decl.Pos()), "the canonical form of this construct is produced by the ordinary printer (arithmetic as written, parentheses)")
				}
			}
		}
	}
	sort.Strings(names)
	// (4) decision table of the canonical type reference: the bare marker and the name
	if ir := r.ir("internal/tlast.TypeRef.streamtoCrc32"); ir != nil {
		ok, nameOK := false, false
		if len(ir.Body) >= 2 {
			if in, isIf := ir.Body[0].(*IfN); isIf && len(in.Else) == 0 {
				ok = in.Cond.String() == "and(item.Bare,or(!nz(len(item.Type.Name)),!unicode.IsLower(item.Type.Name[#0])))" && strings.Contains(blockText(in.Then), `("%")`)
			}
			if cn, isCall := ir.Body[1].(*CallN); isCall && cn.Fn != nil && cn.Fn.Name() == "StreamString" && cn.Recv == "item.Type" {
				nameOK = true
			}
		}
		c.Ob("tag/canonical-bare-marker-rule", "tlast.TypeRef.toCrc32", ok && nameOK, r.pos(ir.Info.Decl.Pos()), fmt.Sprintf("`%%` is kept iff the reference is bare and the type's own name (Type.Name, without the namespace) does not start with a lower-case letter: %v; then the full name is printed by Name.String of Type: %v", ok, nameOK))
	}
	c.Ob("tag/non-interference/analysed", "functions reachable from canonicalForm", nFuncs >= 8, "", fmt.Sprintf("%d functions: %s", nFuncs, strings.Join(uniq(names), ", ")))
	c.Floor("tag/implicit-only-when-not-explicit", 1)
	c.Floor("tag/explicit-verbatim", 1)
}
