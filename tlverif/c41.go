package main

import (
	"fmt"
	"go/types"
	"regexp"
	"sort"
	"strconv"
	"strings"
)

func init() { register("C41", checkC41) }

// mirrorLR swaps left/right (and Left/Right, Min/Max) in an IR text and negates small integer literals
// when negate is set: the image of a function under the tree's left-right symmetry.
func mirrorLR(s string, negate bool) string {
	r := strings.NewReplacer("left", "\x01", "right", "left", "Left", "\x02", "Right", "Left", "Min", "\x03", "Max", "Min")
	s = r.Replace(s)
	s = strings.NewReplacer("\x01", "right", "\x02", "Right", "\x03", "Max").Replace(s)
	if negate {
		s = regexp.MustCompile(`#(-?)(\d+)`).ReplaceAllStringFunc(s, func(m string) string {
			if m == "#0" {
				return m
			}
			if strings.HasPrefix(m, "#-") {
				return "#" + m[2:]
			}
			return "#-" + m[1:]
		})
	}
	return s
}

var c41Writers = map[string]bool{
	"TreeNode.rotateLeft": true, "TreeNode.rotateRight": true, "TreeNode.bigRotateLeft": true, "TreeNode.bigRotateRight": true,
	"TreeNode.updateHeight": true, "insert": true, "remove": true, "extractMin": true,
}

func checkC41(c *Check) {
	c.Explanation = "Containers, decided as structural clauses on internal/vkgo/pkg/algo (the behaviour 'matches a reference container on every history' is not decided): AVL — (1) the height given to a freshly allocated node equals what updateHeight computes for a childless node (1 + max(h(nil), h(nil))), otherwise balance factors are computed from stale heights; (2) left/right mirror agreement: rotateLeft, bigRotateLeft, findMax and the -2 half of repairBalance are the mirror images of rotateRight, bigRotateRight, findMin and the +2 half; (3) rotation shape: the demoted node's height is recomputed before the promoted one's and the promoted node is returned; height = 1+max, balance = h(right)-h(left); (4) modify-then-repair: in insert/remove/extractMin every path that reassigns a child (or replaces the value by the extracted minimum) returns repairBalance() of that node, and Set/Delete store the returned root; (5) insert, remove and find use the comparator in the same direction; (6) child/height fields are written only by the rotation/insert/remove functions. Ring buffer — (7) the wrap rule (index < cap ? index : index-cap) is the same in PushBack, IndexRef and Slices and PopFront wraps both positions together; (8) every element access in Front/PopFront/IndexRef is preceded on its path by the emptiness/out-of-range panic guard; (9) PushBack grows before writing when full, Reserve copies the two segments in order and resets positions; (10) Swap and DeepAssign cover every struct field; PopFront and Clear zero vacated slots."
	c.NotCovered = "functional equivalence to a reference map/queue over operation histories; comparator correctness; allocator reuse"
	c.Trusted = []string{"go/types"}
	r := loadRepoFuncs(c, "./internal/vkgo/pkg/algo")
	if r == nil {
		return
	}
	P := "internal/vkgo/pkg/algo."
	txt := func(name string) (string, *FuncIR) {
		ir := r.ir(P + name)
		if ir == nil {
			return "", nil
		}
		return irText(ir), ir
	}
	pos := func(ir *FuncIR) string { return r.pos(ir.Info.Decl.Pos()) }

	// (1) fresh node height
	nilH, leafH := -1, -1
	if t, ir := txt("TreeNode.getHeight"); ir != nil {
		if m := regexp.MustCompile(`^if !\(item != nil\)\n  return #(\d+)\nreturn item\.height\n$`).FindStringSubmatch(t); m != nil {
			nilH, _ = strconv.Atoi(m[1])
		}
		c.Ob("avl/height-of-nil", "TreeNode.getHeight", nilH >= 0, pos(ir), fmt.Sprintf("getHeight(nil) = %d, otherwise the stored height", nilH))
	}
	if t, ir := txt("TreeNode.updateHeight"); ir != nil {
		m := regexp.MustCompile(`^assign item\.height = \(#(\d+) \+ max\(item\.left\.getHeight\(\), item\.right\.getHeight\(\)\)\)\n$`).FindStringSubmatch(t)
		if m != nil && nilH >= 0 {
			k, _ := strconv.Atoi(m[1])
			leafH = k + nilH
		}
		c.Ob("avl/height-formula", "TreeNode.updateHeight", m != nil && m[1] == "1", pos(ir), "height = 1 + max(h(left), h(right))")
	}
	if t, ir := txt("TreeNode.calcBalance"); ir != nil {
		c.Ob("avl/balance-formula", "TreeNode.calcBalance", strings.HasSuffix(t, "return (item.right.getHeight() - item.left.getHeight())\n"), pos(ir), "balance = h(right) - h(left)")
	}
	if _, ir := txt("insert"); ir != nil {
		n := 0
		walkBlock(ir.Body, nil, func(nd Node, gs []Guard) {
			as, ok := nd.(*AssignN)
			if !ok || len(as.LHS) != 1 || as.LHS[0] != "val.height" {
				return
			}
			n++
			got := -1
			if strings.HasPrefix(as.RHS[0], "#") {
				got, _ = strconv.Atoi(as.RHS[0][1:])
			}
			c.Ob("avl/fresh-node-height", "insert/val.height", leafH >= 0 && got == leafH, r.pos(as.Pos), fmt.Sprintf("a freshly allocated (childless) node gets height %d; updateHeight gives a childless node 1 + max(%d, %d) = %d — a leaf that looks as low as nil hides one level from every ancestor's balance factor", got, nilH, nilH, leafH))
		})
		if n == 0 {
			// acceptable alternative: the fresh node is passed through updateHeight/repairBalance
			t := irText(ir)
			c.Ob("avl/fresh-node-height", "insert/alloc-arm", regexp.MustCompile(`call dyn:val3\.allocate[^\n]*\n(\s+[^\n]*\n)*?\s+(call TreeNode\.(updateHeight|repairBalance) recv=val)`).MatchString(t), pos(ir), "the fresh node's height is computed by updateHeight/repairBalance")
		}
	}
	// (2) mirrors
	for _, pr := range [][2]string{{"TreeNode.rotateRight", "TreeNode.rotateLeft"}, {"TreeNode.bigRotateRight", "TreeNode.bigRotateLeft"}, {"TreeNode.findMin", "TreeNode.findMax"}} {
		a, ira := txt(pr[0])
		b, irb := txt(pr[1])
		if ira == nil || irb == nil {
			continue
		}
		ma := mirrorLR(a, false)
		c.Ob("avl/mirror-agreement", pr[0]+"~"+pr[1], ma == b, pos(irb), "mirror image differs: "+firstDiff(ma, b))
	}
	if _, ir := txt("TreeNode.repairBalance"); ir != nil {
		// shape: updateHeight first; if bal==K {A} else {if bal==-K {mirror(A)}}; return item
		ok := false
		detail := "unexpected shape"
		if len(ir.Body) >= 3 {
			first, isCall := ir.Body[0].(*CallN)
			top, isIf := ir.Body[1].(*IfN)
			last, isRet := ir.Body[len(ir.Body)-1].(*ReturnN)
			if isCall && first.Fn != nil && first.Fn.Name() == "updateHeight" && first.Recv == "item" && isIf && isRet && len(last.Vals) == 1 && last.Vals[0] == "item" && len(top.Else) == 1 {
				if inner, isIf2 := top.Else[0].(*IfN); isIf2 && len(inner.Else) == 0 {
					var sa, sb strings.Builder
					dumpBlock(&sa, top.Then, "")
					dumpBlock(&sb, inner.Then, "")
					ca, cb := top.Cond.String(), inner.Cond.String()
					okCond := ca == "!(item.calcBalance() != #2)" && cb == "!(item.calcBalance() != #-2)"
					okMirror := mirrorLR(sa.String(), true) == sb.String()
					okArm := regexp.MustCompile(`^if \(item\.right\.calcBalance\(\) != #-1\)\n  call TreeNode\.rotateLeft recv=item\(\) -> \[\] !err tail\n  return <tail>\nelse\n  call TreeNode\.bigRotateLeft recv=item\(\) -> \[\] !err tail\n  return <tail>\n$`).MatchString(sa.String())
					ok = okCond && okMirror && okArm
					detail = fmt.Sprintf("thresholds +2/-2=%v; right-heavy arm (inner child balance -1 → double rotation, else single left rotation)=%v; left-heavy arm is its mirror=%v", okCond, okArm, okMirror)
				}
			}
		}
		c.Ob("avl/repair-table", "TreeNode.repairBalance", ok, pos(ir), detail)
	}
	// (3) rotation shape
	if t, ir := txt("TreeNode.rotateRight"); ir != nil {
		ok := t == "assign $ := item.left\nassign item.left = $.right\nassign $.right = item\ncall TreeNode.updateHeight recv=item() -> []\ncall TreeNode.updateHeight recv=$() -> []\nreturn $\n"
		c.Ob("avl/rotation-shape", "TreeNode.rotateRight", ok, pos(ir), "l := n.left; n.left = l.right; l.right = n; heights recomputed child-first (n then l); l returned")
	}
	if t, ir := txt("TreeNode.bigRotateRight"); ir != nil {
		ok := t == "call TreeNode.rotateLeft recv=item.left() -> [item.left]\ncall TreeNode.rotateRight recv=item() -> [] !err tail\nreturn <tail>\n"
		c.Ob("avl/rotation-shape", "TreeNode.bigRotateRight", ok, pos(ir), "n.left = n.left.rotateLeft(); return n.rotateRight()")
	}
	// (4) modify-then-repair
	for _, fn := range []string{"insert", "remove", "extractMin"} {
		_, ir := txt(fn)
		if ir == nil {
			continue
		}
		n := 0
		var walk func(blk Block, modified bool, conts []Block)
		walk = func(blk Block, modified bool, conts []Block) {
			for i, nd := range blk {
				switch nd := nd.(type) {
				case *CallN:
					for _, res := range nd.Results {
						if res == "val.left" || res == "val.right" {
							modified = true
						}
					}
					// a descent into a child may change the subtree under the same root node (a deletion two levels
					// down keeps the child's root and shortens it): wherever its result is kept, the node needs repair
					if nd.Fn != nil && !nd.Tail && (nd.Fn.Name() == "insert" || nd.Fn.Name() == "remove" || nd.Fn.Name() == "extractMin") {
						for _, a := range nd.Args {
							if a == "val.left" || a == "val.right" {
								modified = true
							}
						}
					}
					if nd.Tail {
						if modified {
							n++
							ok := nd.Fn != nil && nd.Fn.Name() == "repairBalance" && nd.Recv == "val"
							c.Ob("avl/modify-then-repair", fn+"/return@"+strconv.Itoa(n), ok, r.pos(nd.Pos), "a path that reassigned a child returns val.repairBalance()")
						}
					}
				case *AssignN:
					for _, l := range nd.LHS {
						if l == "val.left" || l == "val.right" {
							modified = true
						}
					}
				case *ReturnN:
					if len(nd.Vals) == 1 && nd.Vals[0] == "<tail>" {
						return
					}
					if modified {
						n++
						ok := false
						for _, v := range nd.Vals {
							if v == "val.repairBalance()" {
								ok = true
							}
						}
						c.Ob("avl/modify-then-repair", fn+"/return@"+strconv.Itoa(n), ok, r.pos(nd.Pos), "a path that reassigned a child returns val.repairBalance(): returns "+strings.Join(nd.Vals, ", "))
					}
					return
				case *IfN:
					rest := append([]Block{blk[i+1:]}, conts...)
					walk(nd.Then, modified, rest)
					walk(nd.Else, modified, rest)
					return
				}
			}
			if len(conts) > 0 {
				walk(conts[0], modified, conts[1:])
			}
		}
		walk(ir.Body, false, nil)
		if n == 0 {
			c.Ob("avl/modify-then-repair", fn, false, pos(ir), "no child-modifying path found (rule would be vacuous)")
		}
	}
	c.Floor("avl/modify-then-repair", 6)
	for _, fn := range []string{"TreeMap.Set", "TreeMap.Delete"} {
		if t, ir := txt(fn); ir != nil {
			c.Ob("avl/root-reassigned", fn, regexp.MustCompile(`call (insert|remove) recv=\(item\.root, [^\n]*\) -> \[item\.root\]`).MatchString(t), pos(ir), "the new subtree root returned by insert/remove is stored in t.root")
		}
	}
	// (5) comparator direction
	for _, fn := range []string{"insert", "remove", "find"} {
		t, ir := txt(fn)
		if ir == nil {
			continue
		}
		value := "val2"
		right := regexp.MustCompile(`if dyn:\$\.Cmp\(val\.value, ` + value + `\)\n\s+(call \w+ recv=\(val\.right,|assign val = val\.right)`).MatchString(t)
		left := regexp.MustCompile(`if dyn:\$\.Cmp\(` + value + `, val\.value\)\n\s+(call \w+ recv=\(val\.left,|assign val = val\.left)`).MatchString(t)
		c.Ob("avl/comparator-direction", fn, right && left, pos(ir), fmt.Sprintf("Cmp(node, key) → right subtree=%v; Cmp(key, node) → left subtree=%v", right, left))
	}
	// (6) writers of structure fields
	var fis []*FuncInfo
	for name, fi := range r.funcs {
		if strings.HasPrefix(name, P) {
			fis = append(fis, fi)
		}
	}
	sort.Slice(fis, func(i, j int) bool { return fis[i].Name() < fis[j].Name() })
	for _, w := range fieldWriters(fis, map[string]bool{"TreeNode.left": true, "TreeNode.right": true, "TreeNode.height": true}) {
		c.Ob("avl/who-may-write-structure", w.Func+"/"+w.Field, c41Writers[w.Func], r.pos(w.Pos), fmt.Sprintf("%s writes %s (%s)", w.Func, w.Field, w.How))
	}
	c.Floor("avl/who-may-write-structure", 10)

	// ---- ring buffer
	if t, ir := txt("CircularSlice.PushBack"); ir != nil {
		wrap := strings.Contains(t, "if (item.write_pos < $)\n  assign item.elements[item.write_pos] = val\nelse\n  assign item.elements[(item.write_pos - $)] = val\nassign item.write_pos ++ \n")
		grow := regexp.MustCompile(`if !\(\(item\.write_pos - item\.read_pos\) != \$\)\n(  [^\n]*\n)*?  call CircularSlice\.Reserve recv=item\(\(\$ \* #2\)\) -> \[\]\n  assign \$ = len\(item\.elements\)\n`).MatchString(t)
		iGrow := strings.Index(t, "call CircularSlice.Reserve")
		iWrite := strings.Index(t, "assign item.elements[")
		c.Ob("ring/wrap-rule", "CircularSlice.PushBack", wrap, pos(ir), "writes at write_pos if < cap else write_pos-cap, then write_pos++")
		c.Ob("ring/grow-before-write", "CircularSlice.PushBack", grow && iGrow >= 0 && iGrow < iWrite, pos(ir), "when Len == Cap the buffer is doubled (capacity re-read) before the element is written")
	}
	if t, ir := txt("CircularSlice.IndexRef"); ir != nil {
		wrap := strings.Contains(t, "if ($ < $)\n  return item.elements[$]\n") && strings.HasSuffix(t, "return item.elements[($ - $)]\n") && strings.Contains(t, "assign $ := (item.read_pos + val)\n") && strings.Contains(t, "assign $ := len(item.elements)\n")
		c.Ob("ring/wrap-rule", "CircularSlice.IndexRef", wrap, pos(ir), "reads at read_pos+pos if < cap else that minus cap")
	}
	if t, ir := txt("CircularSlice.Slices"); ir != nil {
		wrap := strings.HasSuffix(t, "if (item.write_pos <= $)\n  return item.elements[item.read_pos:item.write_pos], nil\nreturn item.elements[item.read_pos:$], item.elements[#0:(item.write_pos - $)]\n")
		c.Ob("ring/wrap-rule", "CircularSlice.Slices", wrap, pos(ir), "[read:write] if write <= cap else [read:cap] + [0:write-cap]")
	}
	if t, ir := txt("CircularSlice.PopFront"); ir != nil {
		wrap := strings.Contains(t, "assign item.read_pos ++ \nassign $ := len(item.elements)\nif ($ <= item.read_pos)\n  assign item.read_pos -= $\n  assign item.write_pos -= $\n")
		zero := strings.Contains(t, "assign $ := item.elements[item.read_pos]\ndecl $\nassign item.elements[item.read_pos] = $\n") && strings.HasSuffix(t, "return $\n")
		c.Ob("ring/wrap-rule", "CircularSlice.PopFront", wrap, pos(ir), "read_pos++ and, on reaching cap, both positions are reduced by cap together")
		c.Ob("ring/vacated-slot-zeroed", "CircularSlice.PopFront", zero, pos(ir), "the popped element is read first, its slot zeroed, and the element returned")
	}
	if t, ir := txt("CircularSlice.Clear"); ir != nil {
		ok := strings.Contains(t, "call CircularSlice.Slices recv=item() -> [$ $]") && strings.Count(t, "[*] = $") == 2 && strings.HasSuffix(t, "assign item.read_pos = #0\nassign item.write_pos = #0\n")
		c.Ob("ring/vacated-slot-zeroed", "CircularSlice.Clear", ok, pos(ir), "both segments are zeroed and positions reset")
	}
	if t, ir := txt("CircularSlice.Reserve"); ir != nil {
		ok := regexp.MustCompile(`call CircularSlice\.Slices recv=item\(\) -> \[\$ \$\]\nassign \$ := make\(T:\[\]T, val\)\ncall copy recv=\(\$, \$\) -> \[\$\]\ncall copy recv=\(\$\[\$:\], \$\) -> \[\$\]\n`).MatchString(t) && strings.HasSuffix(t, "assign item.elements = $\nassign item.read_pos = #0\nassign item.write_pos = $\n")
		// order of the two copies: first segment first
		var sb strings.Builder
		dumpBlock(&sb, ir.Body, "")
		raw := sb.String()
		m := regexp.MustCompile(`-> \[(L\d+:\w+) (L\d+:\w+)\]\n[^\n]*\ncall copy recv=\(L\d+:\w+, (L\d+:\w+)\)[^\n]*\ncall copy recv=\(L\d+:\w+\[L\d+:\w+:\], (L\d+:\w+)\)`).FindStringSubmatch(raw)
		order := m != nil && m[1] == m[3] && m[2] == m[4]
		c.Ob("ring/reserve-preserves-order", "CircularSlice.Reserve", ok && order, pos(ir), "the older segment is copied first, the wrapped segment after it, positions become 0 and the number copied")
	}
	// (8) guards before element access
	for _, fn := range []string{"CircularSlice.Front", "CircularSlice.PopFront", "CircularSlice.IndexRef"} {
		_, ir := txt(fn)
		if ir == nil {
			continue
		}
		guardRx := regexp.MustCompile(`^(!\(item\.write_pos != item\.read_pos\)|\(item\.write_pos <= L\d+:\w+\))$`)
		// walk top-level statements: the range guard (an if whose body panics) must come before any statement reading item.elements[…]
		guarded := false
		n := 0
		for _, nd := range ir.Body {
			if in, ok := nd.(*IfN); ok && guardRx.MatchString(in.Cond.String()) && len(in.Then) > 0 {
				if cn, ok := in.Then[len(in.Then)-1].(*CallN); ok && cn.Builtin == "panic" {
					guarded = true
					continue
				}
			}
			var sb strings.Builder
			dumpBlock(&sb, Block{nd}, "")
			if strings.Contains(sb.String(), "item.elements[") {
				n++
				c.Ob("ring/range-guard-before-access", fn+"/access@"+strconv.Itoa(n), guarded, r.pos(nd.P()), "an element is accessed only after the emptiness / out-of-range panic test on this path: "+strings.TrimSpace(strings.SplitN(sb.String(), "\n", 2)[0]))
			}
		}
	}
	c.Floor("ring/range-guard-before-access", 4)
	// (10) field completeness of Swap / DeepAssign
	var fields []string
	for _, fi := range fis {
		if fi.Name() == "CircularSlice.Swap" {
			if recv := fi.Obj.Type().(*types.Signature).Recv(); recv != nil {
				t := recv.Type()
				if p, ok := t.(*types.Pointer); ok {
					t = p.Elem()
				}
				if st, ok := t.Underlying().(*types.Struct); ok {
					for i := 0; i < st.NumFields(); i++ {
						fields = append(fields, st.Field(i).Name())
					}
				}
			}
		}
	}
	if t, ir := txt("CircularSlice.Swap"); ir != nil {
		var missing []string
		for _, f := range fields {
			if !strings.Contains(t, "assign item."+f+",val."+f+" = val."+f+",item."+f+"\n") {
				missing = append(missing, f)
			}
		}
		c.Ob("ring/all-fields-covered", "CircularSlice.Swap", len(fields) >= 3 && len(missing) == 0, pos(ir), fmt.Sprintf("struct fields %v; not swapped: %v", fields, missing))
	}
	if t, ir := txt("CircularSlice.DeepAssign"); ir != nil {
		var missing []string
		for _, f := range fields {
			if f == "elements" {
				if !strings.Contains(t, "elements:append(conv(nil), val.elements)") {
					missing = append(missing, f+" (must be a copy)")
				}
				continue
			}
			if !strings.Contains(t, f+":val."+f) {
				missing = append(missing, f)
			}
		}
		c.Ob("ring/all-fields-covered", "CircularSlice.DeepAssign", len(fields) >= 3 && len(missing) == 0, pos(ir), fmt.Sprintf("struct fields %v; not copied: %v", fields, missing))
	}
}
