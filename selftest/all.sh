#!/bin/bash
# all.sh — regression of the checker itself: every mutant and seeded change must be reported by (one of) the checks
# named for it, every behaviour-preserving refactor must leave its checks silent. Runs in scratch worktrees of /repo.
# Expected checks: mutants/refactors — the C<NN> prefixes of the file name (gen_* refactors: C01 C03 C05 C06 C09 C13);
# seeds — "detected_by" of meta.json.
cd "$(dirname "$0")/.."
jobs=${JOBS:-5}
list=$(mktemp)
for p in selftest/mutants/*.patch; do
  ids=$(basename "$p" | grep -oE '^(c[0-9]{2}_)+' | grep -oE '[0-9]{2}' | sed 's/^/C/' | tr '\n' ' ')
  echo "mutant $p $ids" >> "$list"
done
for p in selftest/refactors/*.patch; do
  case "$(basename "$p")" in
    gen_*) ids="C01 C03 C05 C06 C09 C13" ;;
    *) ids=$(basename "$p" | grep -oE '^(c[0-9]{2}_)+' | grep -oE '[0-9]{2}' | sed 's/^/C/' | tr '\n' ' ') ;;
  esac
  echo "refactor $p $ids" >> "$list"
done
for d in seeded/C*/; do
  ids=$(python3 -c "import json,sys;print(json.load(open('$d/meta.json')).get('detected_by','').replace(',',' '))")
  base=$(python3 -c "import json;print(json.load(open('$d/meta.json')).get('base',''))")
  echo "seed${base:+@$base} ${d}patch.diff $ids" >> "$list"
done
run_one() {
  kind=$1; patch=$2; shift 2
  BASE=; case "$kind" in seed@*) BASE=${kind#seed@}; kind=seed ;; esac
  out=$(BASE=$BASE selftest/run.sh "$patch" "$@" 2>&1 </dev/null)
  fired=$(echo "$out" | grep -c 'exit=1')
  broken=$(echo "$out" | grep -vc 'exit=[01]')
  case "$kind" in
    refactor) if [ "$fired" -eq 0 ] && [ "$broken" -eq 0 ]; then echo "ok   refactor $patch silent on $*"; else echo "FAIL refactor $patch: $(echo "$out" | grep -v 'exit=0' | head -2 | cut -c1-220)"; fi ;;
    *) if [ "$fired" -ge 1 ]; then echo "ok   $kind $patch caught"; else echo "FAIL $kind $patch not caught by $*: $(echo "$out" | head -2 | cut -c1-200)"; fi ;;
  esac
}
export -f run_one
sed -i "s/ *$//" "$list"
xargs -P "$jobs" -L 1 bash -c 'run_one "$@"' _ < "$list" | sort
rm -f "$list"
