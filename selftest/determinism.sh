#!/bin/bash
# determinism.sh [IDs…] — runs each claimed quick check twice against /repo into scratch output dirs and
# compares the sets of (rule, construct, verdict): a check whose verdicts depend on map order or timing is broken.
set -u
ids=("$@")
if [ ${#ids[@]} -eq 0 ]; then
  ids=($(python3 -c "import json;print(' '.join(c['property_id'] for c in json.load(open('/verif/MANIFEST.json'))['checks']))"))
fi
rc=0
for id in "${ids[@]}"; do
  a=$(mktemp -d /tmp/tlv-det-XXXXXX); b=$(mktemp -d /tmp/tlv-det-XXXXXX)
  TLVERIF_OUT=$a TLVERIF_VERBOSE=1 /verif/bin/tlverif check "$id" 2>&1 | grep -E "^(ok  |  [^ ])" | sed -E 's#/tmp/tlverif-[0-9]+/##g; s/wall=[0-9.]+s//' | sort > $a/v.txt
  TLVERIF_OUT=$b TLVERIF_VERBOSE=1 /verif/bin/tlverif check "$id" 2>&1 | grep -E "^(ok  |  [^ ])" | sed -E 's#/tmp/tlverif-[0-9]+/##g; s/wall=[0-9.]+s//' | sort > $b/v.txt
  if cmp -s $a/v.txt $b/v.txt; then echo "$id deterministic ($(wc -l < $a/v.txt) verdict lines)"; else echo "$id NONDETERMINISTIC"; diff $a/v.txt $b/v.txt | head -5; rc=1; fi
  rm -rf $a $b
done
exit $rc
