#!/usr/bin/env python3
"""mkmut.py <kind:mutants|refactors> <name> <file> <old> <new> [<file> <old> <new> ...]
Creates selftest/<kind>/<name>.patch by replacing exactly one occurrence of <old> in <file> (relative to /repo)."""
import sys, subprocess, tempfile, os, shutil
kind, name = sys.argv[1], sys.argv[2]
edits = sys.argv[3:]
wt = tempfile.mkdtemp(prefix="tlv-mk-")
subprocess.check_call(["git","-C","/repo","worktree","add","--detach","-q",wt+"/r","HEAD"])
try:
    for i in range(0, len(edits), 3):
        f, old, new = edits[i:i+3]
        p = os.path.join(wt, "r", f)
        s = open(p).read()
        n = s.count(old)
        if n != 1:
            print(f"ERROR: {n} occurrences of old text in {f}"); sys.exit(1)
        open(p, "w").write(s.replace(old, new))
    diff = subprocess.check_output(["git","-C",wt+"/r","diff"])
    out = f"/verif/selftest/{kind}/{name}.patch"
    open(out, "wb").write(diff)
    print("wrote", out, len(diff), "bytes")
finally:
    subprocess.call(["git","-C","/repo","worktree","remove","--force",wt+"/r"])
    shutil.rmtree(wt, ignore_errors=True)
