#!/bin/bash
# usage: run.sh <patch-file> <ID> [<ID>...]   — applies the patch to a scratch worktree of /repo and runs
# the given checks against it (reports/evidence go to a scratch dir, not /verif). Prints one line per check.
set -u
patch=$(readlink -f "$1"); shift
wt=$(mktemp -d /tmp/tlv-mut-XXXXXX)
out=$(mktemp -d /tmp/tlv-out-XXXXXX)
git -C /repo worktree add --detach -q "$wt/repo" ${BASE:-HEAD} >/dev/null 2>&1 || { echo "worktree failed"; exit 2; }
if ! git -C "$wt/repo" apply "$patch"; then echo "PATCH DOES NOT APPLY: $patch"; git -C /repo worktree remove --force "$wt/repo"; rm -rf "$wt" "$out"; exit 2; fi
for id in "$@"; do
  TLVERIF_REPO="$wt/repo" TLVERIF_OUT="$out" /verif/bin/tlverif check "$id" ${TIER:+--tier $TIER} > "$out/$id.log" 2>&1
  rc=$?
  first=$(grep -m1 -E "rule=" "$out/$id.log" | cut -c1-260)
  echo "$(basename "$patch") $id exit=$rc ${first}"
  if [ -n "${VERBOSE:-}" ]; then head -${VERBOSE} "$out/$id.log"; fi
done
git -C /repo worktree remove --force "$wt/repo"
rm -rf "$wt" "$out"
