#!/bin/bash
# runall.sh [quick|thorough] — runs every claimed check from MANIFEST.json in parallel; prints one line per property.
tier=${1:-quick}
cd "$(dirname "$0")"
export GOFLAGS=-mod=mod GOPROXY=off GOWORK=off
ids=$(python3 -c "import json;print(' '.join(c['property_id'] for c in json.load(open('MANIFEST.json'))['checks']))")
out=$(mktemp -d)
printf '%s\n' $ids | xargs -P ${JOBS:-6} -I{} sh -c "bin/tlverif check {} --tier $tier > $out/{}.out 2>&1; echo \"{} exit=\$?\"" | sort | tr '\n' ' '; echo
grep -h 'VIOLATION\|UNDECIDED' $out/*.out | head -40
grep -c KNOWN-FINDING $out/*.out | grep -v ':0' | sed "s|$out/||"
rm -rf "$out"
