#!/bin/bash
# usage: run.sh <repo root> — exits 1 when -0.0 does not survive a TL2 round trip
set -e
REPO=$(cd "${1:?usage: run.sh <repo root>}" && pwd)
HERE=$(cd "$(dirname "$0")" && pwd)
export GOFLAGS=-mod=mod GOPROXY=off GOWORK=off
WORK=$(mktemp -d /tmp/c03-negzero.XXXXXX)
trap 'rm -rf "$WORK"' EXIT
(cd "$REPO" && go build -o "$WORK/tl2gen" ./cmd/tl2gen)
mkdir -p "$WORK/mod"; cp "$HERE/schema.tl" "$WORK/mod/"; cp "$HERE/demo_test.go.txt" "$WORK/mod/demo_test.go"; cp "$REPO/go.sum" "$WORK/mod/"
GOVER=$(sed -n 's/^go \(.*\)$/\1/p' "$REPO/go.mod" | head -1)
printf 'module demo\n\ngo %s\n\nrequire github.com/VKCOM/tl v0.0.0\n\nreplace github.com/VKCOM/tl => %s\n' "$GOVER" "$REPO" > "$WORK/mod/go.mod"
cd "$WORK/mod"
"$WORK/tl2gen" --language=go --outdir=./gen --pkgPath=demo/gen/tl --basicPkgPath=github.com/VKCOM/tl/pkg/basictl --tl2WhiteList='*' schema.tl >/dev/null
go test -count=1 . 2>&1 | grep -v "no test files"
