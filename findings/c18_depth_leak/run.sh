#!/bin/bash
# usage: run.sh <repo root>
# exits non-zero when random filling is broken (C18)
set -e
REPO=$(cd "${1:?usage: run.sh <repo root>}" && pwd)
HERE=$(cd "$(dirname "$0")" && pwd)
export GOFLAGS=-mod=mod GOPROXY=off GOWORK=off
WORK=$(mktemp -d /tmp/c18-2-demo.XXXXXX)
trap 'rm -rf "$WORK"' EXIT

(cd "$REPO" && go build -o "$WORK/tl2gen" ./cmd/tl2gen)

mkdir -p "$WORK/mod"
cp "$HERE/schema.tl" "$WORK/mod/schema.tl"
cp "$HERE/demo_test.go.txt" "$WORK/mod/demo_test.go"
cp "$REPO/go.sum" "$WORK/mod/go.sum"
GOVER=$(sed -n 's/^go \(.*\)$/\1/p' "$REPO/go.mod" | head -1)
cat > "$WORK/mod/go.mod" <<EOM
module demo

go $GOVER

require github.com/VKCOM/tl v0.0.0

replace github.com/VKCOM/tl => $REPO
EOM

cd "$WORK/mod"
"$WORK/tl2gen" --language=go --outdir=./gen --pkgPath=demo/gen/tl \
    --basicPkgPath=github.com/VKCOM/tl/pkg/basictl \
    --generateRandomCode --checkLengthSanity=false schema.tl >/dev/null

echo "--- generated QuadTree.FillRandom:"
sed -n '/func (item \*QuadTree) FillRandom/,/^}/p' gen/internal/*.go

go test -count=1 -timeout 20m ./...
